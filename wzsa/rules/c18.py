"""C18 - context-local data never leaks between concurrent contexts (structural clauses)."""

from __future__ import annotations

import ast

from .. import astq
from ..cfg import CFG, Node
from ..loader import AnalysisError, ClassInfo, FuncInfo, Module, Repo, dotted, norm
from ..report import Ctx
from ._c18_helpers import FRESH, INPLACE_OPERATOR, EmptyRun, Flow, Unit, handler_catches, is_empty_literal, mangle, shared

LEVEL_TEXT = (
    "Static decision of structural clauses of C18 on /repo's current source (werkzeug/local.py): (R18.1) copy-on-write - "
    "flow-sensitively, on every path, no object that may be the one currently held in a Local/LocalStack ContextVar (the result "
    "of `<storage>.get(...)`, through local names, helper returns and helper parameters) is the receiver of an in-place mutation "
    "(subscript store/delete, augmented assignment, typeshed's list/dict/set mutator methods, operator.setitem & co.), and every "
    "object bound with `<storage>.set(v)` was created in the same call (literal, .copy(), slice, list()/dict(), a + b); (R18.2) "
    "release rebinds the ContextVar to an empty container of the payload's kind on every path and mutates nothing, "
    "release_local / LocalManager.cleanup release every managed local, unconditionally, by a plain call in the calling context; "
    "(R18.3) LocalProxy.__init__ performs no lookup on the proxied object (it is only type-tested and stored), every installed "
    "_get_current_object variant reads it at call time and keeps no state, _ProxyLookup.__get__ calls _get_current_object on "
    "every instance access and stores nothing, Local()/LocalStack() hand the local itself to the proxy; (R18.4) with an empty "
    "payload, Local.__getattr__/__delattr__ raise AttributeError and LocalStack.top/pop return None (abstract execution of the "
    "method with the payload known to be empty), every `.get` on a storage passes an empty default, each proxy variant turns that "
    "outcome (AttributeError / None / LookupError) into RuntimeError, _ProxyLookup.__get__ catches RuntimeError, re-raises it exactly "
    "when no fallback was declared and otherwise returns the fallback, __bool__'s fallback returns False and __repr__'s fallback does "
    "not go through the bound object; (R18.5) Local/LocalStack instances have no storage besides the ContextVar (__slots__), the "
    "ContextVar is bound only in __init__, and the module keeps no mutable module-level or class-level container. "
    "Not decided: the interleaving semantics of contextvars itself (trusted), mutation through the list that LocalStack.push "
    "returns to its caller, behaviour of Local.__getattr__ for a missing name in a NON-empty namespace beyond the shape checked, "
    "the text of error messages, and the callable-proxy variant (nothing is 'unbound' for a callable)."
)
TRUSTED = [
    "CPython ast",
    "contextvars: a Context copy shares the payload objects of the parent; ContextVar.get() without default raises LookupError when unset; ContextVar.set() affects only the current context",
    "typeshed mutator tables of list/dict/set (bundled with the repo's mypy, read as text)",
    "list/dict: .copy(), slicing, list()/dict(), literals and a + b / a | b create new objects; indexing an empty list/dict raises IndexError/KeyError",
]
ASSUMPTIONS = [
    "private helpers (single underscore) of local.py are called only from local.py, so their parameters carry what the call sites in the module pass",
    "no context copy can happen between two statements of one method call (copies are made by the running code itself), so mutating an object created in the same call is invisible to other contexts even after it was bound",
]

LOCAL = "local"
CONTEXTVAR = "contextvars.ContextVar"


# ---------------------------------------------------------------------------
# storage slots


def _resolves_to(repo: Repo, mod: Module, e: ast.AST | None, fq: str) -> bool:
    if isinstance(e, ast.Subscript):
        e = e.value
    d = dotted(e) if e is not None else None
    return d is not None and repo.resolve(mod, d) == fq


def _ann_is_contextvar(repo: Repo, mod: Module, ann: ast.AST | None) -> bool:
    """annotation is ContextVar[...] possibly `| None` / Optional[...] - and nothing else."""
    if ann is None:
        return False
    if isinstance(ann, ast.Constant) and isinstance(ann.value, str):
        try:
            ann = ast.parse(ann.value, mode="eval").body
        except SyntaxError:
            return False
    if isinstance(ann, ast.BinOp) and isinstance(ann.op, ast.BitOr):
        parts = [ann.left, ann.right]
        members = []
        while parts:
            p = parts.pop()
            if isinstance(p, ast.BinOp) and isinstance(p.op, ast.BitOr):
                parts += [p.left, p.right]
            else:
                members.append(p)
        real = [m for m in members if not astq.is_none(m)]
        return bool(real) and all(_resolves_to(repo, mod, m, CONTEXTVAR) for m in real)
    if isinstance(ann, ast.Subscript) and (dotted(ann.value) or "").endswith("Optional"):
        return _ann_is_contextvar(repo, mod, ann.slice)
    return _resolves_to(repo, mod, ann, CONTEXTVAR)


def _is_contextvar(repo: Repo, u: Unit, e: ast.AST, depth: int = 0) -> bool:
    mod = u.fi.module
    if isinstance(e, ast.Call):
        return _resolves_to(repo, mod, e.func, CONTEXTVAR)
    if isinstance(e, ast.Name) and depth < 4:
        node = u.cfg.node_of(e)
        if node is None:
            return False
        defs = u.rd.reaching(node, e.id)
        if not defs:
            return False
        for d in defs:
            if d.kind == "param":
                a = u.fi.node.args
                arg = next((x for x in a.posonlyargs + a.args + a.kwonlyargs if x.arg == d.name), None)
                if arg is None or not _ann_is_contextvar(repo, mod, arg.annotation):
                    return False
            elif d.kind in ("assign", "walrus") and d.index is None and d.value is not None:
                if not _is_contextvar(repo, u, d.value, depth + 1):
                    return False
            else:
                return False
        return True
    return False


def _slot_stores(u: Unit) -> list[tuple[str, ast.AST, ast.AST]]:
    """(mangled attribute name, stored value, node) for every store of an attribute of the instance in u."""
    out: list[tuple[str, ast.AST, ast.AST]] = []
    sn = u.self_name()
    if sn is None:
        return out
    for n in u.walk():
        if isinstance(n, (ast.Assign, ast.AnnAssign)) and n.value is not None:
            tgs = n.targets if isinstance(n, ast.Assign) else [n.target]
            for tg in tgs:
                if isinstance(tg, ast.Attribute) and isinstance(tg.value, ast.Name) and tg.value.id == sn:
                    out.append((mangle(u.clsname, tg.attr), n.value, n))
        elif isinstance(n, ast.Call) and dotted(n.func) in ("object.__setattr__", "setattr", "super().__setattr__") and len(n.args) == 3:
            nm = astq.const_str(n.args[1])
            if nm is not None and isinstance(n.args[0], ast.Name) and n.args[0].id == sn:
                out.append((nm, n.args[2], n))
    return out


def _storage_classes(repo: Repo, mod: Module, probe: Flow) -> dict[str, tuple[ClassInfo, set[str]]]:
    out: dict[str, tuple[ClassInfo, set[str]]] = {}
    for c in mod.classes.values():
        slots: set[str] = set()
        for fi in c.methods.values():
            u = probe.unit_of(fi)
            for nm, val, _ in _slot_stores(u):
                if _is_contextvar(repo, u, val):
                    slots.add(nm)
        if slots:
            out[c.name] = (c, slots)
    return out


# ---------------------------------------------------------------------------
# small CFG helpers


def _only_raises(cfg: CFG, starts: list[Node], allowed: set[str | None]) -> tuple[bool, str]:
    """every path from starts ends at the raising exit, through raise statements of the allowed classes only."""
    if not starts:
        return False, "no such branch"
    r = cfg.reach(starts)
    if cfg.exit.id in r:
        return False, "a path from there returns normally"
    names = []
    for n in cfg.nodes:
        if n.id in r and isinstance(n.ast, ast.Raise):
            names.append(astq.raised_name(n.ast) if n.ast.exc is not None else None)
    if not names:
        return False, "no raise statement there"
    bad = [x for x in names if x not in allowed]
    return not bad, f"raises {sorted(set(str(x) if x else 're-raise' for x in names))}"


def _none_test(t: Node, is_subject) -> str | None:
    """label of the edge on which the tested subject IS None ('T' / 'F'), if t is such a test."""
    a = t.ast
    if t.kind != "test" or not isinstance(a, ast.Compare) or len(a.ops) != 1:
        return None
    l, op, r = a.left, a.ops[0], a.comparators[0]
    if astq.is_none(l):
        l, r = r, l
    if not astq.is_none(r) or not is_subject(l):
        return None
    if isinstance(op, (ast.Is, ast.Eq)):
        return "T"
    if isinstance(op, (ast.IsNot, ast.NotEq)):
        return "F"
    return None


def _other(label: str) -> str:
    return "F" if label == "T" else "T"


# ---------------------------------------------------------------------------


def run(ctx: Ctx) -> None:
    repo = ctx.repo
    mod = repo.module(LOCAL)
    for rid, text in {
        "R18.1": "copy-on-write: no object that may be the current ContextVar payload (result of <storage>.get) is mutated in place on any path, and every <storage>.set(v) binds an object created in the same call",
        "R18.2": "release rebinds the ContextVar to an empty container of the payload's kind on every path; release_local and LocalManager.cleanup release every managed local unconditionally in the calling context",
        "R18.3": "late binding: LocalProxy.__init__ only type-tests and stores the proxied object, each _get_current_object variant reads it at call time and keeps no state, _ProxyLookup.__get__ resolves on every instance access and stores nothing",
        "R18.4": "unbound behaviour: an empty payload reads as AttributeError / None, each proxy variant turns that into RuntimeError, _ProxyLookup.__get__ re-raises it exactly when no fallback is declared, __bool__ falls back to False and __repr__ to a text not derived from the bound object",
        "R18.5": "no other storage: Local/LocalStack instances hold only the ContextVar (__slots__), bound once in __init__; no mutable module-level or class-level container",
    }.items():
        ctx.rule(rid, text)

    probe = Flow(repo, mod, set())
    storage = _storage_classes(repo, mod, probe)
    ctx.floor("R18.5", "classes that keep a ContextVar in an instance slot", len(storage), 2)
    if not storage:
        raise AnalysisError("no class of werkzeug.local stores a ContextVar on its instances")
    slots: set[str] = set()
    for _, s in storage.values():
        slots |= s
    flow = Flow(repo, mod, slots)

    kinds = _payload_kinds(ctx, flow, storage)
    _r1(ctx, flow, storage)
    _r2(ctx, flow, storage, kinds)
    variants = _r3(ctx, flow, storage)
    _r4(ctx, flow, storage, kinds, variants)
    _r5(ctx, flow, storage)
    ctx.note("observation (not a finding): LocalStack.push returns the list it has just bound, so a caller can mutate the payload through it; outside the operations C18 quantifies over")


# ---------------------------------------------------------------------------
# payload kind + defaults


def _class_units(flow: Flow, c: ClassInfo) -> list[Unit]:
    return [u for u in flow.units if u.cls is c]


def _payload_kinds(ctx: Ctx, flow: Flow, storage) -> dict[str, str]:
    """per storage class the container kind its `.get(<default>)` calls agree on; each default is an R18.4 obligation."""
    kinds: dict[str, str] = {}
    for cname, (c, _) in sorted(storage.items()):
        seen: dict[str, int] = {}
        for u in _class_units(flow, c):
            for g in flow.storage_calls(u, "get"):
                k = is_empty_literal(g.args[0]) if g.args else None
                ctx.ob("R18.4", f"{u.fi.qualname}: an unset context reads as the empty payload", k in ("dict", "list"),
                       f"`{norm(g)}`: default is {'an empty ' + k if k else 'missing or not an empty container literal (unset raises LookupError / differs from released)'}", u.fi, g, f"default of {norm(g)}")
                if k:
                    seen[k] = seen.get(k, 0) + 1
        if not seen:
            raise AnalysisError(f"{cname}: no `.get(<empty literal>)` on its ContextVar, payload kind unknown")
        kinds[cname] = max(seen, key=lambda k: seen[k])
        if len(seen) > 1:
            ctx.ob("R18.4", f"{cname}: all reads use the same empty default", False, f"defaults of kinds {seen}", c.fq, None, f"{cname} default kinds")
    return kinds


# ---------------------------------------------------------------------------
# R18.1


def _mutations(flow: Flow, u: Unit, muts: set[str]):
    """(node, receiver text, tags, construct) for every syntactic in-place mutation in u."""
    for n in u.walk():
        if isinstance(n, (ast.Subscript, ast.Attribute)) and isinstance(n.ctx, (ast.Store, ast.Del)):
            st = astq.stmt_of(u.fi, n) or n
            yield n, norm(n.value), flow.tags(n.value, u), norm(st) if not isinstance(st, (ast.For, ast.AsyncFor, ast.With, ast.AsyncWith)) else norm(n)
        elif isinstance(n, ast.AugAssign) and isinstance(n.target, ast.Name):
            yield n, n.target.id, flow.name_tags_at(n.target.id, n, u), norm(n)
        elif isinstance(n, ast.Call):
            f = n.func
            if isinstance(f, ast.Attribute) and f.attr in muts:
                yield n, norm(f.value), flow.tags(f.value, u), norm(n)
            if n.args:
                fq = flow.resolve_callee_name(n, u) or ""
                head, _, last = fq.rpartition(".")
                if (head in ("builtins.list", "builtins.dict", "builtins.set") and last in muts) or (head in ("operator", "_operator") and last in INPLACE_OPERATOR):
                    yield n, norm(n.args[0]), flow.tags(n.args[0], u), norm(n)


def _r1(ctx: Ctx, flow: Flow, storage) -> None:
    repo = ctx.repo
    muts = repo.mutators("list") | repo.mutators("dict") | repo.mutators("set")
    gets: list[tuple[Unit, ast.Call]] = []
    for u in flow.units:
        for g in flow.storage_calls(u, "get"):
            flow.tags(g, u)  # registers the origin
            gets.append((u, g))
    ctx.floor("R18.1", "reads of a storage ContextVar (`<storage>.get`)", len(gets), 7)

    reached: dict[int, list[str]] = {}
    n_mut = 0
    for u in flow.units:
        for node, recv, tags, construct in _mutations(flow, u, muts):
            sh = shared(tags)
            if FRESH not in tags and not sh:
                continue  # receiver is neither a payload nor a container built here (self, parameters, ...)
            n_mut += 1
            ctx.ob("R18.1", f"{u.fi.qualname}: `{construct}` mutates an object no other context can see", not sh,
                   f"receiver `{recv}` is {flow.describe(tags)}" + ("" if not sh else ": on some path it is the object other contexts may hold, mutated in place"), u.fi, node, construct)
            for s in sh:
                reached.setdefault(s[1], []).append(f"{u.fi.qualname}: `{construct}`")
    ctx.floor("R18.1", "in-place mutations of payload-typed containers", n_mut, 3)
    for u, g in gets:
        if id(g) not in reached:
            ctx.ob("R18.1", f"{u.fi.qualname}: the payload read by `{norm(g)}` is never mutated in place", True, "reaches no mutation site (through names, helper returns or helper parameters)", u.fi, g, f"read {norm(g)}")

    n_set = 0
    for u in flow.units:
        for s in flow.storage_calls(u, "set"):
            n_set += 1
            arg = s.args[0] if s.args else next((k.value for k in s.keywords), None)
            tags = flow.tags(arg, u) if arg is not None else frozenset()
            ok = arg is not None and set(tags) == {FRESH}
            ctx.ob("R18.1", f"{u.fi.qualname}: `{norm(s)}` binds an object created in this call", ok,
                   f"argument is {flow.describe(tags)}" + ("" if ok else " on some path: not a private copy"), u.fi, s, norm(s))
    # a release method that lost its `.set` is reported by R18.2; it must not hide behind this floor
    lacking = [cn for cn, (c, _) in storage.items() if "__release_local__" in c.methods and not flow.storage_calls(flow.unit_of(c.methods["__release_local__"]), "set")]
    ctx.floor("R18.1", "bindings of a storage ContextVar (`<storage>.set`; plus release methods without one, reported by R18.2)", n_set + len(lacking), 6)


# ---------------------------------------------------------------------------
# R18.2


def _r2(ctx: Ctx, flow: Flow, storage, kinds: dict[str, str]) -> None:
    repo = ctx.repo
    mod = flow.module
    n = 0
    for cname, (c, _) in sorted(storage.items()):
        rel = c.methods.get("__release_local__")
        if rel is None:
            raise AnalysisError(f"{cname}.__release_local__ missing")
        u = flow.unit_of(rel)
        sets = flow.storage_calls(u, "set")
        nodes = [x for x in (u.cfg.node_of(s) for s in sets) if x is not None]
        covered = bool(nodes) and u.cfg.all_paths_pass(u.cfg.entry, [u.cfg.exit], nodes)
        n += 1
        ctx.ob("R18.2", f"{cname}.__release_local__ rebinds the ContextVar on every path", covered,
               f"{len(sets)} `.set` call(s)" + ("" if covered else "; a normal path through the method binds nothing: the payload stays (or is emptied in place)"), rel, rel.node, f"{cname} release rebinds")
        for s in sets:
            k = is_empty_literal(s.args[0]) if s.args else None
            ctx.ob("R18.2", f"{cname}.__release_local__ binds an empty {kinds[cname]}", k == kinds[cname], f"`{norm(s)}`: {'empty ' + k if k else 'not an empty container literal'}; reads default to an empty {kinds[cname]}", rel, s, f"{cname} release value {norm(s)}")
    ctx.floor("R18.2", "storage classes with a __release_local__", n, 2)

    # release_local(x) -> x.__release_local__()
    rl = mod.functions.get("release_local")
    if rl is None:
        raise AnalysisError("release_local missing")
    ru = flow.unit_of(rl)
    a = rl.node.args
    p = (a.posonlyargs + a.args)[0].arg if (a.posonlyargs + a.args) else None
    calls = [c_ for c_ in ru.walk() if isinstance(c_, ast.Call) and isinstance(c_.func, ast.Attribute) and c_.func.attr == "__release_local__" and astq.is_name(c_.func.value, p) and not c_.args]
    nodes = [x for x in (ru.cfg.node_of(c_) for c_ in calls) if x is not None]
    ctx.ob("R18.2", "release_local calls its argument's __release_local__ on every path", bool(nodes) and ru.cfg.all_paths_pass(ru.cfg.entry, [ru.cfg.exit], nodes), f"{len(calls)} call(s) of `{p}.__release_local__()`", rl, rl.node, "release_local delegates")

    # LocalManager
    lm = repo.cls(f"{LOCAL}.LocalManager")
    init = lm.methods.get("__init__")
    cleanup = lm.methods.get("cleanup")
    if init is None or cleanup is None:
        raise AnalysisError("LocalManager.__init__ / cleanup missing")
    iu = flow.unit_of(init)
    ia = init.node.args
    ipos = [x.arg for x in ia.posonlyargs + ia.args]
    if len(ipos) < 2:
        raise AnalysisError("LocalManager.__init__ takes no locals parameter")
    lp = ipos[1]
    stores = [(nm, v, node) for nm, v, node in _slot_stores(iu)]
    attrs = {nm for nm, _, _ in stores}
    if len(attrs) != 1:
        raise AnalysisError(f"LocalManager.__init__ stores {sorted(attrs)}: expected one attribute holding the managed locals")
    attr = next(iter(attrs))
    snodes = [x for x in (iu.cfg.node_of(node) for _, _, node in stores) if x is not None]
    ctx.ob("R18.2", "LocalManager.__init__ records the managed locals on every path", iu.cfg.all_paths_pass(iu.cfg.entry, [iu.cfg.exit], snodes), f"{len(stores)} store(s) of self.{attr}", init, init.node, "manager records locals")
    for _, v, node in stores:
        mentions = any(astq.is_name(x, lp) for x in ast.walk(v))
        cn = iu.cfg.node_of(node)
        absent = False
        if cn is not None:
            for t_, l in iu.cfg.guards(cn):
                nl = _none_test(t_, lambda e: astq.is_name(e, lp))
                if nl is not None and nl == l:
                    absent = True
        ctx.ob("R18.2", f"LocalManager.__init__: `{norm(node)}` keeps every local it was given", mentions or absent,
               "built from the parameter" if mentions else ("only when no locals were given" if absent else f"does not use `{lp}` although locals were given"), init, node, norm(node))

    cu = flow.unit_of(cleanup)
    loops = []
    for x in cu.walk():
        if isinstance(x, (ast.For, ast.AsyncFor)) and isinstance(x.target, ast.Name):
            it = x.iter
            if isinstance(it, ast.Call) and dotted(it.func) in ("list", "tuple", "reversed", "iter", "sorted") and len(it.args) == 1 and not it.keywords:
                it = it.args[0]
            if isinstance(it, ast.Attribute) and flow.self_ref(it.value, cu) and it.attr == attr:
                loops.append(x)
    ctx.ob("R18.2", "LocalManager.cleanup iterates over all managed locals", len(loops) >= 1, f"{len(loops)} loop(s) over self.{attr}", cleanup, cleanup.node, "cleanup loop")
    for lp_ in loops:
        head = cu.cfg.node_of(lp_)
        var = lp_.target.id
        rel_calls = []
        for c_ in ast.walk(lp_):
            if isinstance(c_, ast.Call):
                if isinstance(c_.func, ast.Attribute) and c_.func.attr == "__release_local__" and astq.is_name(c_.func.value, var):
                    rel_calls.append(c_)
                elif any(tu.fi is rl for tu, _ in flow.callees(c_, cu)) and c_.args and astq.is_name(c_.args[0], var):
                    rel_calls.append(c_)
        rnodes = [x for x in (cu.cfg.node_of(c_) for c_ in rel_calls) if x is not None]
        ok = False
        fact = "no release of the loop variable in the loop body"
        if head is not None and rnodes:
            body_start = cu.cfg.succ(head, "T")
            r = cu.cfg.reach([s for s in body_start if s not in rnodes], avoid_nodes=rnodes) if any(s not in rnodes for s in body_start) else set()
            skipped = [x for x in (head, cu.cfg.exit) if x.id in r]
            ok = not skipped
            fact = f"`{norm(rel_calls[0])}` on every path through the loop body" if ok else "a path through the loop body (or out of the loop) skips the release"
        ctx.ob("R18.2", "LocalManager.cleanup releases each managed local unconditionally", ok, fact, cleanup, lp_, f"cleanup releases {var}")
        # nothing but the loop can end the method early
        if head is not None:
            r0 = cu.cfg.reach(cu.cfg.entry, avoid_nodes=[head])
            ctx.ob("R18.2", "LocalManager.cleanup always reaches its release loop", cu.cfg.exit.id not in r0, "no return before the loop", cleanup, lp_, "cleanup reaches loop")


# ---------------------------------------------------------------------------
# R18.3


ALLOWED_ON_TARGET = {"isinstance", "callable", "type", "id", "object.__setattr__"}


class Variant:
    def __init__(self, unit: Unit, kind: str, defnode: ast.AST):
        self.unit = unit
        self.kind = kind  # Local | LocalStack | ContextVar | callable | ?
        self.defnode = defnode


def _r3(ctx: Ctx, flow: Flow, storage) -> list[Variant]:
    repo = ctx.repo
    mod = flow.module
    lp = repo.cls(f"{LOCAL}.LocalProxy")
    init = lp.methods.get("__init__")
    if init is None:
        raise AnalysisError("LocalProxy.__init__ missing")
    iu = flow.unit_of(init)
    a = init.node.args
    pos = [x.arg for x in a.posonlyargs + a.args]
    if len(pos) < 2:
        raise AnalysisError("LocalProxy.__init__ takes no proxied object")
    P = pos[1]

    # (a) every use of the proxied object at construction time is a type test or the store
    outer_exprs: list[ast.AST] = []
    for n in iu.walk():
        outer_exprs.append(n)
        if isinstance(n, (ast.FunctionDef, ast.AsyncFunctionDef)):
            extra = list(n.decorator_list) + list(n.args.defaults) + [d for d in n.args.kw_defaults if d is not None]
            for e in extra:
                outer_exprs.extend(ast.walk(e))
    n_use = 0
    for n in outer_exprs:
        if not (isinstance(n, ast.Name) and n.id == P):
            continue
        if isinstance(n.ctx, ast.Store):
            ctx.ob("R18.3", "LocalProxy.__init__ does not rebind the proxied object", False, f"`{P}` is reassigned in the constructor", init, n, f"rebinds {P}")
            continue
        par = astq.parent(n)
        ok = isinstance(par, ast.Call) and any(x is n for x in par.args) and dotted(par.func) in ALLOWED_ON_TARGET
        n_use += 1
        ctx.ob("R18.3", f"LocalProxy.__init__ only type-tests or stores `{P}`", ok,
               f"`{norm(par) if par is not None else P}`" + ("" if ok else ": evaluated when the proxy is created, not when it is used"), init, n, f"constructor use {norm(par) if par is not None else P}")
    ctx.floor("R18.3", "uses of the proxied object in LocalProxy.__init__ outside the nested functions", n_use, 6)

    # (b) the installed _get_current_object variants
    installs = [c_ for c_ in iu.walk() if isinstance(c_, ast.Call) and dotted(c_.func) in ("object.__setattr__", "setattr") and len(c_.args) == 3 and astq.const_str(c_.args[1]) == "_get_current_object"]
    if len(installs) != 1:
        raise AnalysisError(f"LocalProxy.__init__: {len(installs)} installation(s) of _get_current_object, expected 1")
    inst = installs[0]
    inode = iu.cfg.node_of(inst)
    ctx.ob("R18.3", "LocalProxy.__init__ installs _get_current_object on every normal path", inode is not None and iu.cfg.all_paths_pass(iu.cfg.entry, [iu.cfg.exit], [inode]), norm(inst), init, inst, "installs resolver")
    val = inst.args[2]
    variants: list[Variant] = []
    if isinstance(val, ast.Name) and inode is not None:
        defs = iu.rd.reaching(inode, val.id)
        for d in sorted(defs, key=lambda d: getattr(d.stmt, "lineno", 0)):
            if d.kind == "def" and isinstance(d.stmt, (ast.FunctionDef, ast.AsyncFunctionDef)):
                vu = flow.unit_of(d.stmt)
                kind = "?"
                dn = iu.cfg.node_of(d.stmt)
                if dn is not None:
                    for t_, l in iu.cfg.guards(dn):
                        e = t_.ast
                        if l == "T" and isinstance(e, ast.Call) and e.args and astq.is_name(e.args[0], P):
                            fn = dotted(e.func)
                            if fn == "isinstance" and len(e.args) == 2:
                                fq = repo.resolve(mod, dotted(e.args[1]) or "?") or ""
                                kind = {f"werkzeug.{LOCAL}.Local": "Local", f"werkzeug.{LOCAL}.LocalStack": "LocalStack", CONTEXTVAR: "ContextVar"}.get(fq, fq)
                            elif fn == "callable":
                                kind = "callable"
                variants.append(Variant(vu, kind, d.stmt))
            else:
                ctx.ob("R18.3", "the installed resolver is a function defined in the constructor", False, f"`{val.id}` may be bound by a {d.kind}", init, inst, f"resolver binding {d.kind}")
    else:
        ctx.ob("R18.3", "the installed resolver is a function defined in the constructor", False, f"`{norm(val)}`", init, inst, "resolver expression")
    ctx.floor("R18.3", "_get_current_object variants", len(variants), 4)
    kinds_found = sorted(v.kind for v in variants)
    for need in ("ContextVar", "Local", "LocalStack"):
        if need not in kinds_found:
            raise AnalysisError(f"no _get_current_object variant guarded by isinstance({P}, {need}) (found {kinds_found})")

    muts = repo.mutators("list") | repo.mutators("dict") | repo.mutators("set")
    for v in variants:
        fn = v.unit.fi.node
        reads = [n for n in ast.walk(fn) if isinstance(n, ast.Name) and n.id == P and isinstance(n.ctx, ast.Load)]
        shadow = P in v.unit.fi.params
        ctx.ob("R18.3", f"the {v.kind} resolver reads the proxied object when it is called", bool(reads) and not shadow, f"{len(reads)} read(s) of `{P}` in its body", init, fn, f"{v.kind} resolver reads target")
        state = []
        bound_here = set(v.unit.fi.params) | {d.name for ds in v.unit.rd.gen.values() for d in ds}
        for n in ast.walk(fn):
            if isinstance(n, (ast.Nonlocal, ast.Global)):
                state.append(norm(n))
            elif isinstance(n, (ast.Attribute, ast.Subscript)) and isinstance(n.ctx, (ast.Store, ast.Del)):
                state.append(norm(n))
            elif isinstance(n, ast.Call) and dotted(n.func) in ("setattr", "object.__setattr__"):
                state.append(norm(n))
            elif isinstance(n, ast.Call) and isinstance(n.func, ast.Attribute) and n.func.attr in muts and isinstance(n.func.value, ast.Name) and n.func.value.id not in bound_here:
                state.append(norm(n) + " (mutates an object of the enclosing scope)")
        if fn.decorator_list:
            state.append("decorated: " + ", ".join(norm(d) for d in fn.decorator_list))
        if fn.args.defaults or any(d is not None for d in fn.args.kw_defaults):
            state.append("default arguments (evaluated at proxy creation)")
        ctx.ob("R18.3", f"the {v.kind} resolver keeps no state between calls", not state, "no nonlocal/global, attribute or item store, decorator or default argument" if not state else f"{state}", init, fn, f"{v.kind} resolver stateless")

    # (c) _ProxyLookup.__get__
    pl = repo.cls(f"{LOCAL}._ProxyLookup")
    get = pl.methods.get("__get__")
    if get is None:
        raise AnalysisError("_ProxyLookup.__get__ missing")
    gu = flow.unit_of(get)
    ga = get.node.args
    gpos = [x.arg for x in ga.posonlyargs + ga.args]
    if len(gpos) < 2:
        raise AnalysisError("_ProxyLookup.__get__ has no instance parameter")
    inst_p = gpos[1]
    calls = [c_ for c_ in gu.walk() if isinstance(c_, ast.Call) and isinstance(c_.func, ast.Attribute) and c_.func.attr == "_get_current_object" and astq.is_name(c_.func.value, inst_p)]
    cnodes = [x for x in (gu.cfg.node_of(c_) for c_ in calls) if x is not None]
    class_edges = []
    for t_ in gu.cfg.tests():
        nl = _none_test(t_, lambda e: astq.is_name(e, inst_p))
        if nl is not None:
            class_edges.append((t_, nl))
    r = gu.cfg.reach(gu.cfg.entry, avoid_nodes=cnodes, avoid_edges=class_edges)
    ok = bool(cnodes) and gu.cfg.exit.id not in r
    p_ = gu.cfg.path(gu.cfg.entry, gu.cfg.exit, avoid_nodes=cnodes, avoid_edges=class_edges) if cnodes and not ok else None
    ctx.ob("R18.3", "_ProxyLookup.__get__ resolves the current object on every instance access", ok,
           f"{len(calls)} call(s) of `{inst_p}._get_current_object()`; class access (`{inst_p} is None`) excepted" + (f"; path without it: {gu.cfg.fmt_path(p_)}" if p_ else ""), get, calls[0] if calls else get.node, "__get__ resolves per access")
    kept = []
    for n in gu.walk():
        if isinstance(n, (ast.Attribute, ast.Subscript)) and isinstance(n.ctx, (ast.Store, ast.Del)):
            kept.append(norm(astq.stmt_of(get, n) or n))
        elif isinstance(n, (ast.Nonlocal, ast.Global)):
            kept.append(norm(n))
        elif isinstance(n, ast.Call) and dotted(n.func) in ("setattr", "object.__setattr__"):
            kept.append(norm(n))
    ctx.ob("R18.3", "_ProxyLookup.__get__ stores the resolved object nowhere", not kept, "no attribute/item store, setattr, nonlocal or global" if not kept else f"{kept}", get, get.node, "__get__ keeps nothing")

    # (d) Local()/LocalStack() hand the local itself to the proxy
    n_mk = 0
    for cname, (c, _) in sorted(storage.items()):
        for u in _class_units(flow, c):
            for c_ in u.walk():
                if isinstance(c_, ast.Call) and repo.resolve(mod, dotted(c_.func) or "?") == lp.fq:
                    n_mk += 1
                    first = c_.args[0] if c_.args else None
                    ctx.ob("R18.3", f"{u.fi.qualname} proxies the local itself, not a value read now", first is not None and flow.self_ref(first, u), f"`{norm(c_)}`", u.fi, c_, f"{cname} proxy of {norm(first) if first is not None else '?'}")
    ctx.floor("R18.3", "proxy constructions in Local / LocalStack", n_mk, 2)
    return variants


# ---------------------------------------------------------------------------
# R18.4


def _expect(ctx: Ctx, flow: Flow, fi: FuncInfo, kind: str, what: str, want_kind: str, want_detail: str, label: str) -> None:
    u = flow.unit_of(fi)
    run_ = EmptyRun(flow, u, kind)
    good = bool(run_.outcomes) and all(o.kind == want_kind and o.detail == want_detail for o in run_.outcomes)
    bad = next((o for o in run_.outcomes if not (o.kind == want_kind and o.detail == want_detail)), None)
    ctx.ob("R18.4", f"{fi.qualname}: {what}", good and run_.decided > 0,
           f"with an empty {kind} payload the method can only: {run_.summary()} ({run_.decided} payload-dependent branch(es) decided)", fi, bad.node.ast if bad is not None and bad.node.ast is not None else fi.node, label)


def _r4(ctx: Ctx, flow: Flow, storage, kinds: dict[str, str], variants: list[Variant]) -> None:
    repo = ctx.repo
    mod = flow.module
    by_kind = {v.kind: v for v in variants}
    lp = repo.cls(f"{LOCAL}.LocalProxy")
    init = lp.methods["__init__"]
    P = [x.arg for x in init.node.args.posonlyargs + init.node.args.args][1]

    # --- what "nothing bound" looks like at the local's own interface -----------------
    lc = repo.cls(f"{LOCAL}.Local")
    ls = repo.cls(f"{LOCAL}.LocalStack")
    if lc.name not in storage or ls.name not in storage:
        raise AnalysisError("Local / LocalStack no longer store a ContextVar")
    for nm in ("__getattr__", "__delattr__"):
        fi = lc.methods.get(nm)
        if fi is None:
            raise AnalysisError(f"Local.{nm} missing")
        _expect(ctx, flow, fi, kinds[lc.name], "an empty namespace reports every name missing with AttributeError", "raise", "AttributeError", f"Local.{nm} on empty")

    # the LocalStack resolver tells us which attribute is the 'top' read
    sv = by_kind["LocalStack"]
    top_reads = [n for n in ast.walk(sv.defnode) if isinstance(n, ast.Attribute) and astq.is_name(n.value, P) and isinstance(n.ctx, ast.Load)]
    if not top_reads:  # read moved out of the resolver (R18.3 reports that): still find which property is meant
        top_reads = [n for n in ast.walk(init.node) if isinstance(n, ast.Attribute) and astq.is_name(n.value, P) and isinstance(n.ctx, ast.Load) and n.attr in ls.methods]
    top_names = sorted({n.attr for n in top_reads})
    if len(top_names) != 1 or top_names[0] not in ls.methods:
        raise AnalysisError(f"LocalStack resolver reads {top_names} of the stack: expected one property of LocalStack")
    top = ls.methods[top_names[0]]
    _expect(ctx, flow, top, kinds[ls.name], "an empty stack has no top (None)", "return", "None", "LocalStack.top on empty")
    pop = ls.methods.get("pop")
    if pop is None:
        raise AnalysisError("LocalStack.pop missing")
    _expect(ctx, flow, pop, kinds[ls.name], "popping an empty stack returns None", "return", "None", "LocalStack.pop on empty")

    # --- each resolver turns that into RuntimeError -------------------------------------------------------
    def lookup_nodes(v: Variant) -> list[Node]:
        out = []
        for n in v.unit.cfg.nodes:
            if n.ast is not None and n.kind in ("stmt", "test") and not isinstance(n.ast, (ast.FunctionDef, ast.AsyncFunctionDef)):
                if any(isinstance(x, ast.Name) and x.id == P for x in ast.walk(n.ast)):
                    out.append(n)
        return out

    def handled(v: Variant, exc: str, what: str) -> None:
        cfg = v.unit.cfg
        lks = lookup_nodes(v)
        if not lks:
            ctx.ob("R18.4", f"the {v.kind} resolver converts {exc} into RuntimeError", False, "no lookup in the resolver", init, v.defnode, f"{v.kind} resolver converts {exc}")
            return
        for lk in lks:
            hs = [s for s, l in lk.succs if l == "exc" and isinstance(s.ast, ast.ExceptHandler)]
            catching = [h for h in hs if handler_catches(h.ast, exc)]  # type: ignore[arg-type]
            if not catching:
                ok, fact = False, f"`{lk.text()}` {what} raises {exc}; handlers around it: {[h.text() for h in hs] or 'none'}"
            else:
                ok, fact = _only_raises(cfg, [s for s, _ in catching[0].succs], {"RuntimeError"})
                fact = f"`{lk.text()}` under `{catching[0].text()}`: {fact}"
            ctx.ob("R18.4", f"the {v.kind} resolver converts {exc} ({what}) into RuntimeError", ok, fact, init, lk.ast, f"{v.kind} resolver converts {exc}")

    handled(by_kind["Local"], "AttributeError", "of a name missing in the namespace")
    cv = by_kind["ContextVar"]
    handled(cv, "LookupError", "of an unset ContextVar")
    for c_ in ast.walk(cv.defnode):
        if isinstance(c_, ast.Call) and isinstance(c_.func, ast.Attribute) and c_.func.attr == "get" and astq.is_name(c_.func.value, P):
            ctx.ob("R18.4", "the ContextVar resolver reads without a default", not c_.args and not c_.keywords, f"`{norm(c_)}`" + ("" if not c_.args else ": with a default an unset variable resolves to the default instead of reporting unbound"), init, c_, "ContextVar resolver get")

    # LocalStack: None top -> RuntimeError
    cfg = sv.unit.cfg

    def is_top(e: ast.AST) -> bool:
        if isinstance(e, ast.Attribute) and astq.is_name(e.value, P) and e.attr == top_names[0]:
            return True
        if isinstance(e, ast.NamedExpr):
            return is_top(e.value)
        if isinstance(e, ast.Name):
            node = cfg.node_of(e)
            defs = sv.unit.rd.reaching(node, e.id) if node is not None else frozenset()
            return bool(defs) and all(d.kind in ("assign", "walrus") and d.index is None and d.value is not None and is_top(d.value) for d in defs)
        return False

    tests = [(t_, _none_test(t_, is_top)) for t_ in cfg.tests()]
    tests = [(t_, l) for t_, l in tests if l is not None]
    if not tests:
        ctx.ob("R18.4", "the LocalStack resolver converts a None top into RuntimeError", False, f"no `is None` test of `{P}.{top_names[0]}` in the resolver", init, sv.defnode, "LocalStack resolver tests top")
    for t_, l in tests:
        ok, fact = _only_raises(cfg, cfg.succ(t_, l), {"RuntimeError"})
        ctx.ob("R18.4", "the LocalStack resolver converts a None top into RuntimeError", ok, f"`{t_.text()}` when true for None: {fact}", init, t_.ast, "LocalStack resolver none branch")
    if tests:
        rets = [n for n in cfg.nodes if isinstance(n.ast, ast.Return)]
        t0, l0 = tests[0]
        unguarded = [n for n in rets if not cfg.edge_dominates(t0, _other(l0), n)]
        ctx.ob("R18.4", "the LocalStack resolver returns only after the None test", bool(rets) and not unguarded, f"{len(rets)} return(s), {len(unguarded)} not dominated by the not-None edge of `{t0.text()}`", init, (unguarded[0].ast if unguarded else sv.defnode), "LocalStack resolver return guarded")

    # --- _ProxyLookup.__get__ --------------------------------------------------------------
    pl = repo.cls(f"{LOCAL}._ProxyLookup")
    get = pl.methods["__get__"]
    gu = flow.unit_of(get)
    gcfg = gu.cfg
    inst_p = [x.arg for x in get.node.args.posonlyargs + get.node.args.args][1]
    calls = [c_ for c_ in gu.walk() if isinstance(c_, ast.Call) and isinstance(c_.func, ast.Attribute) and c_.func.attr == "_get_current_object" and astq.is_name(c_.func.value, inst_p)]
    pinit = pl.methods.get("__init__")
    if pinit is None:
        raise AnalysisError("_ProxyLookup.__init__ missing")
    fb_attrs = sorted({nm for nm, v, _ in _slot_stores(flow.unit_of(pinit)) if astq.is_name(v, "fallback")})
    ctx.ob("R18.4", "_ProxyLookup.__init__ keeps the declared fallback", len(fb_attrs) == 1 and "fallback" in flow.unit_of(pinit).fi.params, f"stored as {fb_attrs}", pinit, pinit.node, "fallback stored")
    fb_attr = fb_attrs[0] if fb_attrs else "fallback"

    def is_fb(e: ast.AST) -> bool:
        return isinstance(e, ast.Attribute) and flow.self_ref(e.value, gu) and e.attr == fb_attr

    for c_ in calls:
        cn = gcfg.node_of(c_)
        if cn is None:
            continue
        hs = [s for s, l in cn.succs if l == "exc" and isinstance(s.ast, ast.ExceptHandler)]
        catching = [h for h in hs if handler_catches(h.ast, "RuntimeError")]  # type: ignore[arg-type]
        ctx.ob("R18.4", "_ProxyLookup.__get__ catches the RuntimeError of an unbound proxy", bool(catching), f"handlers around `{norm(c_)}`: {[h.text() for h in hs] or 'none'}", get, c_, "__get__ catches unbound")
        if not catching:
            continue
        h = catching[0]
        region = gcfg.reach(h)
        ftests = [(t_, _none_test(t_, is_fb)) for t_ in gcfg.tests() if t_.id in region]
        ftests = [(t_, l) for t_, l in ftests if l is not None]
        if not ftests:
            ctx.ob("R18.4", "_ProxyLookup.__get__ re-raises when no fallback is declared", False, f"no `self.{fb_attr} is None` test in the handler", get, h.ast, "__get__ fallback test")
            continue
        t0, l0 = ftests[0]
        ok, fact = _only_raises(gcfg, gcfg.succ(t0, l0), {None, "RuntimeError"})
        ctx.ob("R18.4", "_ProxyLookup.__get__ re-raises when no fallback is declared", ok, f"`{t0.text()}` true: {fact}", get, t0.ast, "__get__ re-raises without fallback")
        # with a fallback: returns, and what it returns comes from the fallback
        other_starts = gcfg.succ(t0, _other(l0))
        r2 = gcfg.reach(other_starts)
        raises = [n for n in gcfg.nodes if n.id in r2 and isinstance(n.ast, ast.Raise)]
        rets = [n for n in gcfg.nodes if n.id in r2 and isinstance(n.ast, ast.Return)]

        def from_fb(e: ast.AST | None, depth: int = 0) -> bool:
            if e is None or depth > 10:
                return False
            if is_fb(e):
                return True
            if isinstance(e, ast.IfExp):
                return from_fb(e.body, depth + 1) and from_fb(e.orelse, depth + 1)
            if isinstance(e, ast.Call):
                return from_fb(e.func, depth + 1) or any(from_fb(a_, depth + 1) for a_ in e.args)
            if isinstance(e, ast.Attribute):
                return from_fb(e.value, depth + 1)
            if isinstance(e, ast.Name):
                node = gcfg.node_of(e)
                defs = gu.rd.reaching(node, e.id) if node is not None else frozenset()
                return bool(defs) and all(d.kind in ("assign", "walrus") and d.index is None and from_fb(d.value, depth + 1) for d in defs)
            return False

        ok2 = bool(rets) and not raises and gcfg.raise_exit.id not in r2 and all(from_fb(n.ast.value) for n in rets)  # type: ignore[union-attr]
        ctx.ob("R18.4", "_ProxyLookup.__get__ answers from the fallback when one is declared", ok2,
               f"{len(rets)} return(s) in the handler: {[norm(n.ast) for n in rets]}; raises: {[norm(n.ast) for n in raises]}", get, t0.ast, "__get__ uses fallback")

    # --- declared fallbacks -----------------------------------------------------------------------
    fallbacks: dict[str, ast.AST | None] = {}
    for name, v in lp.attrs.items():
        if isinstance(v, ast.Call) and (repo.resolve(mod, dotted(v.func) or "?") or "").startswith(f"werkzeug.{LOCAL}._Proxy"):
            fallbacks[name] = astq.arg_or_kw(v, 1, "fallback")
    with_fb = {k for k, v in fallbacks.items() if v is not None and not astq.is_none(v)}

    def fb_function(e: ast.AST | None) -> tuple[list[str], list[ast.AST]] | None:
        """(parameter names, returned expressions) of a fallback given as lambda or module function."""
        if isinstance(e, ast.Lambda):
            return [x.arg for x in e.args.posonlyargs + e.args.args], [e.body]
        if isinstance(e, ast.Name) and e.id in mod.functions:
            fi = mod.functions[e.id]
            return [x.arg for x in fi.node.args.posonlyargs + fi.node.args.args], [r.value for r in astq.returns_of(fi.node)]
        return None

    for special in ("__bool__", "__repr__"):
        if special not in fallbacks:
            raise AnalysisError(f"LocalProxy.{special} is not a _ProxyLookup")
    fb = fallbacks["__bool__"]
    ff = fb_function(fb)
    ok = ff is not None and bool(ff[1]) and all(isinstance(r, ast.Constant) and r.value is False for r in ff[1])
    ctx.ob("R18.4", "an unbound proxy is falsy", ok, f"__bool__ fallback: `{norm(fb) if fb is not None else None}`", lp.fq, lp.attrs["__bool__"], "__bool__ fallback")
    fb = fallbacks["__repr__"]
    ff = fb_function(fb)
    if ff is None:
        ctx.ob("R18.4", "an unbound proxy has a repr of its own", False, f"__repr__ fallback: `{norm(fb) if fb is not None else None}`", lp.fq, lp.attrs["__repr__"], "__repr__ fallback")
    else:
        params, rets = ff
        me = params[0] if params else None
        touches = []
        for r in rets:
            for n in ast.walk(r) if r is not None else []:
                if isinstance(n, ast.Name) and n.id == me:
                    par = astq.parent(n)
                    if isinstance(par, ast.Call) and any(x is n for x in par.args) and dotted(par.func) in ("type", "id", "object.__repr__"):
                        continue
                    if isinstance(par, ast.Attribute) and (par.attr in with_fb or par.attr.startswith("_LocalProxy__")):
                        continue
                    touches.append(norm(par) if par is not None else n.id)
        ctx.ob("R18.4", "an unbound proxy has a repr that does not go through the bound object", bool(rets) and not touches,
               f"__repr__ fallback `{norm(fb)}`" + (f" uses {touches}: resolved through the (unbound) proxy" if touches else " uses only type(self) / attributes that have a fallback"), lp.fq, lp.attrs["__repr__"], "__repr__ fallback")


# ---------------------------------------------------------------------------
# R18.5


MUTABLE_CTORS = {"dict", "list", "set", "defaultdict", "OrderedDict", "deque", "WeakKeyDictionary", "WeakValueDictionary", "WeakSet", "Counter", "ChainMap", "bytearray"}


def _mutable_container(e: ast.AST | None) -> bool:
    if isinstance(e, (ast.List, ast.Dict, ast.Set, ast.ListComp, ast.DictComp, ast.SetComp)):
        return True
    if isinstance(e, ast.Call):
        f = e.func.value if isinstance(e.func, ast.Subscript) else e.func
        return (dotted(f) or "").rsplit(".", 1)[-1] in MUTABLE_CTORS
    return False


def _r5(ctx: Ctx, flow: Flow, storage) -> None:
    repo = ctx.repo
    mod = flow.module
    for cname, (c, slots) in sorted(storage.items()):
        sl = c.attrs.get("__slots__")
        declared: set[str] | None = None
        if isinstance(sl, (ast.Tuple, ast.List)) and all(astq.const_str(e) is not None for e in sl.elts):
            declared = {mangle(c.name, astq.const_str(e) or "") for e in sl.elts}
        elif sl is not None and astq.const_str(sl) is not None:
            declared = {mangle(c.name, astq.const_str(sl) or "")}
        ctx.ob("R18.5", f"{cname} instances hold nothing but the ContextVar", declared is not None and declared == slots,
               f"__slots__ = {sorted(declared) if declared is not None else 'absent (instances get a __dict__)'}; ContextVar slot(s) {sorted(slots)}", c.fq, sl if sl is not None else c.node, f"{cname} slots")
        bases = repo.bases(c)
        okb = all(getattr(b, "fq", "") in ("typing.Generic",) for b in bases)
        ctx.ob("R18.5", f"{cname} inherits no instance dictionary", okb, f"bases: {[getattr(b, 'fq', '?') for b in bases] or 'none (typing.Generic excepted)'}", c.fq, c.node, f"{cname} bases")
        for an, av in sorted(c.attrs.items()):
            if an == "__slots__":
                continue
            ctx.ob("R18.5", f"{cname}.{an} is not a class-level container shared by all contexts", not _mutable_container(av), f"`{an} = {norm(av)}`", c.fq, av, f"{cname} class attribute {an}")
        # the ContextVar is bound in __init__ only
        n_bind = 0
        for u in flow.units:
            for nm, _, node in _slot_stores(u):
                if nm in slots and u.cls is c:
                    n_bind += 1
                    ctx.ob("R18.5", f"{cname}: the ContextVar slot is bound only by the constructor", u.fi.name == "__init__" and u.outer is None,
                           f"`{norm(node)}` in {u.fi.qualname}" + ("" if u.fi.name == "__init__" else ": a new ContextVar detaches every context's data"), u.fi, node, f"{cname} binds slot in {u.fi.qualname}")
        if not n_bind:
            raise AnalysisError(f"{cname}: store of the ContextVar slot not found")
    # module level
    bad = []
    for name, vals in mod.assigns.items():
        for v in vals:
            if _mutable_container(v):
                bad.append(f"{name} = {norm(v)}")
    ctx.ob("R18.5", "werkzeug.local keeps no mutable module-level container", not bad, f"module-level bindings: {sorted(mod.assigns)}" if not bad else f"{bad}", mod.name, None, "module-level containers")
    globs = [norm(n) for n in ast.walk(mod.tree) if isinstance(n, ast.Global)]
    ctx.ob("R18.5", "no function of werkzeug.local rebinds a module-level name", not globs, "no `global` statement" if not globs else f"{globs}", mod.name, None, "global statements")
