"""C07 - no client-controlled header or query text can crash request parsing (exception-effect analysis)."""

from __future__ import annotations

import ast
import typing as t

from .. import astq
from ..cfg import cfg_of
from ..effects import INF, MODEL_DOC, PS, ZERO, Effects, Flow, Site, codec_call, const_int, const_text
from ..fold import Folder
from ..loader import AnalysisError, ClassInfo, FuncInfo, dotted, norm, walk_no_nested
from ..report import Ctx
from .c07_reviewed import A, p_form_parser_silent, review

LEVEL_TEXT = (
    "Static exception-effect analysis for C07 on /repo's current source. Entry points are enumerated from the source: the "
    "15 parse_* functions of werkzeug.http, Authorization/WWWAuthenticate.from_header, and every property, cached_property, "
    "header_property and environ_property of sansio.Request and wrappers.Request. (R7.1) Over the resolved call graph from "
    "these entry points (incl. self.<property>.<method>() on the class the property's getter constructs and the "
    "io.RawIOBase read -> readall/readinto dispatch), every explicit raise and every modelled failing operation of "
    "builtins/stdlib (int/float of a str, strict decode/encode in method or constructor spelling, base64, urlsplit/.port, parsedate_to_datetime, timedelta, "
    "next, index, split-unpack, constant index, Optional match, assert, Enum(value), to_bytes, and read(n)/bytearray(n)/"
    "bytes(n) whose size provably flows unbounded from a text->int conversion of client text, and the operations that move a "
    "datetime out of datetime.min..max - astimezone / utctimetuple, + / - a timedelta (also as +=), replace() of a date field, "
    "timestamp() of a value not provably timezone-aware - where the receiver provably may hold a datetime that a parser built "
    "from client text (parsedate_to_datetime, strptime, fromisoformat, fromtimestamp; followed through local names, "
    "conditional expressions, replace / astimezone results, package helpers' returns, parameter binding at every reachable "
    "call site, and self.<property / cached_property / header_property>)) either raises a werkzeug "
    "HTTPException, or is covered by an enclosing handler on every call path (real exception lattice), or by a guard idiom, "
    "or by a reviewed role. Guard idioms and roles do not match source text: the operand is identified by data flow "
    "(reaching definitions, tuple/list/dict projections, regex group widths, parameter binding to the call sites on the "
    "escaping chain, return values of package helpers; an int - e.g. the upper bound of a slice - as a union of exact "
    "sentinels and lower bounds (find: -1 or >= 0; a helper returning -1 / None / an index), the sentinel removed by a "
    "dominating != / >= / < / is not None / truthiness test, with the path-wise facts below as a second opinion for a "
    "value unpacked from a helper's result) and the dominating conditions are compared as canonical atoms with "
    "local aliases / boolean flags expanded and a freshness check (no rebinding of a tested name between test and use), "
    "including tests in the caller of a helper and the conditions of enclosing conditional expressions. A reviewed role "
    "(input-model latin-1 text, application flag, abstract method, application's own value, Accept pair, fallback search, "
    "regex-matched number, octal escape, ASCII bytes, range constructor, validated constructor) re-establishes its premise "
    "on every run on the code as it is shaped now; a premise anchor of an unknown shape is ANALYSIS-ERROR, a false premise "
    "a violation. The form parser's silent-mode premise reads what make_form_data_parser (or a private method it calls) "
    "hands to FormDataParser(silent=...): keyword, position, or a key of a `**mapping` whose keys are folded (dict display "
    "/ comprehension / dict(zip()) / fromkeys / update / item stores keyed by a loop over a constant tuple of names / a "
    "helper that returns the mapping); keys that do not fold are ANALYSIS-ERROR. The range-constructor premise is decided per element: every place that can put an element into the list "
    "handed to the validating constructor (literal, comprehension, append / insert / extend / += / item assignment, alias, "
    "copy, a helper that returns or fills the list) is found by role; for each, all acyclic paths to it are enumerated with "
    "path-wise must-facts (nullness, int-ness, difference bounds x - y <= c closed under transitivity, tuple components, "
    "boolean flags, summaries of package helpers related to their arguments, loop heads forgetting what the loop assigns "
    "except monotone changes and inductive bounds), and the constructor's validation loop is replayed under those facts: "
    "the raise must be unreachable. A new risky site is reported until reviewed (fail-closed). (R7.2) every while loop "
    "reachable from an "
    "entry point makes progress on every path through its body, decided on the same path-wise facts: back at the head "
    "an assigned int has strictly grown (or fallen), or an assigned text is strictly shorter (slice with a lower bound "
    ">= 1, partition / split / removeprefix that removed a separator or a non-empty match, match.end() / span() / the length "
    "of the whole match of a pattern that cannot match empty at that position, find / index from a position >= 0), wherever "
    "the loop lives (also in a generator helper, with yields between the statements), or a reviewed progress maker identified by what it calls was asked for more "
    "(MultipartDecoder.next_event; a read from the request stream) - and between two requests to such a maker the loop is "
    "left when it is exhausted (the event is NEED_DATA; the read is "
    "empty). (R7.3) the lenient decoders named by the property keep their fallbacks. Not decided: operations outside "
    "the model (variable-key mapping lookups, attribute errors other than Optional regex matches, sizes whose origin is "
    "not provably a parsed client integer; a parsed datetime that reaches an operation through a container, unpacking of a call's result "
    "or an attribute of another object such as IfRange.date; TypeError from mixing naive and aware datetimes; application-"
    "supplied datetimes or date strings, e.g. last_modified of is_resource_modified), termination of library regex "
    "engines, resource exhaustion in general."
)
TRUSTED = [
    "CPython ast and the builtin exception class hierarchy",
    "the library model table (wzsa/effects.py MODEL_DOC), each entry a documented fact about CPython 3.12",
    "name resolution of calls by the loader (unresolved dynamic calls are listed in the evidence)",
    "fixed-arity tuple annotations of parameters (tuple[str, int | None]) for server / application supplied values",
]
ASSUMPTIONS = [
    "input model: client-controlled values are latin-1 str without control characters; server-controlled environ keys (wsgi.*, SERVER_NAME/PORT, SCRIPT_NAME, REQUEST_METHOD) are present and well-formed",
    "application-supplied callables (type= converters, cls= factories, user_agent_class) are outside the claim",
    "RecursionError / MemoryError are out of model, except the size kind above",
    "containers are followed by their local name: aliasing of a list / dict under a second name inside one function is not tracked (the list handed to the range constructor is followed through plain aliases, copies and helpers)",
    "R7.2: a cursor that strictly moves in one direction and a text sliced from a lower bound >= 1 count as progress (termination then needs the loop's own bound test, which is not checked)",
]

PARSERS = [
    "parse_options_header", "parse_list_header", "parse_dict_header", "parse_set_header", "parse_accept_header",
    "parse_cache_control_header", "parse_csp_header", "parse_etags", "parse_range_header", "parse_content_range_header",
    "parse_if_range_header", "parse_date", "parse_age", "parse_cookie",
]


def entry_points(ctx: Ctx, eff: Effects) -> list[tuple[str, list[FuncInfo], FuncInfo | str, ast.AST | None]]:
    """(label, functions run, where, node)"""
    repo = ctx.repo
    out = []
    for p in PARSERS:
        f = repo.func(f"http.{p}")
        out.append((f"http.{p}", [f], f, f.node))
    out.append(("sansio.http.parse_cookie", [repo.func("sansio.http.parse_cookie")], repo.func("sansio.http.parse_cookie"), None))
    for cn in ("Authorization", "WWWAuthenticate"):
        f = repo.func(f"datastructures.auth.{cn}.from_header")
        out.append((f"{cn}.from_header", [f], f, f.node))
    # the Accept classes' membership / best_match (named by the property)
    for cn in ("Accept", "MIMEAccept", "LanguageAccept", "CharsetAccept"):
        c = repo.cls(f"datastructures.accept.{cn}")
        for mn in ("best_match", "__contains__", "quality", "find", "__getitem__", "best"):
            o, w = repo.lookup(c, mn)
            if isinstance(w, FuncInfo):
                out.append((f"{cn}.{mn}", [w], w, w.node))
    for cfq in ("sansio.request.Request", "wrappers.request.Request"):
        c = repo.cls(cfq)
        seen = set()
        for k in repo.mro(c):
            if not isinstance(k, ClassInfo) or not k.fq.startswith("werkzeug."):
                continue
            for name, fi in k.methods.items():
                if "." in name or name in seen:
                    continue
                if any(d.rsplit(".", 1)[-1] in ("property", "cached_property") for d in fi.decorators):
                    o, w = repo.lookup(c, name)
                    if w is fi:
                        seen.add(name)
                        out.append((f"{c.name}({c.module.name.rsplit('.', 2)[-2]}).{name}", [fi], fi, fi.node))
            for name, v in k.attrs.items():
                if name in seen or not isinstance(v, ast.Call):
                    continue
                f = v.func.value if isinstance(v.func, ast.Subscript) else v.func
                dn = (dotted(f) or "").rsplit(".", 1)[-1]
                if dn in ("header_property", "environ_property"):
                    o, w = repo.lookup(c, name)
                    if w is v:
                        seen.add(name)
                        getter = repo.func("_internal._DictAccessorProperty.__get__")
                        out.append((f"{c.name}({c.module.name.rsplit('.', 2)[-2]}).{name}", [getter] + eff.descriptor_funcs(k, v), k.fq, v))
    return out


def run(ctx: Ctx) -> None:
    repo = ctx.repo
    ctx.rule("R7.1", "no exception outside werkzeug's HTTPException family escapes an entry point: every raising site reachable from it is covered by a handler on the path, a dominating guard idiom, or a reviewed role whose premise is re-established on the current code")
    ctx.rule("R7.2", "every while loop reachable from an entry point makes progress on every path through its body")
    ctx.rule("R7.3", "the lenient decoders keep their fallbacks: (ValueError, TypeError) around conversions in _DictAccessorProperty.__get__ and TypeConversionDict.get; errors='werkzeug.url_quote' on both parse_qsl calls with that handler registered; _wsgi_decoding_dance decodes with errors='replace'")

    # registered codec error handlers
    registered = set()
    for m in repo.modules.values():
        for c in astq.calls(m.tree):
            if dotted(c.func) in ("codecs.register_error",) and c.args and astq.const_str(c.args[0]):
                registered.add(astq.const_str(c.args[0]))
    eff = Effects(repo, registered)
    folder = Folder(repo)
    ok_silent, dead_raises, why_silent = p_form_parser_silent(ctx, folder)
    ctx.ob("R7.1", "form parsing on the request path runs in silent mode (its ValueError handler does not re-raise)", ok_silent, why_silent, repo.func("formparser.FormDataParser.parse"), None, "form parser silent mode")
    if ok_silent:
        eff.dead_reraises |= {id(x) for x in dead_raises}
    entries = entry_points(ctx, eff)
    ctx.floor("R7.1", "entry points", len(entries), 68)
    roots = []
    for _, fs, _, _ in entries:
        for f in fs:
            if f not in roots:
                roots.append(f)
    eff.reachable(roots)
    flow = Flow(eff, folder, {f.fq for f in roots})

    def size_hook(fi, call, size) -> bool:
        flow.site_ast = call
        try:
            return flow.unbounded_client_int(fi, size, flow.node(fi, call))
        finally:
            flow.site_ast = None

    eff.size_hook = size_hook

    def dt_hook(fi, op, recv) -> tuple[bool, bool]:
        node = flow.node(fi, op)
        if node is None:
            return False, False
        if isinstance(recv, ast.BinOp):
            return flow.client_dt_arith(fi, recv, node), False
        return flow.client_datetime(fi, recv, node), flow.aware_datetime(fi, recv, node)

    eff.dt_hook = dt_hook
    esc = eff.escapes(roots)
    for f in eff.reach.values():
        ctx.saw(f)
    an = A(ctx, eff, folder, flow)

    # one obligation per (origin site, exception) that is not an allowed HTTPException and that escapes at least one entry point
    origins: dict[tuple[str, str, str], tuple[Site, str, list[str]]] = {}
    for label, fs, where, node in entries:
        escaping = set()
        for f in fs:
            escaping |= esc[f.fq]
        # descriptor entry: the conversion runs inside __get__'s (ValueError, TypeError) handler
        if len(fs) > 1:
            getter = fs[0]
            conv_call = [c for c in astq.calls(getter.node) if isinstance(c.func, ast.Attribute) and c.func.attr == "load_func"]
            filtered = set(esc[getter.fq])
            for f in fs[1:]:
                for s, e in esc[f.fq]:
                    if conv_call and eff.uncaught(getter, conv_call[0], e):
                        filtered.add((s, e))
            escaping = filtered
        for s, e in escaping:
            if eff.lat.allowed(e):
                continue
            key = (s.func.fq, s.text, e)
            if key not in origins:
                origins[key] = (s, e, [])
            origins[key][2].append(label)

    n_rev = n_guard = 0
    for key in sorted(origins):
        s, e, labels = origins[key]
        flow.cur = (s, e)
        flow.site_ast = s.node
        try:
            how = _guard_idiom(an, s, e)
            if how:
                n_guard += 1
                ctx.ob("R7.1", f"{s.func.qualname}: `{s.text}` may raise {e}", True, f"discharged by guard idiom: {how}", s.func, s.node, f"{s.text} raises {e}")
                continue
            rv = review(an, s, e)
        finally:
            flow.cur = None
            flow.site_ast = None
        if rv is not None:
            role, ok, reason = rv
            n_rev += 1
            ctx.ob("R7.1", f"{s.func.qualname}: `{s.text}` may raise {e}", ok, (f"reviewed role '{role}': " if ok else f"reviewed role '{role}': premise does not hold: ") + reason, s.func, s.node, f"{s.text} raises {e}")
            continue
        root = next((fs[0] for lab, fs, _, _ in entries if lab == labels[0]), None)
        chain = " -> ".join(x.replace("werkzeug.", "") for x in (eff.chain(root, s, e) if root is not None else []))
        doc = MODEL_DOC.get(s.kind, "explicit raise")
        ctx.ob(
            "R7.1", f"{s.func.qualname}: `{s.text}` may raise {e}", False,
            f"{e} escapes {len(labels)} entry point(s) (e.g. {', '.join(sorted(set(labels))[:4])}) uncaught; chain: {chain}; model: {doc}",
            s.func, s.node, f"{s.text} raises {e}",
        )
    ctx.extra["c07"] = {
        "entry_points": len(entries), "functions_reachable": len(eff.reach),
        "raising_sites_modelled": sum(len(eff.sites(f)) for f in eff.reach.values()),
        "origins_escaping_some_entry": len(origins), "by_guard_idiom": n_guard, "by_reviewed_role": n_rev,
        "unresolved_calls": {k: v for k, v in eff.unresolved.items() if v and k in eff.reach},
    }
    _r72(an)
    _r73(ctx, eff, folder, registered)


# ---------------------------------------------------------------------
# guard idioms: canonical atoms that dominate the use (fresh: no rebinding in between), value origins across helpers


def _guard_idiom(an: A, s: Site, e: str) -> str | None:
    fi = s.func
    flow = an.flow
    node = flow.node(fi, s.node)
    if node is None:
        return None
    if s.kind == "match-attr":
        nm = s.node.value.id  # type: ignore[attr-defined]
        at = flow.holds(fi, node, lambda at: (at.op == "truthy" and at.truth and norm(at.a) == nm) or (at.op == "is" and not at.truth and norm(at.a) == nm and astq.is_none(at.b)))
        if at is not None:
            return f"`{norm(at.test.ast)}` is {at.label} on every path to the use and `{nm}` is not rebound in between"
        return None
    if s.kind == "unpack-split":
        call = s.node.value  # type: ignore[attr-defined]
        k = len(s.node.targets[0].elts)  # type: ignore[attr-defined]
        sep = const_text(call.args[0]) if call.args else None
        mx = const_int(astq.arg_or_kw(call, 1, "maxsplit"))
        if sep and k == 2 and mx == 1:
            if sep in flow.contained(fi, call.func.value, node):
                return f"`{sep!r} in {norm(call.func.value)}` is established on every path to the unpacking (dominating test, or at every call site for a parameter)"
        return None
    if s.kind == "index" and isinstance(s.node, ast.Call) and len(s.node.args) == 1 and not s.node.keywords:
        c = const_text(s.node.args[0])
        recv = s.node.func.value  # type: ignore[attr-defined]
        if c and c in flow.contained(fi, recv, node):
            return f"`{c!r} in {norm(recv)}` is established on every path to the search (dominating test in any spelling, or at every call site for a parameter): it cannot fail"
        return None
    if s.kind == "const-index":
        sub = s.node
        val = const_int(sub.slice)  # type: ignore[attr-defined]
        if val is None:
            return None
        need = val + 1 if val >= 0 else -val
        got = flow.minlen(fi, sub.value, node)  # type: ignore[attr-defined]
        if got >= need:
            return f"`{norm(sub.value)}` has at least {got if got < INF else 'any number of'} element(s) on every path (value origins: tuple / split / regex group widths, dominating tests, call sites): index {val} exists"  # type: ignore[attr-defined]
        return None
    return None


# ---------------------------------------------------------------------
# R7.2 loop progress


NEXT_EVENT = "werkzeug.sansio.multipart.MultipartDecoder.next_event"


def _r72(an: A) -> None:
    ctx = an.ctx
    n = 0
    for f in an.eff.reach.values():
        for w in walk_no_nested(f.node):
            if not isinstance(w, ast.While):
                continue
            n += 1
            ok, why = _progress(an, f, w)
            ctx.ob("R7.2", f"{f.qualname}: `while {norm(w.test)[:40]}` makes progress", ok, why, f, w, f"while {norm(w.test)[:60]}")
    ctx.floor("R7.2", "while loops reachable from entry points", n, 1)


def _maker_kind(an: A, f: FuncInfo, c: ast.Call) -> str | None:
    """reviewed progress makers, identified by what is called: MultipartDecoder.next_event / a read from the request stream."""
    if any(g.fq == NEXT_EVENT for g in an.flow.resolve_callee(f, c)):
        return "event"
    fn = c.func
    if (isinstance(fn, ast.Attribute) and fn.attr == "read") or (isinstance(fn, ast.Name) and fn.id in f.params and _bound_to_read(an, f, fn.id)):
        return "read"
    return None


def _not_need_data(an: A, f: FuncInfo, st: PS, var: str) -> str | None:
    """the path has seen `isinstance(<var>, <types incl. NeedData>)` false (and var was not rebound since)."""
    li = f.module.local_imports(f.node)
    for key, (truth, names) in st.gen.items():
        if truth or var not in names:
            continue
        try:
            t_ = ast.parse(key, mode="eval").body
        except SyntaxError:
            continue
        if not (isinstance(t_, ast.Call) and dotted(t_.func) == "isinstance" and len(t_.args) == 2 and isinstance(t_.args[0], ast.Name) and t_.args[0].id == var):
            continue
        types = t_.args[1].elts if isinstance(t_.args[1], ast.Tuple) else [t_.args[1]]
        if any((an.repo.resolve(f.module, dotted(x) or "?", li) or "").endswith(".NeedData") for x in types):
            return key
    return None


def _progress(an: A, f: FuncInfo, w: ast.While) -> tuple[bool, str]:
    """every iteration either strictly advances a measure (an int cursor that only moves one way, a text that gets
    shorter) or asks a reviewed progress maker for more - and between two such requests the loop is left when the maker
    is exhausted.  Decided on the facts of every path through the body (wzsa/effects.py PathSim), not on statement shapes."""
    sim = an.sim
    sim.steps = 0
    cfg = cfg_of(f)
    heads = [h for h in cfg.by_ast.get(id(w)) or [] if h.kind == "join"]
    if not heads:
        return False, "no CFG node"
    head = heads[0]
    region = sim.loop_region(f, head)
    makers: dict[int, tuple[str, ast.Call, t.Any]] = {}
    for n_ in cfg.nodes:
        if n_.id not in region or n_.ast is None or n_.kind not in ("stmt", "test"):
            continue
        for c in [x for x in [n_.ast, *walk_no_nested(n_.ast)] if isinstance(x, ast.Call)]:
            k = _maker_kind(an, f, c)
            if k is not None and cfg.node_of(c) is n_:
                makers[id(c)] = (k, c, n_)
    sim.call_tag = lambda fi, c: (f"{makers[id(c)][0]}:{id(c)}" if id(c) in makers else None)
    try:
        pre: dict[tuple, PS] = {}
        sim.walk(f, [head], lambda n, st: pre.setdefault(st.key(), st), stop_at_goal=True)
        assigned = sorted(sim.loop_assigned(f).get(head.id, ()))
        how: dict[str, int] = {}
        ncyc = 0
        for P in pre.values():
            for A_ in sim.cycles(f, head, P):
                ncyc += 1
                got = None
                for v in assigned:
                    h = v + "@h"
                    if A_.entails(h, v, 0, True):
                        got = f"`{v}` grows"
                    elif A_.entails(v, h, 0, True):
                        got = f"`{v}` falls"
                    elif f"len({v})" in A_.deps and f"len({h})" in A_.deps and A_.entails(f"len({v})", f"len({h})", 0, True):
                        got = f"`{v}` gets shorter"
                    if got:
                        break
                if got is None:
                    hit = [tg for tg in A_.tags if int(tg.split(":")[1]) in makers]
                    if hit:
                        got = f"asks `{norm(makers[int(hit[0].split(':')[1])][1])[:40]}` for more"
                if got is None:
                    known = "; ".join(f"{v}: {A_.describe([v, v + '@h'])}" for v in assigned[:6])
                    return False, f"an iteration can return to the loop head without progress: no assigned name ({', '.join(assigned) or 'none'}) is known to have moved and no progress maker was asked [{known[:400]}]"
                how[got] = how.get(got, 0) + 1
        facts = [f"{k} ({v} path(s))" for k, v in sorted(how.items())]
        # between two requests to a progress maker the loop is left when the maker is exhausted
        reviewed = []
        for cid, (kind, call, node) in makers.items():
            tag = f"{kind}:{cid}"
            arr: list[PS] = []
            sim.walk(f, [m[2] for m in makers.values()], lambda n, st: arr.append(st), init=PS(), starts=[node], within=region, no_havoc=[head.id], stop_at_goal=True, first_free=True)
            why = None
            for A_ in arr:
                holders = [v for v, tg in A_.org.items() if tg == tag and not v.startswith("$")]
                if kind == "read":
                    okv = [v for v in holders if A_.truth.get(v) is True or (f"len({v})" in A_.deps and A_.entails(ZERO, f"len({v})", -1))]
                    if not okv:
                        return False, f"after `{norm(call)[:40]}` the loop can read again without having left on an empty read (result held by {holders or 'nothing'})"
                    why = f"`{norm(call)}` (reviewed: each iteration reads from the request stream, which is finite (C09 bounds it); the loop is left when the read is empty: the next read is reached only with `{okv[0]}` non-empty)"
                else:
                    keys = [k for k in (_not_need_data(an, f, A_, v) for v in holders) if k]
                    if not keys:
                        return False, f"after `{norm(call)[:40]}` the loop can ask for the next event without having left on NEED_DATA (event held by {holders or 'nothing'})"
                    okp, whyp = _next_event_premise(an)
                    if not okp:
                        return False, f"`{norm(call)[:40]}`: {whyp}"
                    why = f"`{norm(call)}` (reviewed: every event other than NEED_DATA comes with a buffer deletion or a state change, so a bounded buffer yields finitely many events; the next event is asked for only after `{keys[0]}` was false) [{whyp}]"
            if why:
                reviewed.append(why)
        if not ncyc:
            return True, "loop body always leaves the loop"
        return True, f"every iteration ({ncyc} path(s) back to the head) makes progress: {facts}" + (f"; {reviewed}" if reviewed else "")
    finally:
        sim.call_tag = None


def _next_event_premise(an: A) -> tuple[bool, str]:
    f = an.repo.func("sansio.multipart.MultipartDecoder.next_event")
    cfg = cfg_of(f)
    sn = f.params[0]
    rets = astq.returns_of(f.node)
    names = {r.value.id for r in rets if isinstance(r.value, ast.Name)}
    if len(names) != 1 or len(names) != len({norm(r.value) for r in rets if r.value is not None}):
        raise AnalysisError("C07 next_event: the returned event is not a single local name")
    ev = names.pop()
    prog = [n for n in cfg.nodes if (isinstance(n.ast, ast.Delete) and any(isinstance(t_, ast.Subscript) and astq.is_self_attr(t_.value, "buffer", sn) for t_ in n.ast.targets)) or (isinstance(n.ast, ast.Assign) and any(astq.is_self_attr(t_, "state", sn) for t_ in n.ast.targets))]
    facts = []
    ok = True
    nev = 0
    for n in cfg.nodes:
        for d in an.flow.rd(f).gen.get(n.id, []):
            if d.name != ev:
                continue
            if d.kind == "assign" and d.index is None and isinstance(d.value, ast.Name):
                continue  # the NEED_DATA default
            if not (d.kind == "assign" and d.index is None and isinstance(d.value, ast.Call)):
                raise AnalysisError(f"C07 next_event: `{norm(d.stmt)[:50]}` binds the event in a shape that is not understood")
            nev += 1
            good = cfg.all_paths_pass(cfg.entry, [n], prog) or cfg.all_paths_pass(n, [cfg.exit], prog)
            facts.append(f"{norm(d.value.func)}: {good}")
            ok = ok and good
    if not nev:
        raise AnalysisError("C07 next_event: no event construction found")
    return ok, "event construction accompanied by a buffer deletion / state change on every path: " + ", ".join(facts)


def _bound_to_read(an: A, f: FuncInfo, pname: str) -> bool:
    """a callable parameter that every call site on the request path binds to <stream>.read."""
    cal = an.flow.callers(f)
    if not cal:
        return False
    for g, n, kind in cal:
        b = an.flow.bind(f, n, pname) if kind == "call" else None
        if b is None or b[0] != "arg" or not (isinstance(b[1], ast.Attribute) and b[1].attr == "read"):
            return False
    return True


# ---------------------------------------------------------------------
# R7.3


def _conversion_calls(f: FuncInfo, kind: str, name: str) -> list[ast.Call]:
    """the calls of the converter: `self.<name>(...)` / `<parameter name>(...)`, directly or through a local alias."""
    sn = f.params[0] if f.params else "self"

    def is_src(e: ast.AST | None) -> bool:
        if kind == "attr":
            return e is not None and astq.is_self_attr(e, name, sn)
        return isinstance(e, ast.Name) and e.id == name and name in f.params and not astq.assigns_to(f.node, name)

    out = []
    for c in astq.calls(f.node, nested=False):
        fn = c.func
        if is_src(fn):
            out.append(c)
        elif isinstance(fn, ast.Name) and not (kind == "param" and fn.id == name):
            vals = [v for _, v in astq.assigns_to(f.node, fn.id)]
            if vals and all(is_src(v) for v in vals):
                out.append(c)
    return out


def _r73(ctx: Ctx, eff: Effects, folder: Folder, registered: set[str]) -> None:
    repo = ctx.repo
    for fq, kind, name in (("_internal._DictAccessorProperty.__get__", "attr", "load_func"), ("datastructures.structures.TypeConversionDict.get", "param", "type")):
        f = repo.func(fq)
        cs = _conversion_calls(f, kind, name)
        if not cs:
            raise AnalysisError(f"C07 R7.3: no call of the converter `{name}` found in {f.qualname}")
        leaks = [f"{norm(c)[:40]} lets {x} escape" for c in cs for x in ("ValueError", "TypeError") if eff.uncaught(f, c, x)]
        ctx.ob("R7.3", f"{f.qualname} falls back on (ValueError, TypeError) from the conversion", not leaks, f"{len(cs)} call(s) of the converter `{name}`, each inside handler(s) that catch ValueError and TypeError without re-raising" if not leaks else "; ".join(leaks), f, f.node, f"{fq} conversion fallback")
    nq = 0
    for fq in ("sansio.request.Request.args", "formparser.FormDataParser._parse_urlencoded"):
        f = repo.func(fq)
        for c in astq.name_calls(f.node, "parse_qsl"):
            nq += 1
            e = astq.arg_or_kw(c, 4, "errors")
            val = astq.const_str(e) if e is not None else None
            if val is None and e is not None and dotted(e):
                try:
                    v = folder.name(f.module, dotted(e))
                    val = v if isinstance(v, str) else None
                except Exception:
                    val = None
            ok = val is not None and val in registered
            ctx.ob("R7.3", f"{f.qualname}: parse_qsl decodes with a registered lenient handler", ok, f"errors={norm(e) if e is not None else None}; registered handlers: {sorted(registered)}", f, c, f"{fq} parse_qsl errors")
    ctx.floor("R7.3", "parse_qsl calls", nq, 2)
    dd = repo.func("_internal._wsgi_decoding_dance")
    decs = [cc for cc in (codec_call(c) for c in astq.calls(dd.node)) if cc is not None and cc[0] == "decode"]
    if not decs:
        raise AnalysisError("C07 R7.3: no decoding operation found in _wsgi_decoding_dance")
    ok = all(cc[3] in eff.handlers_ok - {"ignore"} or cc[2] in ("latin1", "latin-1", "iso-8859-1") for cc in decs)
    ctx.ob("R7.3", "_wsgi_decoding_dance decodes with errors='replace'", ok, f"{[(norm(cc[1])[:40], cc[2], cc[3]) for cc in decs]}", dd, dd.node, "decoding dance lenient")
