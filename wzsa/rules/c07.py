"""C07 - no client-controlled header or query text can crash request parsing (exception-effect analysis)."""

from __future__ import annotations

import ast
import typing as t

from .. import astq
from ..cfg import cfg_of
from ..effects import _ASCII_CODECS, _ASCII_COMPATIBLE, _LATIN1_CODECS, INF, MODEL_DOC, PS, ZERO, Effects, Flow, Site, _arg, _opaque_args, codec_call, codec_parts, const_int, const_text
from ..fold import Folder
from ..loader import AnalysisError, ClassInfo, FuncInfo, dotted, norm, walk_no_nested
from ..report import Ctx
from .c07_reviewed import A, _kw_table, p_form_parser_silent, review

LEVEL_TEXT = (
    "Static exception-effect analysis for C07 on /repo's current source. Entry points are enumerated from the source: the "
    "15 parse_* functions of werkzeug.http, Authorization/WWWAuthenticate.from_header, and every property, cached_property, "
    "header_property and environ_property of sansio.Request and wrappers.Request. (R7.1) Over the resolved call graph from "
    "these entry points (incl. self.<property>.<method>() on the class the property's getter constructs and the "
    "io.RawIOBase read -> readall/readinto dispatch), every explicit raise and every modelled failing operation of "
    "builtins/stdlib (int/float of a str, strict decode/encode in method, unbound-method (bytes.decode(x, ..)), constructor or codecs.decode / encode spelling, codec names by their aliases, base64, urlsplit/.port, parsedate_to_datetime, timedelta, "
    "next, index, split-unpack, constant index, Optional match, assert, Enum(value), to_bytes, and read(n)/bytearray(n)/"
    "bytes(n) whose size provably flows unbounded from a text->int conversion of client text, and the operations that move a "
    "datetime out of datetime.min..max - astimezone / utctimetuple, + / - a timedelta (also as +=), replace() of a date field, "
    "timestamp() of a value not provably timezone-aware - where the receiver provably may hold a datetime that a parser built "
    "from client text (parsedate_to_datetime, strptime, fromisoformat, fromtimestamp; followed through local names, "
    "conditional expressions, replace / astimezone results, package helpers' returns, parameter binding at every reachable "
    "call site, and self.<property / cached_property / header_property>)) either raises a werkzeug "
    "HTTPException, or is covered by an enclosing handler on every call path (real exception lattice), or by a guard idiom, "
    "or by a reviewed role. Guard idioms and roles do not match source text: the operand is identified by data flow "
    "(reaching definitions, tuple/list/dict projections, regex group widths, parameter binding to the call sites on the "
    "escaping chain, return values of package helpers; an int - e.g. the upper bound of a slice - as a union of exact "
    "sentinels and lower bounds (find: -1 or >= 0; a helper returning -1 / None / an index), the sentinel removed by a "
    "dominating != / >= / < / is not None / truthiness test, with the path-wise facts below as a second opinion for a "
    "value unpacked from a helper's result) and the dominating conditions are compared as canonical atoms with "
    "local aliases / boolean flags expanded and a freshness check (no rebinding of a tested name between test and use), "
    "including tests in the caller of a helper and the conditions of enclosing conditional expressions. A strict encode to "
    "ascii / latin-1 (and a decode of the bytes from ascii / utf-8) is discharged where the text is ASCII-only on every path: "
    "a dominating test that means `is ASCII` (x.isascii() true, all(ord(c) < 128 for c in x), not any(ord(c) > 127 ..), a package "
    "predicate whose only statement returns such a test of its parameter, in either polarity), or the value's origin (an "
    "ASCII constant, the result of a strict ascii codec call, an ASCII-compatible codec call or an ASCII-preserving method "
    "of an ASCII value, a piece of one, a package helper's return value), through locals, comprehension variables and the "
    "argument at every call site; str.isdigit() / isdecimal() / isalnum() are not such tests (and no guard for int()). "
    "A size given as `a if a < b else b` counts as min(a, b). A reviewed role "
    "(input-model latin-1 text, application flag, abstract method, application's own value, Accept pair, fallback search, "
    "regex-matched number, octal escape, ASCII bytes, range constructor, validated constructor) re-establishes its premise "
    "on every run on the code as it is shaped now; a premise anchor of an unknown shape is ANALYSIS-ERROR, a false premise "
    "a violation. The form parser's silent-mode premise reads what make_form_data_parser (or a private method it calls) "
    "hands to FormDataParser(silent=...): keyword, position, or a key of a `**mapping` whose keys are folded (dict display "
    "/ comprehension / dict(zip()) / fromkeys / update / item stores keyed by a loop over a constant tuple of names / a "
    "helper that returns the mapping); keys that do not fold are ANALYSIS-ERROR. The range-constructor premise is decided per element: every place that can put an element into the list "
    "handed to the validating constructor (literal, comprehension, append / insert / extend / += / item assignment, alias, "
    "copy, a helper that returns or fills the list) is found by role; for each, all acyclic paths to it are enumerated with "
    "path-wise must-facts (nullness, int-ness, difference bounds x - y <= c closed under transitivity, tuple components, "
    "boolean flags, summaries of package helpers related to their arguments, loop heads forgetting what the loop assigns "
    "except monotone changes and inductive bounds), and the constructor's validation loop is replayed under those facts: "
    "the raise must be unreachable. A new risky site is reported until reviewed (fail-closed). (R7.2) every while loop "
    "reachable from an "
    "entry point makes progress on every path through its body, decided on the same path-wise facts: back at the head "
    "an assigned int has strictly grown (or fallen), or an assigned text is strictly shorter (slice with a lower bound "
    ">= 1, partition / split / removeprefix that removed a separator or a non-empty match, match.end() / span() / the length "
    "of the whole match of a pattern that cannot match empty at that position, find / index from a position >= 0), wherever "
    "the loop lives (also in a generator helper, with yields between the statements), or a reviewed progress maker identified by what it calls was asked for more "
    "(MultipartDecoder.next_event; a read from the request stream) - and between two requests to such a maker the loop is "
    "left when it is exhausted (the event is NEED_DATA; the read is "
    "empty). (R7.3) the lenient decoders named by the property keep their fallbacks; and for every operation that makes text "
    "from bytes or percent-escapes under an errors handler (bytes.decode / str(b, enc, errors) in any argument spelling, "
    "urllib.parse.unquote / unquote_plus / parse_qsl / parse_qs, codecs.decode) in a function reachable from the entry "
    "points or from the two Request constructors, the *value* of the handler that reaches it (constant, conditional "
    "expression, local through reaching definitions, module constant, parameter default and the arguments of every call "
    "site of a private function, self.<class attribute> over the class, its bases and subclasses and the stores into it, "
    "the elements of a tuple assignment, a key of a `**mapping` whose keys fold, an expression over module constants such as "
    "a table indexed by a constant) is one under which the result holds no lone surrogate: strict (raises: R7.1's business), "
    "replace, ignore, backslashreplace, or a handler registered by the package whose function hands back percent-quoted or "
    "constant surrogate-free text; surrogateescape / surrogatepass (lone surrogates, on which every later str.encode() to "
    "UTF-8 and urllib.parse.quote() raise UnicodeEncodeError - the premise of the model entry 'utf-8 is total'), the "
    "encode-only handlers xmlcharrefreplace / namereplace (TypeError on the first undecodable byte) and unknown names "
    "(LookupError) are violations, a handler that is not a finite set of constant texts is ANALYSIS-ERROR (a decode from "
    "latin-1 never asks its handler and is skipped). _wsgi_decoding_dance's own handler must in addition be non-strict, and "
    "the two parse_qsl / parse_qs calls must get a registered handler - both looked for in the function and in the package "
    "helpers it calls (two levels), the handler decided by its value as above. "
    "(R7.4) every regular expression constant (module-level re.compile constant or constant pattern handed to a function "
    "of re) applied in those functions is parsed (re._parser; nothing is matched) and has no unbounded backtracking repeat "
    "R{n,} such that (1) one alternative of R's body, taken as a whole, can match c*j for arbitrarily large j for some "
    "latin-1 character c through a repeat that backtracks (a nested X+ / X* / X{m,} over a class with c, the other items of "
    "the alternative able to match c or nothing: (x+)*, (x*)*, (xx*)+, (a|b+)*, ([^q]+|..)*), so that a run c*n is cut into "
    "rounds in exponentially many ways, and (2) the same concatenation requires after R an item of width >= 1 that cannot "
    "begin with c, or the end of the text ($ / \\Z / use with fullmatch) behind items none of which can take a character "
    "that R's body cannot take either - then every cut is tried before the match fails: time doubles with n (the classic "
    "catastrophic pattern; witness <prefix> + c*n). This is a sufficient condition for exponential time, not a proof of "
    "its absence. Not decided: operations outside "
    "the model (variable-key mapping lookups, attribute errors other than Optional regex matches, sizes whose origin is "
    "not provably a parsed client integer; a parsed datetime that reaches an operation through a container, unpacking of a call's result "
    "or an attribute of another object such as IfRange.date; TypeError from mixing naive and aware datetimes; application-"
    "supplied datetimes or date strings, e.g. last_modified of is_resource_modified), lone surrogates from sources other than a decode's errors handler (chr(), escapes in literals, json, "
    "utf-16/utf-7/unicode_escape codecs); the running time of regular expressions beyond R7.4: ambiguity between "
    "different alternatives ((a|a)*, (a|aa)*), between the tail of one round and the head of the next ((\\s*;\\s*)+), runs of "
    "a multi-character unit ((?:ab)+)+, repeats inside atomic groups or behind look-arounds / back references, polynomial "
    "(quadratic) backtracking, patterns built at run time (the multipart boundary patterns; they are listed in a note), "
    "the assumption in R7.4 that the engine gets to try the concatenation at the start of such a run (an earlier "
    "alternative that always succeeds would hide it); resource exhaustion in general."
)
TRUSTED = [
    "CPython ast and the builtin exception class hierarchy",
    "the library model table (wzsa/effects.py MODEL_DOC), each entry a documented fact about CPython 3.12",
    "name resolution of calls by the loader (unresolved dynamic calls are listed in the evidence)",
    "fixed-arity tuple annotations of parameters (tuple[str, int | None]) for server / application supplied values",
    "re._parser's syntax tree of a pattern is the one the engine compiles; the engine backtracks through nested repeats without memoising (CPython 3.12 Modules/_sre)",
    "what the builtin codec error handlers put into a text (Python/codecs.c): replace U+FFFD, ignore nothing, backslashreplace ASCII, surrogateescape U+DC80..U+DCFF",
]
ASSUMPTIONS = [
    "input model: client-controlled values are latin-1 str without control characters; server-controlled environ keys (wsgi.*, SERVER_NAME/PORT, SCRIPT_NAME, REQUEST_METHOD) are present and well-formed",
    "application-supplied callables (type= converters, cls= factories, user_agent_class) are outside the claim",
    "RecursionError / MemoryError are out of model, except the size kind above",
    "containers are followed by their local name: aliasing of a list / dict under a second name inside one function is not tracked (the list handed to the range constructor is followed through plain aliases, copies and helpers)",
    "R7.4: some text brings the engine to the repeat at the start of a run (the part of the pattern before it is satisfiable and no earlier alternative always succeeds)",
    "R7.2: a cursor that strictly moves in one direction and a text sliced from a lower bound >= 1 count as progress (termination then needs the loop's own bound test, which is not checked)",
]

PARSERS = [
    "parse_options_header", "parse_list_header", "parse_dict_header", "parse_set_header", "parse_accept_header",
    "parse_cache_control_header", "parse_csp_header", "parse_etags", "parse_range_header", "parse_content_range_header",
    "parse_if_range_header", "parse_date", "parse_age", "parse_cookie",
]


def entry_points(ctx: Ctx, eff: Effects) -> list[tuple[str, list[FuncInfo], FuncInfo | str, ast.AST | None]]:
    """(label, functions run, where, node)"""
    repo = ctx.repo
    out = []
    for p in PARSERS:
        f = repo.func(f"http.{p}")
        out.append((f"http.{p}", [f], f, f.node))
    out.append(("sansio.http.parse_cookie", [repo.func("sansio.http.parse_cookie")], repo.func("sansio.http.parse_cookie"), None))
    for cn in ("Authorization", "WWWAuthenticate"):
        f = repo.func(f"datastructures.auth.{cn}.from_header")
        out.append((f"{cn}.from_header", [f], f, f.node))
    # the Accept classes' membership / best_match (named by the property)
    for cn in ("Accept", "MIMEAccept", "LanguageAccept", "CharsetAccept"):
        c = repo.cls(f"datastructures.accept.{cn}")
        for mn in ("best_match", "__contains__", "quality", "find", "__getitem__", "best"):
            o, w = repo.lookup(c, mn)
            if isinstance(w, FuncInfo):
                out.append((f"{cn}.{mn}", [w], w, w.node))
    for cfq in ("sansio.request.Request", "wrappers.request.Request"):
        c = repo.cls(cfq)
        seen = set()
        for k in repo.mro(c):
            if not isinstance(k, ClassInfo) or not k.fq.startswith("werkzeug."):
                continue
            for name, fi in k.methods.items():
                if "." in name or name in seen:
                    continue
                if any(d.rsplit(".", 1)[-1] in ("property", "cached_property") for d in fi.decorators):
                    o, w = repo.lookup(c, name)
                    if w is fi:
                        seen.add(name)
                        out.append((f"{c.name}({c.module.name.rsplit('.', 2)[-2]}).{name}", [fi], fi, fi.node))
            for name, v in k.attrs.items():
                if name in seen or not isinstance(v, ast.Call):
                    continue
                f = v.func.value if isinstance(v.func, ast.Subscript) else v.func
                dn = (dotted(f) or "").rsplit(".", 1)[-1]
                if dn in ("header_property", "environ_property"):
                    o, w = repo.lookup(c, name)
                    if w is v:
                        seen.add(name)
                        getter = repo.func("_internal._DictAccessorProperty.__get__")
                        out.append((f"{c.name}({c.module.name.rsplit('.', 2)[-2]}).{name}", [getter] + eff.descriptor_funcs(k, v), k.fq, v))
    return out


def _private(fq: str) -> bool:
    last = fq.rsplit(".", 1)[-1]
    return "<locals>" in fq or (last.startswith("_") and not (last.startswith("__") and last.endswith("__")))


def _attributed(site_fq: str, chain_fq: list[str]) -> str | None:
    """the function a violation is keyed under: the raising site's own function, or - when that is a private helper /
    nested function - its nearest public caller on the reported chain (the failing input is the same whether the
    statement stands in the public function or in a helper extracted from it)."""
    if not _private(site_fq) or site_fq not in chain_fq:
        return None
    for fq in reversed(chain_fq[: chain_fq.index(site_fq)]):
        if fq != "..." and not _private(fq):
            return fq
    return None


def run(ctx: Ctx) -> None:
    repo = ctx.repo
    ctx.rule("R7.1", "no exception outside werkzeug's HTTPException family escapes an entry point: every raising site reachable from it is covered by a handler on the path, a dominating guard idiom, or a reviewed role whose premise is re-established on the current code")
    ctx.rule("R7.2", "every while loop reachable from an entry point makes progress on every path through its body")
    ctx.rule("R7.4", "no regular expression constant applied on the request path has an unbounded repeat whose body can match a run c*n of one character as one round or as several while what must follow the repeat cannot match after the run (exponential backtracking)")
    ctx.rule("R7.3", "the lenient decoders keep their fallbacks: (ValueError, TypeError) around conversions in _DictAccessorProperty.__get__ and TypeConversionDict.get; errors='werkzeug.url_quote' on both parse_qsl calls with that handler registered; _wsgi_decoding_dance decodes with errors='replace'; the value of the errors handler that reaches any decode / unquote on the request path is one that puts no lone surrogate into the text (not surrogateescape / surrogatepass, not an encode-only or unknown handler)")

    # registered codec error handlers
    registered = set()
    registered_fn: dict[str, tuple[t.Any, ast.AST | None]] = {}
    for m in repo.modules.values():
        for c in astq.calls(m.tree):
            if dotted(c.func) in ("codecs.register_error",) and c.args and astq.const_str(c.args[0]):
                registered.add(astq.const_str(c.args[0]))
                registered_fn[astq.const_str(c.args[0])] = (m, c.args[1] if len(c.args) > 1 else astq.kwarg(c, "error_handler"))
    eff = Effects(repo, registered)
    folder = Folder(repo)
    ok_silent, dead_raises, why_silent = p_form_parser_silent(ctx, folder)
    ctx.ob("R7.1", "form parsing on the request path runs in silent mode (its ValueError handler does not re-raise)", ok_silent, why_silent, repo.func("formparser.FormDataParser.parse"), None, "form parser silent mode")
    if ok_silent:
        eff.dead_reraises |= {id(x) for x in dead_raises}
    entries = entry_points(ctx, eff)
    ctx.floor("R7.1", "entry points", len(entries), 68)
    roots = []
    for _, fs, _, _ in entries:
        for f in fs:
            if f not in roots:
                roots.append(f)
    eff.reachable(roots)
    flow = Flow(eff, folder, {f.fq for f in roots})

    def size_hook(fi, call, size) -> bool:
        flow.site_ast = call
        try:
            return flow.unbounded_client_int(fi, size, flow.node(fi, call))
        finally:
            flow.site_ast = None

    eff.size_hook = size_hook

    def dt_hook(fi, op, recv) -> tuple[bool, bool]:
        node = flow.node(fi, op)
        if node is None:
            return False, False
        if isinstance(recv, ast.BinOp):
            return flow.client_dt_arith(fi, recv, node), False
        return flow.client_datetime(fi, recv, node), flow.aware_datetime(fi, recv, node)

    eff.dt_hook = dt_hook
    reach_ext = _extended_reach(eff, roots)
    texts = _Texts(eff, flow, folder, reach_ext)
    eff.text_hook = lambda fi, call, e: texts.of(fi, e, call)
    esc = eff.escapes(roots)
    for f in eff.reach.values():
        ctx.saw(f)
    an = A(ctx, eff, folder, flow)

    # one obligation per (origin site, exception) that is not an allowed HTTPException and that escapes at least one entry point
    origins: dict[tuple[str, str, str], tuple[Site, str, list[str]]] = {}
    for label, fs, where, node in entries:
        escaping = set()
        for f in fs:
            escaping |= esc[f.fq]
        # descriptor entry: the conversion runs inside __get__'s (ValueError, TypeError) handler
        if len(fs) > 1:
            getter = fs[0]
            conv_call = [c for c in astq.calls(getter.node) if isinstance(c.func, ast.Attribute) and c.func.attr == "load_func"]
            filtered = set(esc[getter.fq])
            for f in fs[1:]:
                for s, e in esc[f.fq]:
                    if conv_call and eff.uncaught(getter, conv_call[0], e):
                        filtered.add((s, e))
            escaping = filtered
        for s, e in escaping:
            if eff.lat.allowed(e):
                continue
            key = (s.func.fq, s.text, e)
            if key not in origins:
                origins[key] = (s, e, [])
            origins[key][2].append(label)

    n_rev = n_guard = 0
    for key in sorted(origins):
        s, e, labels = origins[key]
        flow.cur = (s, e)
        flow.site_ast = s.node
        try:
            how = _guard_idiom(an, s, e)
            if how:
                n_guard += 1
                ctx.ob("R7.1", f"{s.func.qualname}: `{s.text}` may raise {e}", True, f"discharged by guard idiom: {how}", s.func, s.node, f"{s.text} raises {e}")
                continue
            rv = review(an, s, e)
        finally:
            flow.cur = None
            flow.site_ast = None
        if rv is not None:
            role, ok, reason = rv
            n_rev += 1
            ctx.ob("R7.1", f"{s.func.qualname}: `{s.text}` may raise {e}", ok, (f"reviewed role '{role}': " if ok else f"reviewed role '{role}': premise does not hold: ") + reason, s.func, s.node, f"{s.text} raises {e}")
            continue
        root = next((fs[0] for lab, fs, _, _ in entries if lab == labels[0]), None)
        chain_fq = eff.chain(root, s, e) if root is not None else []
        chain = " -> ".join(x.replace("werkzeug.", "") for x in chain_fq)
        doc = MODEL_DOC.get(s.kind, "explicit raise")
        ctx.ob(
            "R7.1", f"{s.func.qualname}: `{s.text}` may raise {e}", False,
            f"{e} escapes {len(labels)} entry point(s) (e.g. {', '.join(sorted(set(labels))[:4])}) uncaught; chain: {chain}; model: {doc}",
            s.func, s.node, f"{s.text} raises {e}", key_fn=_attributed(s.func.fq, chain_fq),
        )
    ctx.extra["c07"] = {
        "entry_points": len(entries), "functions_reachable": len(eff.reach),
        "raising_sites_modelled": sum(len(eff.sites(f)) for f in eff.reach.values()),
        "origins_escaping_some_entry": len(origins), "by_guard_idiom": n_guard, "by_reviewed_role": n_rev,
        "unresolved_calls": {k: v for k, v in eff.unresolved.items() if v and k in eff.reach},
    }
    _r72(an)
    _r73(ctx, eff, folder, registered, flow, texts, registered_fn)
    _r74(ctx, eff, flow, folder, reach_ext)


# ---------------------------------------------------------------------
# guard idioms: canonical atoms that dominate the use (fresh: no rebinding in between), value origins across helpers


def _guard_idiom(an: A, s: Site, e: str) -> str | None:
    fi = s.func
    flow = an.flow
    node = flow.node(fi, s.node)
    if node is None:
        return None
    if s.kind == "match-attr":
        nm = s.node.value.id  # type: ignore[attr-defined]
        at = flow.holds(fi, node, lambda at: (at.op == "truthy" and at.truth and norm(at.a) == nm) or (at.op == "is" and not at.truth and norm(at.a) == nm and astq.is_none(at.b)))
        if at is not None:
            return f"`{norm(at.test.ast)}` is {at.label} on every path to the use and `{nm}` is not rebound in between"
        return None
    if s.kind == "unpack-split":
        call = s.node.value  # type: ignore[attr-defined]
        k = len(s.node.targets[0].elts)  # type: ignore[attr-defined]
        sep = const_text(call.args[0]) if call.args else None
        mx = const_int(astq.arg_or_kw(call, 1, "maxsplit"))
        if sep and k == 2 and mx == 1:
            if sep in flow.contained(fi, call.func.value, node):
                return f"`{sep!r} in {norm(call.func.value)}` is established on every path to the unpacking (dominating test, or at every call site for a parameter)"
        return None
    if s.kind == "index" and isinstance(s.node, ast.Call) and len(s.node.args) == 1 and not s.node.keywords:
        c = const_text(s.node.args[0])
        recv = s.node.func.value  # type: ignore[attr-defined]
        if c and c in flow.contained(fi, recv, node):
            return f"`{c!r} in {norm(recv)}` is established on every path to the search (dominating test in any spelling, or at every call site for a parameter): it cannot fail"
        return None
    if s.kind == "const-index":
        sub = s.node
        val = const_int(sub.slice)  # type: ignore[attr-defined]
        if val is None:
            return None
        need = val + 1 if val >= 0 else -val
        got = flow.minlen(fi, sub.value, node)  # type: ignore[attr-defined]
        if got >= need:
            return f"`{norm(sub.value)}` has at least {got if got < INF else 'any number of'} element(s) on every path (value origins: tuple / split / regex group widths, dominating tests, call sites): index {val} exists"  # type: ignore[attr-defined]
        return None
    if s.kind == "encode" and e == "UnicodeEncodeError" and isinstance(s.node, ast.Call):
        # a strict encode to ascii / latin-1 (or another codec that holds ASCII) of a text that is ASCII-only on every path
        # to it: `x.isascii()` in any polarity / early-return spelling instead of try / except UnicodeEncodeError
        cc = codec_call(s.node)
        if cc is not None and cc[0] == "encode" and (cc[2] or "") in _ASCII_CODECS | _ASCII_COMPATIBLE and flow.ascii_only(fi, cc[1], node):
            return f"`{norm(cc[1])}` holds only ASCII characters on every path to the encode (a dominating test that means `is ASCII`, or the value's origin, or the argument at every call site) and is not rebound in between: every ASCII-compatible codec takes it"
        return None
    return None


# ---------------------------------------------------------------------
# R7.2 loop progress


NEXT_EVENT = "werkzeug.sansio.multipart.MultipartDecoder.next_event"


def _r72(an: A) -> None:
    ctx = an.ctx
    n = 0
    for f in an.eff.reach.values():
        for w in walk_no_nested(f.node):
            if not isinstance(w, ast.While):
                continue
            n += 1
            ok, why = _progress(an, f, w)
            ctx.ob("R7.2", f"{f.qualname}: `while {norm(w.test)[:40]}` makes progress", ok, why, f, w, f"while {norm(w.test)[:60]}")
    ctx.floor("R7.2", "while loops reachable from entry points", n, 1)


def _maker_kind(an: A, f: FuncInfo, c: ast.Call) -> str | None:
    """reviewed progress makers, identified by what is called: MultipartDecoder.next_event / a read from the request stream."""
    if any(g.fq == NEXT_EVENT for g in an.flow.resolve_callee(f, c)):
        return "event"
    fn = c.func
    if (isinstance(fn, ast.Attribute) and fn.attr == "read") or (isinstance(fn, ast.Name) and fn.id in f.params and _bound_to_read(an, f, fn.id)):
        return "read"
    return None


def _not_need_data(an: A, f: FuncInfo, st: PS, var: str) -> str | None:
    """the path has seen `isinstance(<var>, <types incl. NeedData>)` false (and var was not rebound since)."""
    li = f.module.local_imports(f.node)
    for key, (truth, names) in st.gen.items():
        if truth or var not in names:
            continue
        try:
            t_ = ast.parse(key, mode="eval").body
        except SyntaxError:
            continue
        if not (isinstance(t_, ast.Call) and dotted(t_.func) == "isinstance" and len(t_.args) == 2 and isinstance(t_.args[0], ast.Name) and t_.args[0].id == var):
            continue
        types = t_.args[1].elts if isinstance(t_.args[1], ast.Tuple) else [t_.args[1]]
        if any((an.repo.resolve(f.module, dotted(x) or "?", li) or "").endswith(".NeedData") for x in types):
            return key
    return None


def _progress(an: A, f: FuncInfo, w: ast.While) -> tuple[bool, str]:
    """every iteration either strictly advances a measure (an int cursor that only moves one way, a text that gets
    shorter) or asks a reviewed progress maker for more - and between two such requests the loop is left when the maker
    is exhausted.  Decided on the facts of every path through the body (wzsa/effects.py PathSim), not on statement shapes."""
    sim = an.sim
    sim.steps = 0
    cfg = cfg_of(f)
    heads = [h for h in cfg.by_ast.get(id(w)) or [] if h.kind == "join"]
    if not heads:
        return False, "no CFG node"
    head = heads[0]
    region = sim.loop_region(f, head)
    makers: dict[int, tuple[str, ast.Call, t.Any]] = {}
    for n_ in cfg.nodes:
        if n_.id not in region or n_.ast is None or n_.kind not in ("stmt", "test"):
            continue
        for c in [x for x in [n_.ast, *walk_no_nested(n_.ast)] if isinstance(x, ast.Call)]:
            k = _maker_kind(an, f, c)
            if k is not None and cfg.node_of(c) is n_:
                makers[id(c)] = (k, c, n_)
    sim.call_tag = lambda fi, c: (f"{makers[id(c)][0]}:{id(c)}" if id(c) in makers else None)
    try:
        pre: dict[tuple, PS] = {}
        sim.walk(f, [head], lambda n, st: pre.setdefault(st.key(), st), stop_at_goal=True)
        assigned = sorted(sim.loop_assigned(f).get(head.id, ()))
        how: dict[str, int] = {}
        ncyc = 0
        for P in pre.values():
            for A_ in sim.cycles(f, head, P):
                ncyc += 1
                got = None
                for v in assigned:
                    h = v + "@h"
                    if A_.entails(h, v, 0, True):
                        got = f"`{v}` grows"
                    elif A_.entails(v, h, 0, True):
                        got = f"`{v}` falls"
                    elif f"len({v})" in A_.deps and f"len({h})" in A_.deps and A_.entails(f"len({v})", f"len({h})", 0, True):
                        got = f"`{v}` gets shorter"
                    if got:
                        break
                if got is None:
                    hit = [tg for tg in A_.tags if int(tg.split(":")[1]) in makers]
                    if hit:
                        got = f"asks `{norm(makers[int(hit[0].split(':')[1])][1])[:40]}` for more"
                if got is None:
                    known = "; ".join(f"{v}: {A_.describe([v, v + '@h'])}" for v in assigned[:6])
                    return False, f"an iteration can return to the loop head without progress: no assigned name ({', '.join(assigned) or 'none'}) is known to have moved and no progress maker was asked [{known[:400]}]"
                how[got] = how.get(got, 0) + 1
        facts = [f"{k} ({v} path(s))" for k, v in sorted(how.items())]
        # between two requests to a progress maker the loop is left when the maker is exhausted
        reviewed = []
        for cid, (kind, call, node) in makers.items():
            tag = f"{kind}:{cid}"
            arr: list[PS] = []
            sim.walk(f, [m[2] for m in makers.values()], lambda n, st: arr.append(st), init=PS(), starts=[node], within=region, no_havoc=[head.id], stop_at_goal=True, first_free=True)
            why = None
            for A_ in arr:
                holders = [v for v, tg in A_.org.items() if tg == tag and not v.startswith("$")]
                if kind == "read":
                    okv = [v for v in holders if A_.truth.get(v) is True or (f"len({v})" in A_.deps and A_.entails(ZERO, f"len({v})", -1))]
                    if not okv:
                        return False, f"after `{norm(call)[:40]}` the loop can read again without having left on an empty read (result held by {holders or 'nothing'})"
                    why = f"`{norm(call)}` (reviewed: each iteration reads from the request stream, which is finite (C09 bounds it); the loop is left when the read is empty: the next read is reached only with `{okv[0]}` non-empty)"
                else:
                    keys = [k for k in (_not_need_data(an, f, A_, v) for v in holders) if k]
                    if not keys:
                        return False, f"after `{norm(call)[:40]}` the loop can ask for the next event without having left on NEED_DATA (event held by {holders or 'nothing'})"
                    okp, whyp = _next_event_premise(an)
                    if not okp:
                        return False, f"`{norm(call)[:40]}`: {whyp}"
                    why = f"`{norm(call)}` (reviewed: every event other than NEED_DATA comes with a buffer deletion or a state change, so a bounded buffer yields finitely many events; the next event is asked for only after `{keys[0]}` was false) [{whyp}]"
            if why:
                reviewed.append(why)
        if not ncyc:
            return True, "loop body always leaves the loop"
        return True, f"every iteration ({ncyc} path(s) back to the head) makes progress: {facts}" + (f"; {reviewed}" if reviewed else "")
    finally:
        sim.call_tag = None


def _next_event_premise(an: A) -> tuple[bool, str]:
    f = an.repo.func("sansio.multipart.MultipartDecoder.next_event")
    cfg = cfg_of(f)
    sn = f.params[0]
    rets = astq.returns_of(f.node)
    names = {r.value.id for r in rets if isinstance(r.value, ast.Name)}
    if len(names) != 1 or len(names) != len({norm(r.value) for r in rets if r.value is not None}):
        raise AnalysisError("C07 next_event: the returned event is not a single local name")
    ev = names.pop()
    prog = [n for n in cfg.nodes if (isinstance(n.ast, ast.Delete) and any(isinstance(t_, ast.Subscript) and astq.is_self_attr(t_.value, "buffer", sn) for t_ in n.ast.targets)) or (isinstance(n.ast, ast.Assign) and any(astq.is_self_attr(t_, "state", sn) for t_ in n.ast.targets))]
    facts = []
    ok = True
    nev = 0
    for n in cfg.nodes:
        for d in an.flow.rd(f).gen.get(n.id, []):
            if d.name != ev:
                continue
            if d.kind == "assign" and d.index is None and isinstance(d.value, ast.Name):
                continue  # the NEED_DATA default
            if not (d.kind == "assign" and d.index is None and isinstance(d.value, ast.Call)):
                raise AnalysisError(f"C07 next_event: `{norm(d.stmt)[:50]}` binds the event in a shape that is not understood")
            nev += 1
            good = cfg.all_paths_pass(cfg.entry, [n], prog) or cfg.all_paths_pass(n, [cfg.exit], prog)
            facts.append(f"{norm(d.value.func)}: {good}")
            ok = ok and good
    if not nev:
        raise AnalysisError("C07 next_event: no event construction found")
    return ok, "event construction accompanied by a buffer deletion / state change on every path: " + ", ".join(facts)


def _bound_to_read(an: A, f: FuncInfo, pname: str) -> bool:
    """a callable parameter that every call site on the request path binds to <stream>.read."""
    cal = an.flow.callers(f)
    if not cal:
        return False
    for g, n, kind in cal:
        b = an.flow.bind(f, n, pname) if kind == "call" else None
        if b is None or b[0] != "arg" or not (isinstance(b[1], ast.Attribute) and b[1].attr == "read"):
            return False
    return True


# ---------------------------------------------------------------------
# R7.4 regular expressions: no unbounded repeat whose body can split one run of a character in more than one way


try:  # the regex syntax tree of the stdlib (parsing only - nothing is matched)
    import re._constants as _sc  # type: ignore[import-not-found]
    import re._parser as _sp  # type: ignore[import-not-found]
except ImportError:  # pragma: no cover
    import sre_constants as _sc  # type: ignore[no-redef]
    import sre_parse as _sp  # type: ignore[no-redef]
import re as _re_mod

from ..fold import RegexConst, class_of_items

_REPEATS = (_sc.MAX_REPEAT, _sc.MIN_REPEAT)
_POSSESSIVE = getattr(_sc, "POSSESSIVE_REPEAT", None)
_ATOMIC = getattr(_sc, "ATOMIC_GROUP", None)
_RX_METHODS = {"match", "fullmatch", "search", "sub", "subn", "split", "findall", "finditer"}
_ALPHABET = 256  # the input model: client text is latin-1


_CLASS_MEMO: dict[tuple[int, int, bool], tuple[t.Any, set[int] | None]] = {}


def _char_class(node, flags: int, is_bytes: bool) -> set[int] | None:
    """the characters (< 256) a width-1 node matches; None for anything that is not one character wide."""
    key = (id(node), flags, is_bytes)
    hit = _CLASS_MEMO.get(key)
    if hit is not None and hit[0] is node:
        return hit[1]
    res = _char_class0(node, flags, is_bytes)
    _CLASS_MEMO[key] = (node, res)
    return res


def _char_class0(node, flags: int, is_bytes: bool) -> set[int] | None:
    op, av = node
    try:
        if op is _sc.IN:
            return class_of_items(av, flags, is_bytes, _ALPHABET)
        if op is _sc.LITERAL:
            return class_of_items([(_sc.LITERAL, av)], flags, is_bytes, _ALPHABET)
        if op is _sc.NOT_LITERAL:
            return class_of_items([(_sc.NEGATE, None), (_sc.LITERAL, av)], flags, is_bytes, _ALPHABET)
        if op is _sc.ANY:
            out = set(range(_ALPHABET))
            if not flags & _re_mod.S:
                out.discard(10)
            return out
    except Exception:
        return None
    return None


class _Run(t.NamedTuple):
    empty: bool  # can match the empty text
    some: bool  # can match c^j for some j >= 1 (and nothing but c's)
    unbounded: bool  # can match c^j for arbitrarily large j, through a repeat that backtracks


def _run_of(seq, c: int, flags: int, is_bytes: bool) -> _Run:
    """which texts made of the single character c the sequence can match as a whole.  Constructs that are not understood
    (assertions, back references, conditionals) match nothing here: the rule stays silent about them."""
    empty, some, unb = True, False, False
    for node in seq:
        r = _run_of_node(node, c, flags, is_bytes)
        if not (r.empty or r.some):
            return _Run(False, False, False)
        some = some or r.some
        unb = unb or r.unbounded
        empty = empty and r.empty
    return _Run(empty, some, unb and some)


def _run_of_node(node, c: int, flags: int, is_bytes: bool) -> _Run:
    op, av = node
    cls = _char_class(node, flags, is_bytes)
    if cls is not None:
        return _Run(False, c in cls, False)
    if op is _sc.SUBPATTERN:
        add, rem = av[1], av[2]
        return _run_of(av[3], c, (flags | add) & ~rem, is_bytes)
    if op is _sc.BRANCH:
        rs = [_run_of(b, c, flags, is_bytes) for b in av[1]]
        return _Run(any(r.empty for r in rs), any(r.some for r in rs), any(r.unbounded for r in rs))
    if op in _REPEATS or (op is _POSSESSIVE and _POSSESSIVE is not None):
        lo, hi, body = av
        r = _run_of(body, c, flags, is_bytes)
        if hi == 0:
            return _Run(True, False, False)
        backtracks = op in _REPEATS
        return _Run(lo == 0 or r.empty, r.some, r.some and backtracks and (hi is _sc.MAXREPEAT or r.unbounded))
    if _ATOMIC is not None and op is _ATOMIC:
        r = _run_of(av, c, flags, is_bytes)
        return _Run(r.empty, r.some, False)
    return _Run(False, False, False)


def _may_start_with(node, c: int, flags: int, is_bytes: bool) -> bool:
    """may a match of the node begin with c?  True when not sure."""
    op, av = node
    cls = _char_class(node, flags, is_bytes)
    if cls is not None:
        return c in cls
    if op is _sc.SUBPATTERN:
        return _seq_may_start_with(av[3], c, (flags | av[1]) & ~av[2], is_bytes)
    if op is _sc.BRANCH:
        return any(_seq_may_start_with(b, c, flags, is_bytes) for b in av[1])
    if op in _REPEATS or (_POSSESSIVE is not None and op is _POSSESSIVE):
        return _seq_may_start_with(av[2], c, flags, is_bytes)
    if _ATOMIC is not None and op is _ATOMIC:
        return _seq_may_start_with(av, c, flags, is_bytes)
    return True


def _min_width(node) -> int:
    sub = _sp.SubPattern(_sp.State(), [node])
    try:
        return int(sub.getwidth()[0])
    except Exception:
        return 0


def _zero_width(node) -> bool:
    return node[0] in (_sc.AT, _sc.ASSERT, _sc.ASSERT_NOT)


def _seq_may_start_with(seq, c: int, flags: int, is_bytes: bool) -> bool:
    for node in seq:
        if _zero_width(node):
            if node[0] is not _sc.AT:
                return True  # a look-around: not understood
            continue
        if _may_start_with(node, c, flags, is_bytes):
            return True
        if _min_width(node) > 0:
            return False
    return False


def _explosive_repeats(rx: RegexConst, whole: bool) -> list[str]:
    """descriptions (with a witness) of the unbounded, backtracking repeats R{n,} of the pattern such that
    (1) one alternative of the body can match c^j for arbitrarily large j for some character c - so a run c^n is cut into
    rounds of the repeat in exponentially many ways - and (2) what has to follow the repeat inside the same concatenation
    (a mandatory item that cannot begin with c, or the end of the text with every item in between unable to take a
    character z the body cannot take either) fails after the run: the engine tries every cut before it gives up.
    `whole`: the pattern is used with fullmatch somewhere (the end of the text is required after it)."""
    is_bytes = isinstance(rx.pattern, bytes)
    tree = rx.parsed()
    flags0 = tree.state.flags
    out: list[str] = []

    def show(cs: t.Iterable[int]) -> str:
        c = next((x for x in (ord("a"), ord("A"), ord("0"), ord(" ")) if x in cs), None)
        return chr(c if c is not None else sorted(cs)[0])

    def visit(seq, flags: int, after: list[tuple[list, int]]) -> None:
        """after: what follows this sequence further out, innermost first, as (remaining nodes, flags)."""
        nodes = list(seq)
        for i, node in enumerate(nodes):
            op, av = node
            rest = [(nodes[i + 1 :], flags)] + after
            if op is _sc.SUBPATTERN:
                visit(av[3], (flags | av[1]) & ~av[2], rest)
            elif op is _sc.BRANCH:
                for b in av[1]:
                    visit(b, flags, rest)
            elif _ATOMIC is not None and op is _ATOMIC:
                continue  # nothing inside is tried a second way
            elif op in (_sc.ASSERT, _sc.ASSERT_NOT):
                visit(av[1], flags, [])
            elif op is _sc.GROUPREF_EXISTS:
                visit(av[1], flags, rest)
                if av[2]:
                    visit(av[2], flags, rest)
            elif op in _REPEATS or (_POSSESSIVE is not None and op is _POSSESSIVE):
                lo, hi, body = av
                if op in _REPEATS and hi is _sc.MAXREPEAT:
                    check(body, flags, rest)
                # the next round of this repeat is not taken as a follower: if it fails the repeat just ends
                visit(body, flags, rest if op in _REPEATS else [])

    def alternatives(body, flags: int) -> list[tuple[list, int]]:
        nodes = list(body)
        if len(nodes) == 1 and nodes[0][0] is _sc.SUBPATTERN:
            av = nodes[0][1]
            return alternatives(av[3], (flags | av[1]) & ~av[2])
        if len(nodes) == 1 and nodes[0][0] is _sc.BRANCH:
            return [x for b in nodes[0][1][1] for x in alternatives(b, flags)]
        return [(nodes, flags)]

    def check(body, flags: int, rest: list[tuple[list, int]]) -> None:
        runs: set[int] = set()
        for alt, fl in alternatives(body, flags):
            for c in range(_ALPHABET):
                if _run_of(alt, c, fl, is_bytes).unbounded:
                    runs.add(c)
        if not runs:
            return
        # (2) a mandatory follower that cannot begin with c / the end of the text behind items that cannot take z
        followers = [(n, fl) for ns, fl in rest for n in ns]
        mandatory = next(((n, fl) for n, fl in followers if not _zero_width(n) and _min_width(n) > 0), None)
        if mandatory is not None:
            stuck = {c for c in runs if not _may_start_with(mandatory[0], c, mandatory[1], is_bytes)}
            if stuck:
                c = show(stuck)
                out.append(f"the body of an unbounded repeat can match {c!r}*n as one round or as several (the repeat nests an unbounded repeat over a class with {c!r}), and the item that must follow cannot begin with {c!r}: on <prefix> + {c!r}*n every cut of the run is tried before the match fails (time doubles with n)")
            return
        ends = whole or any(n[0] is _sc.AT and n[1] in (_sc.AT_END, _sc.AT_END_STRING) for n, _ in followers)
        if ends and all(n[0] is _sc.AT or not _zero_width(n) for n, _ in followers):
            poison = [z for z in range(_ALPHABET) if z != 10 and not _seq_may_start_with(body, z, flags, is_bytes) and not any(_may_start_with(n, z, fl, is_bytes) for n, fl in followers if not _zero_width(n))]
            if poison:
                c, z = show(runs), show(poison)
                out.append(f"the body of an unbounded repeat can match {c!r}*n as one round or as several, and the end of the text must follow: on <prefix> + {c!r}*n + {z!r} every cut of the run is tried before the match fails (time doubles with n)")

    visit(tree, flags0, [])
    return out


def _r74(ctx: Ctx, eff: Effects, flow: Flow, folder: Folder, reach: dict[str, FuncInfo]) -> None:
    """every regular expression constant applied on the request path (module-level re.compile constants and constant
    patterns handed to the functions of `re`)."""
    repo = ctx.repo
    used: dict[tuple[str, str], tuple[RegexConst, FuncInfo, ast.AST, set[str], str]] = {}
    dynamic: set[str] = set()
    for fq in sorted(reach):
        f = reach[fq]
        li = f.module.local_imports(f.node)
        for c in walk_no_nested(f.node):
            if not (isinstance(c, ast.Call) and isinstance(c.func, ast.Attribute) and c.func.attr in _RX_METHODS):
                continue
            recv = c.func.value
            d = dotted(recv)
            if d and repo.resolve(f.module, d, li) == "re":
                # re.match(pattern, text, flags): a constant pattern
                try:
                    pat = folder.expr(f.module, c.args[0]) if c.args else None
                    fl = astq.arg_or_kw(c, {"sub": 4, "subn": 4, "split": 3}.get(c.func.attr, 2), "flags")
                    flv = int(folder.expr(f.module, fl)) if fl is not None else 0
                except Exception:
                    pat, flv = None, 0
                if not isinstance(pat, (str, bytes)):
                    dynamic.add(f"{f.qualname}: {norm(c)[:40]}")
                    continue
                rx, label = RegexConst(pat, flv), f"{pat!r}"[:40]
            else:
                rx0 = flow.fold_regex(f, recv)
                if rx0 is None:
                    if d and d.rsplit(".", 1)[-1].lower().endswith(("_re", "regex", "pattern")):
                        dynamic.add(f"{f.qualname}: {d}")
                    continue
                rx, label = rx0, (d or norm(recv)).rsplit(".", 1)[-1]
            k = (repr(rx.pattern), str(rx.flags))
            if k not in used:
                used[k] = (rx, f, c, set(), label)
            used[k][3].add(c.func.attr)
    ctx.floor("R7.4", "regular expression constants applied on the request path", len(used), 10)
    for k in sorted(used):
        rx, f, c, methods, label = used[k]
        try:
            bad = _explosive_repeats(rx, "fullmatch" in methods)
        except Exception as e:  # the pattern does not parse / a construct the walker does not know
            raise AnalysisError(f"C07 R7.4: the regular expression {label} could not be analysed: {e}")
        ctx.ob("R7.4", f"{label}: no unbounded repeat can cut one run of a character into rounds in more than one way before a part that must follow fails", not bad,
               "; ".join(bad) if bad else f"{rx.pattern!r}"[:120] + f" (applied with {sorted(methods)}): no such repeat", f, c, f"regex {label} has no exponentially ambiguous repeat")
    if dynamic:
        ctx.note("R7.4: regular expressions built at run time are not analysed: " + "; ".join(sorted(dynamic))[:400])


# ---------------------------------------------------------------------
# R7.3


def _conversion_calls(f: FuncInfo, kind: str, name: str) -> list[ast.Call]:
    """the calls of the converter: `self.<name>(...)` / `<parameter name>(...)`, directly or through a local alias."""
    sn = f.params[0] if f.params else "self"

    def is_src(e: ast.AST | None) -> bool:
        if kind == "attr":
            return e is not None and astq.is_self_attr(e, name, sn)
        return isinstance(e, ast.Name) and e.id == name and name in f.params and not astq.assigns_to(f.node, name)

    out = []
    for c in astq.calls(f.node, nested=False):
        fn = c.func
        if is_src(fn):
            out.append(c)
        elif isinstance(fn, ast.Name) and not (kind == "param" and fn.id == name):
            vals = [v for _, v in astq.assigns_to(f.node, fn.id)]
            if vals and all(is_src(v) for v in vals):
                out.append(c)
    return out


# errors handlers of the codecs machinery by what they do when *decoding* meets an undecodable byte (CPython
# Python/codecs.c): these put U+FFFD / nothing / the ASCII text \\xNN into the result - never a lone surrogate
DECODE_CLEAN = {"replace", "ignore", "backslashreplace"}
# these turn the undecodable byte 0xNN into the lone surrogate U+DCNN (surrogateescape) or let encoded surrogates through
# (surrogatepass): the text can then not be encoded as UTF-8 any more (str.encode, urllib.parse.quote, ... raise UnicodeEncodeError)
SURROGATE_MAKERS = {"surrogateescape", "surrogatepass"}
# functions of the stdlib that percent-decode / decode to text under an `errors` handler: fq -> (position of errors, default)
TEXT_DECODERS = {
    "urllib.parse.unquote": (2, "replace"), "urllib.parse.unquote_plus": (2, "replace"),
    "urllib.parse.parse_qsl": (4, "replace"), "urllib.parse.parse_qs": (4, "replace"), "codecs.decode": (2, "strict"),
}
LATIN1 = tuple(sorted(_LATIN1_CODECS))


class _AnyOf(ast.AST):
    """one of several expressions (the values a `**mapping` may hold under one key)."""

    _fields = ()

    def __init__(self, alts: list[ast.AST]):
        super().__init__()
        self.alts = alts


def _errors_expr(folder: Folder, f: FuncInfo, c: ast.Call, pos: int, name: str = "errors") -> tuple[ast.AST | None, bool]:
    """(the expression handed to the `errors` parameter or None when it is left to its default, understood): positional,
    keyword, or a key of a `**mapping` whose keys fold (display, dict(...), a local dict with its stores: _kw_table)."""
    e = _arg(c, pos, name)
    if e is not None:
        return e, True
    if any(isinstance(a, ast.Starred) for a in c.args):
        return None, False
    alts: list[ast.AST] = []
    for kw in c.keywords:
        if kw.arg is None:
            tbl = _kw_table(folder, f, kw.value)
            if tbl is None:
                return None, False
            for v in tbl.get(name, []):
                if v is None:
                    return None, False
                alts.append(v)
    if not alts:
        return None, True
    return (alts[0] if len(alts) == 1 else _AnyOf(alts)), True


class _Texts:
    """the constant texts an expression may evaluate to (the errors handler that reaches a decode): constants, conditional
    expressions, `a or b`, locals through their reaching definitions, parameters through their defaults and the arguments
    of every call site (over the functions reachable from the entry points and the request constructors), module
    constants.  For a public function the default and the package's own call sites count (an application's own argument
    is outside the property's input domain).  None = not a known finite set of texts."""

    def __init__(self, eff: Effects, flow: Flow, folder: Folder, reach: dict[str, FuncInfo]):
        self.eff, self.flow, self.folder, self.reach = eff, flow, folder, reach
        self._callers: dict[str, list[tuple[FuncInfo, ast.AST]]] | None = None

    def callers(self, g: FuncInfo) -> list[tuple[FuncInfo, ast.AST]]:
        if self._callers is None:
            self._callers = {}
            for f in self.reach.values():
                for h, n in self.eff.callees(f):
                    self._callers.setdefault(h.fq, []).append((f, n))
        return self._callers.get(g.fq, [])

    def of(self, fi: FuncInfo, e: ast.AST | None, at: ast.AST, depth: int = 0) -> set[str] | None:
        if e is None or depth > 6:
            return None
        if isinstance(e, ast.Constant):
            return {e.value} if isinstance(e.value, str) else None
        if isinstance(e, _AnyOf):
            parts_ = [self.of(fi, x, at, depth + 1) for x in e.alts]
            return None if any(x is None for x in parts_) else set().union(*parts_)  # type: ignore[arg-type]
        if isinstance(e, ast.IfExp):
            a, b = self.of(fi, e.body, at, depth + 1), self.of(fi, e.orelse, at, depth + 1)
            return None if a is None or b is None else a | b
        if isinstance(e, ast.BoolOp) and isinstance(e.op, ast.Or):
            parts = [self.of(fi, v, at, depth + 1) for v in e.values]
            tail = parts[-1]
            if tail is None:
                return None
            out = set(tail)
            for p_ in parts[:-1]:
                if p_ is not None:
                    out |= {x for x in p_ if x}  # a non-empty constant wins, an unknown / None operand falls through
            return out
        if isinstance(e, ast.NamedExpr):
            return self.of(fi, e.value, at, depth + 1)
        if isinstance(e, ast.Name):
            node = self.flow.node(fi, at)
            defs = self.flow.rd(fi).reaching(node, e.id) if node is not None else frozenset()
            if not defs:
                if e.id in fi.params or astq.assigns_to(fi.node, e.id):
                    return None
                try:
                    v = self.folder.name(fi.module, e.id)
                except Exception:
                    return None
                return {v} if isinstance(v, str) else None
            out: set[str] = set()
            for d in defs:
                if d.kind in ("assign", "walrus") and d.index is None and d.value is not None and d.stmt is not None:
                    got = self.of(fi, d.value, d.stmt, depth + 1)
                elif d.kind == "unpack" and d.index is not None and isinstance(d.value, (ast.Tuple, ast.List)) and d.stmt is not None:
                    # `charset, errors = "utf-8", "replace"`: the element at the target's position
                    tg = d.stmt.targets[0] if isinstance(d.stmt, ast.Assign) and len(d.stmt.targets) == 1 else None
                    flat = isinstance(tg, (ast.Tuple, ast.List)) and len(tg.elts) == len(d.value.elts) and d.index < len(tg.elts) and tg.elts[d.index] is d.target
                    plain = flat and not any(isinstance(x, ast.Starred) for x in list(tg.elts) + list(d.value.elts))  # type: ignore[union-attr]
                    got = self.of(fi, d.value.elts[d.index], d.stmt, depth + 1) if plain else None
                elif d.kind == "param":
                    got = self._param(fi, d.name, depth + 1)
                else:
                    got = None
                if got is None:
                    return None
                out |= got
            return out
        if isinstance(e, ast.Attribute) and fi.cls is not None and fi.params and astq.is_self_attr(e, None, fi.params[0]):
            return self._self_attr(fi, e.attr, depth + 1)
        d_ = dotted(e)
        if d_:
            fq = self.eff.repo.resolve(fi.module, d_, self.flow.local_imports(fi))
            if fq and fq.startswith("werkzeug."):
                mn, _, nm = fq.rpartition(".")
                try:
                    v = self.folder.name(self.eff.repo.module(mn), nm)
                except Exception:
                    return None
                return {v} if isinstance(v, str) else None
        if isinstance(e, (ast.Subscript, ast.Call, ast.BinOp, ast.JoinedStr)):
            # an expression over module constants only (a table of handlers indexed by a constant key, ...)
            local = set(fi.params) | {n.id for n in ast.walk(fi.node) if isinstance(n, ast.Name) and isinstance(n.ctx, (ast.Store, ast.Del))}
            if not any(isinstance(n, ast.Name) and n.id in local for n in ast.walk(e)):
                try:
                    v = self.folder.expr(fi.module, e)
                except Exception:
                    return None
                return {v} if isinstance(v, str) else None
        return None

    def _self_attr(self, fi: FuncInfo, attr: str, depth: int) -> set[str] | None:
        """self.<attr>: the class-level constants of that name in the classes of the package that can be `self` here (the
        method's class, its bases and subclasses) and everything a method of those classes stores into it.  (A subclass of
        the application that overrides the attribute is the application's own argument, like a public parameter.)"""
        repo = self.eff.repo
        classes = [k for k in repo.mro(fi.cls) if isinstance(k, ClassInfo)] + list(repo.subclasses(fi.cls.fq))  # type: ignore[union-attr]
        out: set[str] = set()
        found = False
        for k in classes:
            v = k.attrs.get(attr)
            if v is not None:
                if isinstance(v, ast.Call) or attr in k.methods:
                    return None  # a descriptor / property: not a constant
                try:
                    val = self.folder.expr(k.module, v)
                except Exception:
                    return None
                if not isinstance(val, str):
                    return None
                out.add(val)
                found = True
            elif attr in k.methods:
                return None
            for m in k.methods.values():
                sn = m.params[0] if m.params else "self"
                for s_ in walk_no_nested(m.node):
                    tgs = s_.targets if isinstance(s_, ast.Assign) else [s_.target] if isinstance(s_, (ast.AnnAssign, ast.AugAssign)) else []
                    if any(astq.is_self_attr(tg, attr, sn) for tg in tgs):
                        if not isinstance(s_, (ast.Assign, ast.AnnAssign)) or s_.value is None:
                            return None
                        got = self.of(m, s_.value, s_, depth + 1)
                        if got is None:
                            return None
                        out |= got
                        found = True
        return out if found else None

    def _param(self, g: FuncInfo, pname: str, depth: int) -> set[str] | None:
        a = g.node.args  # type: ignore[attr-defined]
        if (a.vararg and a.vararg.arg == pname) or (a.kwarg and a.kwarg.arg == pname):
            return None
        cal = self.callers(g)
        out: set[str] = set()
        public = not g.name.startswith("_") or (g.name.startswith("__") and g.name.endswith("__"))
        if public or not cal:
            # a public function: what the application itself passes is its own business (outside the property's input
            # domain); the package's own calls and the default are what the request path runs with
            pos = [x.arg for x in a.posonlyargs + a.args]
            dflt = None
            if pname in pos:
                j = pos.index(pname) - (len(pos) - len(a.defaults))
                dflt = a.defaults[j] if j >= 0 else None
            elif pname in [x.arg for x in a.kwonlyargs]:
                dflt = a.kw_defaults[[x.arg for x in a.kwonlyargs].index(pname)]
            if dflt is None and not cal:
                return None
            if dflt is not None:
                got = self.of(g, dflt, g.node, depth + 1)
                if got is None:
                    return None
                out |= got
        for f, n in cal:
            b = self.flow.bind(g, n, pname)
            if b is None:
                return None
            got = self.of(g if b[0] == "default" else f, b[1], g.node if b[0] == "default" else n, depth + 1)
            if got is None:
                return None
            out |= got
        return out


def _handler_replacement_clean(repo, registered_fn: dict, name: str) -> tuple[bool | None, str]:
    """a handler registered with codecs.register_error: is the replacement text it hands back free of lone surrogates?
    Yes when every return is `(text, position)` with text a constant or the result of urllib.parse.quote* (ASCII)."""
    if name not in registered_fn:
        return None, "not registered in the package"
    m, fe = registered_fn[name]
    d = dotted(fe) if fe is not None else None
    fq = repo.resolve(m, d) if d else None
    f = repo.try_func(fq) if fq and fq.startswith("werkzeug.") else None
    if f is None:
        return None, f"the function registered as {name!r} is not a function of the package"
    rets = astq.returns_of(f.node)
    if not rets:
        return None, f"{f.qualname} has no return"
    li = f.module.local_imports(f.node)
    for r in rets:
        v = r.value
        if not (isinstance(v, ast.Tuple) and len(v.elts) == 2):
            return None, f"{f.qualname}: `{norm(r)[:50]}` is not a (text, position) pair"
        txt = v.elts[0]
        seen = 0
        while isinstance(txt, ast.Name) and seen < 4:
            vals = [x for _, x in astq.assigns_to(f.node, txt.id)]
            if len(vals) != 1 or vals[0] is None:
                return None, f"{f.qualname}: the replacement text `{txt.id}` is bound in a shape that is not understood"
            txt, seen = vals[0], seen + 1
        if isinstance(txt, ast.Constant) and isinstance(txt.value, str):
            if any(0xD800 <= ord(ch) <= 0xDFFF for ch in txt.value):
                return False, f"{f.qualname} hands back a constant with a lone surrogate"
            continue
        if isinstance(txt, ast.Call):
            cfq = repo.resolve(f.module, dotted(txt.func) or "?", li)
            if cfq in ("urllib.parse.quote", "urllib.parse.quote_plus", "urllib.parse.quote_from_bytes"):
                continue
        return None, f"{f.qualname}: the replacement text `{norm(txt)[:50]}` is neither a constant nor a percent-quoted text"
    return True, f"{f.qualname} hands back percent-quoted (ASCII) text"


def _extended_reach(eff: Effects, roots: list[FuncInfo]) -> dict[str, FuncInfo]:
    """everything reachable from the entry points and from the constructors of the two Request classes (they decode the
    CGI variables before any attribute is read)."""
    repo = eff.repo
    stack = list(roots)
    for cfq in ("sansio.request.Request", "wrappers.request.Request"):
        o, w = repo.lookup(repo.cls(cfq), "__init__")
        if isinstance(w, FuncInfo):
            stack.append(w)
    out: dict[str, FuncInfo] = {}
    while stack:
        f = stack.pop()
        if f.fq in out:
            continue
        out[f.fq] = f
        stack.extend(g for g, _ in eff.callees(f))
    return out


def _decode_sites(eff: Effects, f: FuncInfo, folder: Folder | None = None) -> list[tuple[ast.Call, str | None, ast.AST | None, str]]:
    """(call, encoding or None when not constant, errors expression or None when left out, default handler) for every
    operation in f that makes text from bytes / percent-escapes under an errors handler."""
    out = []
    li = f.module.local_imports(f.node)
    for c in walk_no_nested(f.node):
        if not isinstance(c, ast.Call):
            continue
        d = dotted(c.func)
        fq = eff.repo.resolve(f.module, d, li) if d else None
        cp = codec_parts(c, fq)
        cc = codec_call(c, fq)
        if cp is not None and cc is not None and cc[0] == "decode":
            if isinstance(c.func, ast.Attribute) and fq and fq.startswith("werkzeug."):
                continue
            err = cp[3]
            if cp[4] and (err is None or cp[2] is None):
                raise AnalysisError(f"C07 R7.3: {f.qualname}: `{norm(c)[:60]}` passes its arguments by unpacking: the errors handler is not known")
            out.append((c, cc[2], err, "strict"))
        elif fq in TEXT_DECODERS:
            pos, default = TEXT_DECODERS[fq]
            err, understood = _errors_expr(folder, f, c, pos) if folder is not None else (_arg(c, pos, "errors"), not _opaque_args(c))
            if not understood:
                raise AnalysisError(f"C07 R7.3: {f.qualname}: `{norm(c)[:60]}` passes its arguments by unpacking: the errors handler is not known")
            out.append((c, None if fq != "codecs.decode" else "?", err, default))
    return out


def _r73_surrogates(ctx: Ctx, eff: Effects, texts: "_Texts", registered_fn: dict) -> t.Callable:
    """the value of the errors handler at every decode: none that plants lone surrogates into a text (the premise under
    which R7.1's model takes `str.encode()` to UTF-8 and the stdlib's quote() for total)."""
    repo = ctx.repo
    reach = texts.reach
    verdict_cache: dict[str, tuple[bool | None, str]] = {}

    def handler_ok(h: str) -> tuple[bool | None, str]:
        if h not in verdict_cache:
            if h == "strict":
                verdict_cache[h] = (True, "strict: raises instead (R7.1 asks for a handler)")
            elif h in DECODE_CLEAN:
                verdict_cache[h] = (True, f"{h!r} puts no surrogate into the text")
            elif h in SURROGATE_MAKERS:
                verdict_cache[h] = (False, f"{h!r} turns undecodable bytes into lone surrogates (U+DC80..U+DCFF): the text can no longer be encoded as UTF-8 - str.encode() / urllib.parse.quote() of it raise UnicodeEncodeError")
            elif h in ("xmlcharrefreplace", "namereplace"):
                verdict_cache[h] = (False, f"{h!r} handles encoding errors only: the first undecodable byte raises TypeError")
            else:
                okh, why = _handler_replacement_clean(repo, registered_fn, h)
                verdict_cache[h] = (okh, f"{h!r}: {why}") if okh is not None or h in registered_fn else (False, f"{h!r} is not a codecs errors handler known to CPython or registered by the package: the first undecodable byte raises LookupError")
        return verdict_cache[h]

    n = 0
    for fq in sorted(reach):
        f = reach[fq]
        for c, enc, err, default in _decode_sites(eff, f, texts.folder):
            if enc in LATIN1:
                continue  # every byte decodes: the handler is never asked
            vals = {default} if err is None else texts.of(f, err, c)
            if vals is None:
                raise AnalysisError(f"C07 R7.3: {f.qualname}: the errors handler `{norm(err)[:40]}` of `{norm(c)[:60]}` is not a known finite set of constant texts")
            n += 1
            res = [(h, *handler_ok(h)) for h in sorted(vals)]
            unknown = [(h, why) for h, okh, why in res if okh is None]
            bad = [(h, why) for h, okh, why in res if okh is False]
            if unknown and not bad:
                raise AnalysisError(f"C07 R7.3: {f.qualname}: `{norm(c)[:60]}`: {unknown[0][1]}")
            recv = norm(c.func.value)[:40] if isinstance(c.func, ast.Attribute) and c.func.attr == "decode" else norm(c.func)[:40]
            ctx.ob("R7.3", f"{f.qualname}: the errors handler that reaches `{norm(c)[:50]}` puts no lone surrogate into the text", not bad,
                   "; ".join(why for _, why in bad) or f"handler value(s) {sorted(vals)}: " + "; ".join(why for _, _, why in res), f, c, f"{f.fq} decode of {recv} surrogate-free")
    ctx.floor("R7.3", "decoding operations under an errors handler on the request path", n, 8)
    return handler_ok


def _r73(ctx: Ctx, eff: Effects, folder: Folder, registered: set[str], flow: Flow, texts: "_Texts", registered_fn: dict) -> None:
    repo = ctx.repo
    handler_ok = _r73_surrogates(ctx, eff, texts, registered_fn)
    for fq, kind, name in (("_internal._DictAccessorProperty.__get__", "attr", "load_func"), ("datastructures.structures.TypeConversionDict.get", "param", "type")):
        f = repo.func(fq)
        cs = _conversion_calls(f, kind, name)
        if not cs:
            raise AnalysisError(f"C07 R7.3: no call of the converter `{name}` found in {f.qualname}")
        leaks = [f"{norm(c)[:40]} lets {x} escape" for c in cs for x in ("ValueError", "TypeError") if eff.uncaught(f, c, x)]
        ctx.ob("R7.3", f"{f.qualname} falls back on (ValueError, TypeError) from the conversion", not leaks, f"{len(cs)} call(s) of the converter `{name}`, each inside handler(s) that catch ValueError and TypeError without re-raising" if not leaks else "; ".join(leaks), f, f.node, f"{fq} conversion fallback")
    nq = 0
    for fq in ("sansio.request.Request.args", "formparser.FormDataParser._parse_urlencoded"):
        f = repo.func(fq)
        # the query-string decoder the function runs: in the function itself or in a package helper it calls (two levels)
        where: list[FuncInfo] = [f]
        for _ in range(2):
            for g_ in list(where):
                for h, _n in eff.callees(g_):
                    if h not in where and h.fq.startswith("werkzeug."):
                        where.append(h)
        for g_ in where:
            li = flow.local_imports(g_)
            for c in walk_no_nested(g_.node):
                d = dotted(c.func) if isinstance(c, ast.Call) else None
                if not d or repo.resolve(g_.module, d, li) not in ("urllib.parse.parse_qsl", "urllib.parse.parse_qs"):
                    continue
                nq += 1
                e, understood = _errors_expr(folder, g_, c, 4)
                vals = texts.of(g_, e, c) if e is not None else {"replace"}
                if not understood or vals is None:
                    raise AnalysisError(f"C07 R7.3: {g_.qualname}: the errors handler of `{norm(c)[:60]}` is not a known finite set of constant texts")
                ok = all(v in registered for v in vals)
                ctx.ob("R7.3", f"{f.qualname}: parse_qsl decodes with a registered lenient handler", ok, f"errors={norm(e) if e is not None and not isinstance(e, _AnyOf) else None if e is None else 'one of several'} (value(s) {sorted(vals)}); registered handlers: {sorted(registered)}", g_, c, f"{fq} parse_qsl errors")
    ctx.floor("R7.3", "parse_qsl calls", nq, 2)
    dd = repo.func("_internal._wsgi_decoding_dance")
    # the decoding may sit in the function itself or in the package helpers it hands the value to (two levels)
    where: list[FuncInfo] = [dd]
    for _ in range(2):
        for g_ in list(where):
            for h, _n in eff.callees(g_):
                if h not in where and h.fq.startswith("werkzeug."):
                    where.append(h)
    found = [(g_, site) for g_ in where for site in _decode_sites(eff, g_, folder)]
    if not found:
        raise AnalysisError("C07 R7.3: no decoding operation found in _wsgi_decoding_dance (or in the helpers it calls)")
    seen_vals = []
    ok = True
    for g_, (c, enc, err, default) in found:
        if enc in LATIN1:
            seen_vals.append((norm(c)[:40], enc, "any"))
            continue
        vals = {default} if err is None else texts.of(g_, err, c)
        cp = codec_parts(c)
        seen_vals.append((norm(cp[1] if cp is not None else c.args[0] if c.args else c)[:40], enc, sorted(vals) if vals is not None else None))
        # lenient and harmless: a handler that neither raises nor plants lone surrogates (value of the handler, not its spelling)
        ok = ok and vals is not None and all(h != "strict" and handler_ok(h)[0] is True for h in vals)
    ctx.ob("R7.3", "_wsgi_decoding_dance decodes with errors='replace'", ok, f"{seen_vals}", dd, dd.node, "decoding dance lenient")
