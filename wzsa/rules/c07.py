"""C07 - no client-controlled header or query text can crash request parsing (exception-effect analysis)."""

from __future__ import annotations

import ast
import re

from .. import astq
from ..cfg import cfg_of
from ..effects import INF, MODEL_DOC, Effects, Flow, Site, const_int, const_text
from ..fold import Folder, sre_c, width
from ..loader import AnalysisError, ClassInfo, FuncInfo, dotted, norm, walk_no_nested
from ..report import Ctx
from .c07_reviewed import A, p_form_parser_silent, review

LEVEL_TEXT = (
    "Static exception-effect analysis for C07 on /repo's current source. Entry points are enumerated from the source: the "
    "15 parse_* functions of werkzeug.http, Authorization/WWWAuthenticate.from_header, and every property, cached_property, "
    "header_property and environ_property of sansio.Request and wrappers.Request. (R7.1) Over the resolved call graph from "
    "these entry points (incl. self.<property>.<method>() on the class the property's getter constructs and the "
    "io.RawIOBase read -> readall/readinto dispatch), every explicit raise and every modelled failing operation of "
    "builtins/stdlib (int/float of a str, strict decode/encode, base64, urlsplit/.port, parsedate_to_datetime, timedelta, "
    "next, index, split-unpack, constant index, Optional match, assert, Enum(value), to_bytes, and read(n)/bytearray(n)/"
    "bytes(n) whose size provably flows unbounded from a text->int conversion of client text) either raises a werkzeug "
    "HTTPException, or is covered by an enclosing handler on every call path (real exception lattice), or by a guard idiom, "
    "or by a reviewed role. Guard idioms and roles do not match source text: the operand is identified by data flow "
    "(reaching definitions, tuple/list/dict projections, regex group widths, parameter binding to the call sites on the "
    "escaping chain, return values of package helpers) and the dominating conditions are compared as canonical atoms with "
    "local aliases / boolean flags expanded and a freshness check (no rebinding of a tested name between test and use), "
    "including tests in the caller of a helper and the conditions of enclosing conditional expressions. A reviewed role "
    "(input-model latin-1 text, application flag, abstract method, application's own value, Accept pair, fallback search, "
    "regex-matched number, octal escape, ASCII bytes, range constructor, validated constructor) re-establishes its premise "
    "on every run on the code as it is shaped now; a premise anchor of an unknown shape is ANALYSIS-ERROR, a false premise "
    "a violation. A new risky site is reported until reviewed (fail-closed). (R7.2) every while loop reachable from an "
    "entry point passes, on every path back to its head, a statement that strictly advances (positive increment, slice "
    "with a lower bound >= 1, match.end() of a pattern that cannot match empty there) or a reviewed progress maker "
    "identified by what it calls (MultipartDecoder.next_event with a NEED_DATA exit; a stream read with an exit on the "
    "empty read). (R7.3) the lenient decoders named by the property keep their fallbacks. Not decided: operations outside "
    "the model (variable-key mapping lookups, attribute errors other than Optional regex matches, sizes whose origin is "
    "not provably a parsed client integer), termination of library regex engines, resource exhaustion in general."
)
TRUSTED = [
    "CPython ast and the builtin exception class hierarchy",
    "the library model table (wzsa/effects.py MODEL_DOC), each entry a documented fact about CPython 3.12",
    "name resolution of calls by the loader (unresolved dynamic calls are listed in the evidence)",
    "fixed-arity tuple annotations of parameters (tuple[str, int | None]) for server / application supplied values",
]
ASSUMPTIONS = [
    "input model: client-controlled values are latin-1 str without control characters; server-controlled environ keys (wsgi.*, SERVER_NAME/PORT, SCRIPT_NAME, REQUEST_METHOD) are present and well-formed",
    "application-supplied callables (type= converters, cls= factories, user_agent_class) are outside the claim",
    "RecursionError / MemoryError are out of model, except the size kind above",
    "containers are followed by their local name: aliasing of a list / dict under a second name inside one function is not tracked",
]

PARSERS = [
    "parse_options_header", "parse_list_header", "parse_dict_header", "parse_set_header", "parse_accept_header",
    "parse_cache_control_header", "parse_csp_header", "parse_etags", "parse_range_header", "parse_content_range_header",
    "parse_if_range_header", "parse_date", "parse_age", "parse_cookie",
]


def entry_points(ctx: Ctx, eff: Effects) -> list[tuple[str, list[FuncInfo], FuncInfo | str, ast.AST | None]]:
    """(label, functions run, where, node)"""
    repo = ctx.repo
    out = []
    for p in PARSERS:
        f = repo.func(f"http.{p}")
        out.append((f"http.{p}", [f], f, f.node))
    out.append(("sansio.http.parse_cookie", [repo.func("sansio.http.parse_cookie")], repo.func("sansio.http.parse_cookie"), None))
    for cn in ("Authorization", "WWWAuthenticate"):
        f = repo.func(f"datastructures.auth.{cn}.from_header")
        out.append((f"{cn}.from_header", [f], f, f.node))
    # the Accept classes' membership / best_match (named by the property)
    for cn in ("Accept", "MIMEAccept", "LanguageAccept", "CharsetAccept"):
        c = repo.cls(f"datastructures.accept.{cn}")
        for mn in ("best_match", "__contains__", "quality", "find", "__getitem__", "best"):
            o, w = repo.lookup(c, mn)
            if isinstance(w, FuncInfo):
                out.append((f"{cn}.{mn}", [w], w, w.node))
    for cfq in ("sansio.request.Request", "wrappers.request.Request"):
        c = repo.cls(cfq)
        seen = set()
        for k in repo.mro(c):
            if not isinstance(k, ClassInfo) or not k.fq.startswith("werkzeug."):
                continue
            for name, fi in k.methods.items():
                if "." in name or name in seen:
                    continue
                if any(d.rsplit(".", 1)[-1] in ("property", "cached_property") for d in fi.decorators):
                    o, w = repo.lookup(c, name)
                    if w is fi:
                        seen.add(name)
                        out.append((f"{c.name}({c.module.name.rsplit('.', 2)[-2]}).{name}", [fi], fi, fi.node))
            for name, v in k.attrs.items():
                if name in seen or not isinstance(v, ast.Call):
                    continue
                f = v.func.value if isinstance(v.func, ast.Subscript) else v.func
                dn = (dotted(f) or "").rsplit(".", 1)[-1]
                if dn in ("header_property", "environ_property"):
                    o, w = repo.lookup(c, name)
                    if w is v:
                        seen.add(name)
                        getter = repo.func("_internal._DictAccessorProperty.__get__")
                        out.append((f"{c.name}({c.module.name.rsplit('.', 2)[-2]}).{name}", [getter] + eff.descriptor_funcs(k, v), k.fq, v))
    return out


def run(ctx: Ctx) -> None:
    repo = ctx.repo
    ctx.rule("R7.1", "no exception outside werkzeug's HTTPException family escapes an entry point: every raising site reachable from it is covered by a handler on the path, a dominating guard idiom, or a reviewed role whose premise is re-established on the current code")
    ctx.rule("R7.2", "every while loop reachable from an entry point makes progress on every path through its body")
    ctx.rule("R7.3", "the lenient decoders keep their fallbacks: (ValueError, TypeError) around conversions in _DictAccessorProperty.__get__ and TypeConversionDict.get; errors='werkzeug.url_quote' on both parse_qsl calls with that handler registered; _wsgi_decoding_dance decodes with errors='replace'")

    # registered codec error handlers
    registered = set()
    for m in repo.modules.values():
        for c in astq.calls(m.tree):
            if dotted(c.func) in ("codecs.register_error",) and c.args and astq.const_str(c.args[0]):
                registered.add(astq.const_str(c.args[0]))
    eff = Effects(repo, registered)
    folder = Folder(repo)
    ok_silent, guard_txt, why_silent = p_form_parser_silent(ctx, folder)
    ctx.ob("R7.1", "form parsing on the request path runs in silent mode (its ValueError handler does not re-raise)", ok_silent, why_silent, repo.func("formparser.FormDataParser.parse"), None, "form parser silent mode")
    if ok_silent and guard_txt:
        eff.dead_reraise_guards.add(guard_txt)
    entries = entry_points(ctx, eff)
    ctx.floor("R7.1", "entry points", len(entries), 68)
    roots = []
    for _, fs, _, _ in entries:
        for f in fs:
            if f not in roots:
                roots.append(f)
    eff.reachable(roots)
    flow = Flow(eff, folder, {f.fq for f in roots})

    def size_hook(fi, call, size) -> bool:
        flow.site_ast = call
        try:
            return flow.unbounded_client_int(fi, size, flow.node(fi, call))
        finally:
            flow.site_ast = None

    eff.size_hook = size_hook
    esc = eff.escapes(roots)
    for f in eff.reach.values():
        ctx.saw(f)
    an = A(ctx, eff, folder, flow)

    # one obligation per (origin site, exception) that is not an allowed HTTPException and that escapes at least one entry point
    origins: dict[tuple[str, str, str], tuple[Site, str, list[str]]] = {}
    for label, fs, where, node in entries:
        escaping = set()
        for f in fs:
            escaping |= esc[f.fq]
        # descriptor entry: the conversion runs inside __get__'s (ValueError, TypeError) handler
        if len(fs) > 1:
            getter = fs[0]
            conv_call = [c for c in astq.calls(getter.node) if isinstance(c.func, ast.Attribute) and c.func.attr == "load_func"]
            filtered = set(esc[getter.fq])
            for f in fs[1:]:
                for s, e in esc[f.fq]:
                    if conv_call and eff.uncaught(getter, conv_call[0], e):
                        filtered.add((s, e))
            escaping = filtered
        for s, e in escaping:
            if eff.lat.allowed(e):
                continue
            key = (s.func.fq, s.text, e)
            if key not in origins:
                origins[key] = (s, e, [])
            origins[key][2].append(label)

    n_rev = n_guard = 0
    for key in sorted(origins):
        s, e, labels = origins[key]
        flow.cur = (s, e)
        flow.site_ast = s.node
        try:
            how = _guard_idiom(an, s, e)
            if how:
                n_guard += 1
                ctx.ob("R7.1", f"{s.func.qualname}: `{s.text}` may raise {e}", True, f"discharged by guard idiom: {how}", s.func, s.node, f"{s.text} raises {e}")
                continue
            rv = review(an, s, e)
        finally:
            flow.cur = None
            flow.site_ast = None
        if rv is not None:
            role, ok, reason = rv
            n_rev += 1
            ctx.ob("R7.1", f"{s.func.qualname}: `{s.text}` may raise {e}", ok, (f"reviewed role '{role}': " if ok else f"reviewed role '{role}': premise does not hold: ") + reason, s.func, s.node, f"{s.text} raises {e}")
            continue
        root = next((fs[0] for lab, fs, _, _ in entries if lab == labels[0]), None)
        chain = " -> ".join(x.replace("werkzeug.", "") for x in (eff.chain(root, s, e) if root is not None else []))
        doc = MODEL_DOC.get(s.kind, "explicit raise")
        ctx.ob(
            "R7.1", f"{s.func.qualname}: `{s.text}` may raise {e}", False,
            f"{e} escapes {len(labels)} entry point(s) (e.g. {', '.join(sorted(set(labels))[:4])}) uncaught; chain: {chain}; model: {doc}",
            s.func, s.node, f"{s.text} raises {e}",
        )
    ctx.extra["c07"] = {
        "entry_points": len(entries), "functions_reachable": len(eff.reach),
        "raising_sites_modelled": sum(len(eff.sites(f)) for f in eff.reach.values()),
        "origins_escaping_some_entry": len(origins), "by_guard_idiom": n_guard, "by_reviewed_role": n_rev,
        "unresolved_calls": {k: v for k, v in eff.unresolved.items() if v and k in eff.reach},
    }
    _r72(an)
    _r73(ctx, registered)


# ---------------------------------------------------------------------
# guard idioms: canonical atoms that dominate the use (fresh: no rebinding in between), value origins across helpers


def _guard_idiom(an: A, s: Site, e: str) -> str | None:
    fi = s.func
    flow = an.flow
    node = flow.node(fi, s.node)
    if node is None:
        return None
    if s.kind == "match-attr":
        nm = s.node.value.id  # type: ignore[attr-defined]
        at = flow.holds(fi, node, lambda at: (at.op == "truthy" and at.truth and norm(at.a) == nm) or (at.op == "is" and not at.truth and norm(at.a) == nm and astq.is_none(at.b)))
        if at is not None:
            return f"`{norm(at.test.ast)}` is {at.label} on every path to the use and `{nm}` is not rebound in between"
        return None
    if s.kind == "unpack-split":
        call = s.node.value  # type: ignore[attr-defined]
        k = len(s.node.targets[0].elts)  # type: ignore[attr-defined]
        sep = const_text(call.args[0]) if call.args else None
        mx = const_int(astq.arg_or_kw(call, 1, "maxsplit"))
        if sep and k == 2 and mx == 1:
            if sep in flow.contained(fi, call.func.value, node):
                return f"`{sep!r} in {norm(call.func.value)}` is established on every path to the unpacking (dominating test, or at every call site for a parameter)"
        return None
    if s.kind == "const-index":
        sub = s.node
        val = const_int(sub.slice)  # type: ignore[attr-defined]
        if val is None:
            return None
        need = val + 1 if val >= 0 else -val
        got = flow.minlen(fi, sub.value, node)  # type: ignore[attr-defined]
        if got >= need:
            return f"`{norm(sub.value)}` has at least {got if got < INF else 'any number of'} element(s) on every path (value origins: tuple / split / regex group widths, dominating tests, call sites): index {val} exists"  # type: ignore[attr-defined]
        return None
    return None


# ---------------------------------------------------------------------
# R7.2 loop progress


NEXT_EVENT = "werkzeug.sansio.multipart.MultipartDecoder.next_event"


def _r72(an: A) -> None:
    ctx = an.ctx
    n = 0
    for f in an.eff.reach.values():
        for w in walk_no_nested(f.node):
            if not isinstance(w, ast.While):
                continue
            n += 1
            ok, why = _progress(an, f, w)
            ctx.ob("R7.2", f"{f.qualname}: `while {norm(w.test)[:40]}` makes progress", ok, why, f, w, f"while {norm(w.test)[:60]}")
    ctx.floor("R7.2", "while loops reachable from entry points", n, 3)


def _leaves_loop(cfg, tn, label: str, body_ids: set[int]) -> bool:
    succ = cfg.succ(tn, label)
    return bool(succ) and all(x.ast is None or id(x.ast) not in body_ids or isinstance(x.ast, ast.Break) for x in succ)


def _every_cycle_passes(cfg, p, through, head, body_ids: set[int]) -> bool:
    """inside the loop, p cannot be reached again from its successors without passing `through`."""
    if p is through:
        return True
    outside = [n for n in cfg.nodes if n is not head and (n.ast is None or id(n.ast) not in body_ids)]
    starts = [x for x, _ in p.succs if x is not through and x not in outside]
    if not starts:
        return True
    return p.id not in cfg.reach(starts, avoid_nodes=[through] + outside)


def _progress(an: A, f: FuncInfo, w: ast.While) -> tuple[bool, str]:
    """every path through the body either leaves the loop or passes a statement that strictly advances."""
    ctx, flow = an.ctx, an.flow
    cfg = cfg_of(f)
    heads = cfg.by_ast.get(id(w)) or []
    if not heads:
        return False, "no CFG node"
    head = heads[0]
    body_ids = {id(x) for st in w.body for x in ast.walk(st)} | {id(x) for x in ast.walk(w.test)}
    rd = flow.rd(f)
    prog_nodes = []
    facts = []
    for n_ in cfg.nodes:
        a = n_.ast
        if a is None or id(a) not in body_ids or n_ is head:
            continue
        if n_.kind not in ("stmt", "test"):
            continue
        if isinstance(a, ast.AugAssign) and isinstance(a.op, ast.Add) and isinstance(a.target, ast.Name):
            lb = flow.int_lb(f, a.value, n_)
            if lb is not None and lb >= 1:
                prog_nodes.append(n_)
                facts.append(norm(a))
                continue
        if isinstance(a, ast.Assign) and len(a.targets) == 1 and _slice_of(a.value) is not None and norm(a.targets[0]) == norm(_slice_of(a.value).value) and _slice_of(a.value).slice.lower is not None and _slice_of(a.value).slice.step is None:
            lo = _slice_of(a.value).slice.lower
            good = None
            if isinstance(lo, ast.Call) and isinstance(lo.func, ast.Attribute) and lo.func.attr == "end" and not lo.args:
                rx = flow.regex_of_match(f, lo.func.value, n_)
                if rx is not None and width(rx)[0] >= 1 and _match_at_start(flow, f, lo.func.value, n_, a.targets[0]):
                    good = f"{norm(a)} (pattern min width >= 1)"
            else:
                lb = flow.int_lb(f, lo, n_)
                if lb is not None and lb >= 1:
                    good = f"{norm(a)} (lower bound >= {lb if lb < INF else 1})"
            if good:
                prog_nodes.append(n_)
                facts.append(good)
                continue
        if isinstance(a, ast.Assign) and len(a.targets) == 1 and isinstance(a.targets[0], ast.Name) and isinstance(a.value, ast.Call) and isinstance(a.value.func, ast.Attribute) and a.value.func.attr == "end" and not a.value.args:
            how = _end_progress(an, f, n_, a.targets[0].id, a.value.func.value)
            if how:
                prog_nodes.append(n_)
                facts.append(f"{norm(a)} ({how})")
                continue
        # reviewed progress makers, identified by what is called
        for c in [x for x in ([a] if isinstance(a, ast.Call) else []) + list(walk_no_nested(a)) if isinstance(x, ast.Call)]:
            how = _event_progress(an, f, w, head, body_ids, n_, c) or _stream_read_progress(an, f, w, head, body_ids, n_, c)
            if how:
                prog_nodes.append(n_)
                facts.append(how)
                break
    starts = [s for s, l in head.succs if s not in prog_nodes]
    r = cfg.reach(starts, avoid_nodes=prog_nodes + [head]) if starts else set()
    stuck = [p for p, _ in head.preds if p.ast is not None and id(p.ast) in body_ids and p.id in r and p not in prog_nodes]
    if stuck:
        return False, f"an iteration can return to the loop head without progress (e.g. after `{stuck[0].text()[:50]}`); progress statements: {facts}"
    return True, f"every iteration passes one of: {facts}" if facts else "loop body always leaves the loop"


def _match_at_start(flow: Flow, f: FuncInfo, m: ast.AST, node, target: ast.AST) -> bool:
    """the match object comes from R.match(<target>) / R.search(<target>): its end() counts from the start of target."""
    if not isinstance(m, ast.Name):
        return False
    for d in flow.rd(f).reaching(node, m.id):
        v = d.value
        if not (d.kind in ("assign", "walrus") and isinstance(v, ast.Call) and len(v.args) == 1 and norm(v.args[0]) == norm(target)):
            return False
    return True


def _empty_needs_end(seq) -> bool:
    """the sequence can match the empty string only by passing an end-of-string assertion."""
    for op, av in seq:
        if op is sre_c.AT:
            if av in (sre_c.AT_END, sre_c.AT_END_STRING):
                return True
            continue
        if op in (sre_c.MAX_REPEAT, sre_c.MIN_REPEAT):
            if av[0] >= 1 and (av[2].getwidth()[0] >= 1 or _empty_needs_end(av[2])):
                return True
            continue
        if op is sre_c.SUBPATTERN:
            if av[3].getwidth()[0] >= 1 or _empty_needs_end(av[3]):
                return True
            continue
        if op is sre_c.BRANCH:
            if all(b.getwidth()[0] >= 1 or _empty_needs_end(b) for b in av[1]):
                return True
            continue
        if op in (sre_c.ASSERT, sre_c.ASSERT_NOT, sre_c.GROUPREF, sre_c.GROUPREF_EXISTS):
            continue
        return True  # literal / class / any: width >= 1
    return False


def _end_progress(an: A, f: FuncInfo, node, pos: str, m: ast.AST) -> str | None:
    """`pos = M.end()` where M = R.match(S, pos): strictly greater than pos when R cannot match empty there."""
    flow = an.flow
    if not isinstance(m, ast.Name):
        return None
    subj = None
    for d in flow.rd(f).reaching(node, m.id):
        v = d.value
        if not (d.kind in ("assign", "walrus") and isinstance(v, ast.Call) and isinstance(v.func, ast.Attribute) and v.func.attr in ("match", "search") and len(v.args) == 2 and isinstance(v.args[1], ast.Name) and v.args[1].id == pos):
            return None
        if subj is not None and subj != norm(v.args[0]):
            return None
        subj = norm(v.args[0])
    rx = flow.regex_of_match(f, m, node)
    if rx is None or subj is None:
        return None
    if width(rx)[0] >= 1:
        return "pattern min width >= 1"
    if rx.flags & re.M:
        return None
    try:
        tail = _empty_needs_end(rx.parsed())
    except Exception:
        return None
    if not tail:
        return None
    # an empty match needs `$` at pos, i.e. pos == len(S): excluded by the loop test pos < len(S)
    at = flow.holds(f, node, lambda at: at.op == "lt" and at.truth and norm(at.a) == pos and norm(at.b) == f"len({subj})")
    if at is None:
        return None
    return f"an empty match of {rx.pattern!r} needs `$` at {pos} (no re.M; no newline in the input model), excluded by `{norm(at.test.ast)}`"


def _event_progress(an: A, f: FuncInfo, w: ast.While, head, body_ids, node, call: ast.Call) -> str | None:
    """the loop that drains MultipartDecoder.next_event(): every cycle asks for a new event and leaves on NEED_DATA."""
    flow = an.flow
    gs = flow.resolve_callee(f, call)
    if not any(g.fq == NEXT_EVENT for g in gs):
        return None
    cfg = cfg_of(f)
    li = f.module.local_imports(f.node)
    for tn in cfg.nodes:
        if tn.kind != "test" or id(tn.ast) not in body_ids:
            continue
        t_ = tn.ast
        if not (isinstance(t_, ast.Call) and dotted(t_.func) == "isinstance" and len(t_.args) == 2 and isinstance(t_.args[0], ast.Name)):
            continue
        types = t_.args[1].elts if isinstance(t_.args[1], ast.Tuple) else [t_.args[1]]
        if not any((an.repo.resolve(f.module, dotted(x) or "?", li) or "").endswith(".NeedData") for x in types):
            continue
        if not _leaves_loop(cfg, tn, "T", body_ids):
            continue
        defs = flow.rd(f).reaching(tn, t_.args[0].id)
        if not defs or not all(d.kind in ("assign", "walrus") and isinstance(d.value, ast.Call) and any(g.fq == NEXT_EVENT for g in flow.resolve_callee(f, d.value)) for d in defs):
            continue
        if not _every_cycle_passes(cfg, node, tn, head, body_ids):
            continue
        ok, why = _next_event_premise(an)
        if not ok:
            return None
        return f"`{norm(call)}` (reviewed: every event other than NEED_DATA comes with a buffer deletion or a state change, so a bounded buffer yields finitely many events; the loop leaves on `{norm(t_)}`) [{why}]"
    return None


def _next_event_premise(an: A) -> tuple[bool, str]:
    f = an.repo.func("sansio.multipart.MultipartDecoder.next_event")
    cfg = cfg_of(f)
    sn = f.params[0]
    rets = astq.returns_of(f.node)
    names = {r.value.id for r in rets if isinstance(r.value, ast.Name)}
    if len(names) != 1 or len(names) != len({norm(r.value) for r in rets if r.value is not None}):
        raise AnalysisError("C07 next_event: the returned event is not a single local name")
    ev = names.pop()
    prog = [n for n in cfg.nodes if (isinstance(n.ast, ast.Delete) and any(isinstance(t_, ast.Subscript) and astq.is_self_attr(t_.value, "buffer", sn) for t_ in n.ast.targets)) or (isinstance(n.ast, ast.Assign) and any(astq.is_self_attr(t_, "state", sn) for t_ in n.ast.targets))]
    facts = []
    ok = True
    nev = 0
    for n in cfg.nodes:
        for d in an.flow.rd(f).gen.get(n.id, []):
            if d.name != ev:
                continue
            if d.kind == "assign" and d.index is None and isinstance(d.value, ast.Name):
                continue  # the NEED_DATA default
            if not (d.kind == "assign" and d.index is None and isinstance(d.value, ast.Call)):
                raise AnalysisError(f"C07 next_event: `{norm(d.stmt)[:50]}` binds the event in a shape that is not understood")
            nev += 1
            good = cfg.all_paths_pass(cfg.entry, [n], prog) or cfg.all_paths_pass(n, [cfg.exit], prog)
            facts.append(f"{norm(d.value.func)}: {good}")
            ok = ok and good
    if not nev:
        raise AnalysisError("C07 next_event: no event construction found")
    return ok, "event construction accompanied by a buffer deletion / state change on every path: " + ", ".join(facts)


def _stream_read_progress(an: A, f: FuncInfo, w: ast.While, head, body_ids, node, call: ast.Call) -> str | None:
    """the loop that reads chunks from the request stream and leaves on an empty read."""
    flow = an.flow
    fn = call.func
    is_read = (isinstance(fn, ast.Attribute) and fn.attr == "read") or (isinstance(fn, ast.Name) and fn.id in f.params and _bound_to_read(an, f, fn.id))
    if not is_read:
        return None
    cfg = cfg_of(f)
    for tn in cfg.nodes:
        if tn.kind != "test" or id(tn.ast) not in body_ids:
            continue
        t_ = tn.ast
        nm = t_.target.id if isinstance(t_, ast.NamedExpr) else t_.id if isinstance(t_, ast.Name) else None
        if nm is None or not _leaves_loop(cfg, tn, "F", body_ids):
            continue
        if isinstance(t_, ast.NamedExpr):
            fresh = t_.value is call
        else:
            defs = flow.rd(f).reaching(tn, nm)
            fresh = bool(defs) and all(d.kind in ("assign", "walrus") and d.value is call for d in defs)
        if not fresh or not _every_cycle_passes(cfg, node, tn, head, body_ids):
            continue
        return f"`{norm(call)}` (reviewed: each iteration reads from the request stream, which is finite (C09 bounds it); the loop leaves when the read is empty: `{norm(t_)}` false)"
    return None


def _bound_to_read(an: A, f: FuncInfo, pname: str) -> bool:
    """a callable parameter that every call site on the request path binds to <stream>.read."""
    cal = an.flow.callers(f)
    if not cal:
        return False
    for g, n, kind in cal:
        b = an.flow.bind(f, n, pname) if kind == "call" else None
        if b is None or b[0] != "arg" or not (isinstance(b[1], ast.Attribute) and b[1].attr == "read"):
            return False
    return True


def _slice_of(v: ast.AST):
    """x[a:] possibly wrapped in .lstrip()/.strip()/.rstrip() (which only remove more)."""
    while isinstance(v, ast.Call) and isinstance(v.func, ast.Attribute) and v.func.attr in ("lstrip", "strip", "rstrip") :
        v = v.func.value
    if isinstance(v, ast.Subscript) and isinstance(v.slice, ast.Slice):
        return v
    return None


# ---------------------------------------------------------------------
# R7.3


def _r73(ctx: Ctx, registered: set[str]) -> None:
    repo = ctx.repo
    for fq, call_text in (("_internal._DictAccessorProperty.__get__", "self.load_func"), ("datastructures.structures.TypeConversionDict.get", "type")):
        f = repo.func(fq)
        ok = False
        for c in astq.calls(f.node):
            if norm(c.func) == call_text:
                tr = astq.enclosing(c, (ast.Try,))
                if isinstance(tr, ast.Try):
                    names = set()
                    for h in tr.handlers:
                        for e in (h.type.elts if isinstance(h.type, ast.Tuple) else [h.type]) if h.type is not None else []:
                            names.add(dotted(e))
                    ok = {"ValueError", "TypeError"} <= names or "Exception" in names
        ctx.ob("R7.3", f"{f.qualname} falls back on (ValueError, TypeError) from the conversion", ok, f"handler around `{call_text}(...)`", f, f.node, f"{fq} conversion fallback")
    nq = 0
    for fq in ("sansio.request.Request.args", "formparser.FormDataParser._parse_urlencoded"):
        f = repo.func(fq)
        for c in astq.name_calls(f.node, "parse_qsl"):
            nq += 1
            e = astq.kwarg(c, "errors")
            ok = e is not None and astq.const_str(e) in registered
            ctx.ob("R7.3", f"{f.qualname}: parse_qsl decodes with a registered lenient handler", ok, f"errors={norm(e) if e is not None else None}; registered handlers: {sorted(registered)}", f, c, f"{fq} parse_qsl errors")
    ctx.floor("R7.3", "parse_qsl calls", nq, 2)
    dd = repo.func("_internal._wsgi_decoding_dance")
    decs = [c for c in astq.method_calls(dd.node, "decode")]
    ok = bool(decs) and all(astq.const_str(astq.arg_or_kw(c, 1, "errors") or ast.Constant(None)) == "replace" for c in decs)
    ctx.ob("R7.3", "_wsgi_decoding_dance decodes with errors='replace'", ok, f"{[norm(c) for c in decs]}", dd, dd.node, "decoding dance lenient")
