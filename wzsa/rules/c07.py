"""C07 - no client-controlled header or query text can crash request parsing (exception-effect analysis)."""

from __future__ import annotations

import ast

from .. import astq
from ..cfg import cfg_of
from ..dataflow import ReachingDefs
from ..effects import MODEL_DOC, Effects, Site
from ..fold import Folder, RegexConst, Unfoldable, classes_in, group_width, single_class, width
from ..loader import AnalysisError, ClassInfo, FuncInfo, dotted, norm, walk_no_nested
from ..report import Ctx
from .c07_reviewed import REVIEWED, check_premise

LEVEL_TEXT = (
    "Static exception-effect analysis for C07 on /repo's current source. Entry points are enumerated from the source: the "
    "15 parse_* functions of werkzeug.http, Authorization/WWWAuthenticate.from_header, and every property, cached_property, "
    "header_property and environ_property of sansio.Request and wrappers.Request. (R7.1) Over the resolved call graph from "
    "these entry points, every explicit raise and every modelled failing operation of builtins/stdlib (int/float of a str, "
    "strict decode/encode, base64, urlsplit/.port, parsedate_to_datetime, timedelta, next, index, split-unpack, constant "
    "index, Optional match, assert, Enum(value), to_bytes ...) either raises a werkzeug HTTPException, or is covered by an "
    "enclosing handler on every call path (real exception lattice), or by a recognised dominating guard idiom, or by a "
    "line of the reviewed table whose premise (a structural fact about other code) is re-checked on every run. A new "
    "risky site is reported until reviewed (fail-closed). (R7.2) every while loop reachable from an entry point has a "
    "progress argument. (R7.3) the lenient decoders named by the property keep their fallbacks. Not decided: operations "
    "outside the model (variable-key mapping lookups, attribute errors other than Optional regex matches), termination of "
    "library regex engines, resource exhaustion."
)
TRUSTED = ["CPython ast and the builtin exception class hierarchy", "the library model table (wzsa/effects.py MODEL_DOC), each entry a documented fact about CPython 3.12", "name resolution of calls by the loader (unresolved dynamic calls are listed in the evidence)"]
ASSUMPTIONS = [
    "input model: client-controlled values are latin-1 str without control characters; server-controlled environ keys (wsgi.*, SERVER_NAME/PORT, SCRIPT_NAME, REQUEST_METHOD) are present and well-formed",
    "application-supplied callables (type= converters, cls= factories, user_agent_class) are outside the claim",
    "RecursionError / MemoryError are out of model",
]

PARSERS = [
    "parse_options_header", "parse_list_header", "parse_dict_header", "parse_set_header", "parse_accept_header",
    "parse_cache_control_header", "parse_csp_header", "parse_etags", "parse_range_header", "parse_content_range_header",
    "parse_if_range_header", "parse_date", "parse_age", "parse_cookie",
]


def entry_points(ctx: Ctx, eff: Effects) -> list[tuple[str, list[FuncInfo], FuncInfo | str, ast.AST | None]]:
    """(label, functions run, where, node)"""
    repo = ctx.repo
    out = []
    for p in PARSERS:
        f = repo.func(f"http.{p}")
        out.append((f"http.{p}", [f], f, f.node))
    out.append(("sansio.http.parse_cookie", [repo.func("sansio.http.parse_cookie")], repo.func("sansio.http.parse_cookie"), None))
    for cn in ("Authorization", "WWWAuthenticate"):
        f = repo.func(f"datastructures.auth.{cn}.from_header")
        out.append((f"{cn}.from_header", [f], f, f.node))
    # the Accept classes' membership / best_match (named by the property)
    for cn in ("Accept", "MIMEAccept", "LanguageAccept", "CharsetAccept"):
        c = repo.cls(f"datastructures.accept.{cn}")
        for mn in ("best_match", "__contains__", "quality", "find", "__getitem__", "best"):
            o, w = repo.lookup(c, mn)
            if isinstance(w, FuncInfo):
                out.append((f"{cn}.{mn}", [w], w, w.node))
    for cfq in ("sansio.request.Request", "wrappers.request.Request"):
        c = repo.cls(cfq)
        seen = set()
        for k in repo.mro(c):
            if not isinstance(k, ClassInfo) or not k.fq.startswith("werkzeug."):
                continue
            for name, fi in k.methods.items():
                if "." in name or name in seen:
                    continue
                if any(d.rsplit(".", 1)[-1] in ("property", "cached_property") for d in fi.decorators):
                    o, w = repo.lookup(c, name)
                    if w is fi:
                        seen.add(name)
                        out.append((f"{c.name}({c.module.name.rsplit('.', 2)[-2]}).{name}", [fi], fi, fi.node))
            for name, v in k.attrs.items():
                if name in seen or not isinstance(v, ast.Call):
                    continue
                f = v.func.value if isinstance(v.func, ast.Subscript) else v.func
                dn = (dotted(f) or "").rsplit(".", 1)[-1]
                if dn in ("header_property", "environ_property"):
                    o, w = repo.lookup(c, name)
                    if w is v:
                        seen.add(name)
                        getter = repo.func("_internal._DictAccessorProperty.__get__")
                        out.append((f"{c.name}({c.module.name.rsplit('.', 2)[-2]}).{name}", [getter] + eff.descriptor_funcs(k, v), k.fq, v))
    return out


def run(ctx: Ctx) -> None:
    repo = ctx.repo
    ctx.rule("R7.1", "no exception outside werkzeug's HTTPException family escapes an entry point: every raising site reachable from it is covered by a handler on the path, a dominating guard idiom, or a reviewed-table line with a re-checked premise")
    ctx.rule("R7.2", "every while loop reachable from an entry point makes progress on every path through its body")
    ctx.rule("R7.3", "the lenient decoders keep their fallbacks: (ValueError, TypeError) around conversions in _DictAccessorProperty.__get__ and TypeConversionDict.get; errors='werkzeug.url_quote' on both parse_qsl calls with that handler registered; _wsgi_decoding_dance decodes with errors='replace'")

    # registered codec error handlers
    registered = set()
    for m in repo.modules.values():
        for c in astq.calls(m.tree):
            if dotted(c.func) in ("codecs.register_error",) and c.args and astq.const_str(c.args[0]):
                registered.add(astq.const_str(c.args[0]))
    eff = Effects(repo, registered)
    folder = Folder(repo)
    ok_silent, why_silent = check_premise(ctx, folder, "form_parser_silent")
    ctx.ob("R7.1", "form parsing on the request path runs in silent mode (its ValueError handler does not re-raise)", ok_silent, why_silent, repo.func("formparser.FormDataParser.parse"), None, "form parser silent mode")
    if ok_silent:
        eff.dead_reraise_guards.add("not self.silent")
    entries = entry_points(ctx, eff)
    ctx.floor("R7.1", "entry points", len(entries), 68)
    roots = []
    for _, fs, _, _ in entries:
        for f in fs:
            if f not in roots:
                roots.append(f)
    esc = eff.escapes(roots)
    for f in eff.reach.values():
        ctx.saw(f)

    # one obligation per (origin site, exception) that is not an allowed HTTPException and that escapes at least one entry point
    origins: dict[tuple[str, str, str], tuple[Site, str, list[str]]] = {}
    for label, fs, where, node in entries:
        escaping = set()
        for f in fs:
            handler_filter = None
            escaping |= esc[f.fq]
        # descriptor entry: the conversion runs inside __get__'s (ValueError, TypeError) handler
        if len(fs) > 1:
            getter = fs[0]
            conv_call = [c for c in astq.calls(getter.node) if norm(c.func) == "self.load_func"]
            filtered = set(esc[getter.fq])
            for f in fs[1:]:
                for s, e in esc[f.fq]:
                    if conv_call and eff.uncaught(getter, conv_call[0], e):
                        filtered.add((s, e))
            escaping = filtered
        for s, e in escaping:
            if eff.lat.allowed(e):
                continue
            key = (s.func.fq, s.text, e)
            if key not in origins:
                origins[key] = (s, e, [])
            origins[key][2].append(label)

    n_rev = n_guard = 0
    for key in sorted(origins):
        s, e, labels = origins[key]
        how = _guard_idiom(ctx, eff, folder, s, e)
        if how:
            n_guard += 1
            ctx.ob("R7.1", f"{s.func.qualname}: `{s.text}` may raise {e}", True, f"discharged by guard idiom: {how}", s.func, s.node, f"{s.text} raises {e}")
            continue
        rv = _reviewed(ctx, folder, s, e)
        if rv is not None:
            ok, reason = rv
            n_rev += 1
            ctx.ob("R7.1", f"{s.func.qualname}: `{s.text}` may raise {e}", ok, ("reviewed: " if ok else "reviewed entry's premise no longer holds: ") + reason, s.func, s.node, f"{s.text} raises {e}")
            continue
        root = next((fs[0] for lab, fs, _, _ in entries if lab == labels[0]), None)
        chain = " -> ".join(x.replace("werkzeug.", "") for x in (eff.chain(root, s, e) if root is not None else []))
        doc = MODEL_DOC.get(s.kind, "explicit raise")
        ctx.ob(
            "R7.1", f"{s.func.qualname}: `{s.text}` may raise {e}", False,
            f"{e} escapes {len(labels)} entry point(s) (e.g. {', '.join(sorted(set(labels))[:4])}) uncaught; chain: {chain}; model: {doc}",
            s.func, s.node, f"{s.text} raises {e}",
        )
    ctx.extra["c07"] = {
        "entry_points": len(entries), "functions_reachable": len(eff.reach),
        "raising_sites_modelled": sum(len(eff.sites(f)) for f in eff.reach.values()),
        "origins_escaping_some_entry": len(origins), "by_guard_idiom": n_guard, "by_reviewed_table": n_rev,
        "unresolved_calls": {k: v for k, v in eff.unresolved.items() if v and k in eff.reach},
    }
    # stale reviewed lines are noted (not an error: the risky site may have been removed by a fix)
    used = {(s.func.fq, e) for (s, e, _) in origins.values()}
    _r72(ctx, eff)
    _r73(ctx, registered)


# ---------------------------------------------------------------------
# guard idioms


def _dominating_tests(fi: FuncInfo, node: ast.AST):
    cfg = cfg_of(fi)
    n = cfg.node_of(node)
    if n is None:
        return cfg, None, []
    return cfg, n, cfg.guards(n)


def _tuple_arity_of_call(ctx: Ctx, fi: FuncInfo, call: ast.AST) -> int | None:
    """minimum length of the tuple a call returns, when every return of the (package) callee is a tuple literal."""
    if not isinstance(call, ast.Call):
        return None
    if isinstance(call.func, ast.Attribute) and call.func.attr in ("partition", "rpartition"):
        return 3
    d = dotted(call.func)
    if not d:
        return None
    li = fi.module.local_imports(fi.node)
    fq = ctx.repo.resolve(fi.module, d, li)
    if fq in ("os.path.split", "os.path.splitext", "posixpath.split", "posixpath.splitext"):
        return 2
    f = ctx.repo.try_func(fq) if fq and fq.startswith("werkzeug.") else None
    if f is None:
        return None
    rets = astq.returns_of(f.node)
    ar = []
    for r in rets:
        if isinstance(r.value, ast.Tuple) and not any(isinstance(x, ast.Starred) for x in r.value.elts):
            ar.append(len(r.value.elts))
        else:
            return None
    return min(ar) if ar else None


def _guard_idiom(ctx: Ctx, eff: Effects, folder: Folder, s: Site, e: str) -> str | None:
    fi = s.func
    if s.kind == "match-attr":
        cfg, n, guards = _dominating_tests(fi, s.node)
        nm = s.node.value.id  # type: ignore[attr-defined]
        for t, l in guards:
            txt = norm(t.ast)
            if (txt == nm and l == "T") or (txt == f"{nm} is not None" and l == "T") or (txt == f"{nm} is None" and l == "F"):
                return f"`{txt}` is {l} on every path to the use"
            if isinstance(t.ast, ast.Compare) and isinstance(t.ast.left, ast.NamedExpr) and t.ast.left.target.id == nm and norm(t.ast.comparators[0]) == "None" and ((isinstance(t.ast.ops[0], ast.IsNot) and l == "T") or (isinstance(t.ast.ops[0], ast.Is) and l == "F")):
                return f"walrus test `{txt}` is {l}"
            if isinstance(t.ast, ast.NamedExpr) and t.ast.target.id == nm and l == "T":
                return f"walrus test `{txt}` is true"
        # a loop `while ...: match = P.match(..); if match is None: break` is covered by the above; nothing else accepted
        return None
    if s.kind == "unpack-split":
        call = s.node.value  # type: ignore[attr-defined]
        k = len(s.node.targets[0].elts)  # type: ignore[attr-defined]
        sep = call.args[0] if call.args else None
        recv = norm(call.func.value)
        if sep is not None and k == 2:
            cfg, n, guards = _dominating_tests(fi, s.node)
            for t, l in guards:
                if isinstance(t.ast, ast.Compare) and len(t.ast.ops) == 1 and norm(t.ast.left) == norm(sep) and norm(t.ast.comparators[0]) == recv:
                    if (isinstance(t.ast.ops[0], ast.In) and l == "T") or (isinstance(t.ast.ops[0], ast.NotIn) and l == "F"):
                        return f"`{norm(t.ast)}` is {l} on every path to the unpacking"
        return None
    if s.kind == "const-index":
        sub = s.node
        base = sub.value  # type: ignore[attr-defined]
        idx = sub.slice  # type: ignore[attr-defined]
        val = idx.value if isinstance(idx, ast.Constant) else -idx.operand.value
        need = val + 1 if val >= 0 else -val
        ar = _tuple_arity_of_call(ctx, fi, base)
        if ar is not None and ar >= need:
            return f"base is a call returning a tuple of {ar} element(s)"
        if isinstance(base, ast.Call) and isinstance(base.func, ast.Attribute) and base.func.attr in ("split", "rsplit", "splitlines") and val == 0 and base.func.attr != "splitlines":
            return "str.split always returns at least one element"
        cfg = cfg_of(fi)
        n = cfg.node_of(sub)
        if isinstance(base, ast.Name) and n is not None:
            rd = ReachingDefs(cfg, fi.params)
            defs = rd.reaching(n, base.id)
            if defs and all(d.value is not None and d.index is None and d.kind in ("assign", "walrus") and ((_tuple_arity_of_call(ctx, fi, d.value) or 0) >= need or (isinstance(d.value, ast.Tuple) and len(d.value.elts) >= need) or (val == 0 and isinstance(d.value, ast.Call) and isinstance(d.value.func, ast.Attribute) and d.value.func.attr in ("split", "rsplit"))) for d in defs):
                return f"`{base.id}` is bound to a tuple/split result of sufficient length on every path"
            # for-loop target over a sequence of pairs built in this function is not attempted
        if isinstance(base, ast.Attribute) and astq.is_self_attr(base) and fi.cls is not None:
            # attribute assigned (anywhere in the class) only from tuple-returning calls
            vals = []
            for m in fi.cls.methods.values():
                for st in walk_no_nested(m.node):
                    if isinstance(st, ast.Assign) and any(astq.is_self_attr(tg, base.attr) for tg in st.targets):
                        vals.append((m, st.value))
            if vals and all((_tuple_arity_of_call(ctx, m, v) or 0) >= need for m, v in vals):
                return f"self.{base.attr} is only ever assigned a tuple of sufficient length"
        if n is not None:
            bt = norm(base)
            for t, l in cfg.guards(n):
                txt = norm(t.ast)
                if txt == bt and l == "T" and need == 1:
                    return f"`{bt}` is truthy (non-empty) on every path"
                if isinstance(t.ast, ast.Compare) and len(t.ast.ops) == 1 and norm(t.ast.left) == f"len({bt})" and isinstance(t.ast.comparators[0], ast.Constant) and isinstance(t.ast.comparators[0].value, int):
                    c = t.ast.comparators[0].value
                    op = t.ast.ops[0]
                    lo = None
                    if l == "T":
                        lo = c if isinstance(op, (ast.GtE, ast.Eq)) else c + 1 if isinstance(op, ast.Gt) else None
                    else:
                        lo = c if isinstance(op, ast.Lt) else c + 1 if isinstance(op, ast.LtE) else None
                    if lo is not None and lo >= need:
                        return f"`{txt}` is {l}: length >= {lo}"
        return None
    return None


def _reviewed(ctx: Ctx, folder: Folder, s: Site, e: str):
    for r in REVIEWED:
        if r["func"] == s.func.fq.replace("werkzeug.", "", 1) and r["exc"] == e and (s.text.startswith(r["expr"]) or r["expr"] in s.text):
            prem = r.get("premise")
            if prem:
                ok, why = check_premise(ctx, folder, prem)
                return ok, f"{r['reason']} [premise {prem}: {why}]"
            return True, r["reason"]
    return None


# ---------------------------------------------------------------------
# R7.2 loop progress


def _r72(ctx: Ctx, eff: Effects) -> None:
    n = 0
    for f in eff.reach.values():
        for w in walk_no_nested(f.node):
            if not isinstance(w, ast.While):
                continue
            n += 1
            ok, why = _progress(ctx, f, w)
            if not ok:
                rv = None
                for r in REVIEWED:
                    if r["func"] == f.fq.replace("werkzeug.", "", 1) and r["exc"] == "non-termination" and r["expr"] in norm(w.test) + " :: " + why:
                        rv = r
                if rv is not None:
                    prem = rv.get("premise")
                    if prem:
                        ok, pw = check_premise(ctx, Folder(ctx.repo), prem)
                        why = f"reviewed: {rv['reason']} [premise {prem}: {pw}]"
                    else:
                        ok, why = True, f"reviewed: {rv['reason']}"
            ctx.ob("R7.2", f"{f.qualname}: `while {norm(w.test)[:40]}` makes progress", ok, why, f, w, f"while {norm(w.test)[:60]}")
    ctx.floor("R7.2", "while loops reachable from entry points", n, 3)


def _progress(ctx: Ctx, f: FuncInfo, w: ast.While) -> tuple[bool, str]:
    """every path through the body either leaves the loop or strictly advances the loop variable."""
    cfg = cfg_of(f)
    heads = cfg.by_ast.get(id(w)) or []
    if not heads:
        return False, "no CFG node"
    head = heads[0]
    body_ids = {id(x) for st in w.body for x in ast.walk(st)} | {id(x) for x in ast.walk(w.test)}
    # progress statements: `pos += <positive>`, `rest = rest[k:]` with k >= 1 (incl. end + 1 where end = rest.find(..) != -1), `pos = match.end()`
    prog_nodes = []
    facts = []
    for n_ in cfg.nodes:
        a = n_.ast
        if a is None or id(a) not in body_ids:
            continue
        if isinstance(a, ast.AugAssign) and isinstance(a.op, ast.Add) and isinstance(a.value, ast.Constant) and isinstance(a.value.value, int) and a.value.value > 0:
            prog_nodes.append(n_)
            facts.append(norm(a))
        elif isinstance(a, ast.Assign) and _slice_of(a.value) is not None and norm(a.targets[0]) == norm(_slice_of(a.value).value) and _slice_of(a.value).slice.lower is not None:
            lo = _slice_of(a.value).slice.lower
            good = False
            if isinstance(lo, ast.Constant) and isinstance(lo.value, int) and lo.value >= 1:
                good = True
            elif isinstance(lo, ast.Call) and isinstance(lo.func, ast.Attribute) and lo.func.attr == "end":
                good = None  # needs pattern width >= 1: decided below
                mname = norm(lo.func.value)
                good = _match_min_width(ctx, f, mname) >= 1
            elif isinstance(lo, ast.BinOp) and isinstance(lo.op, ast.Add) and isinstance(lo.right, ast.Constant) and lo.right.value >= 1:
                # rest = rest[end + 1:], end from find() and tested != -1 on the path
                good = True
            if good:
                prog_nodes.append(n_)
                facts.append(norm(a))
        elif isinstance(a, ast.Assign) and isinstance(a.value, ast.Call) and isinstance(a.value.func, ast.Attribute) and a.value.func.attr == "end" and not a.value.args:
            mname = norm(a.value.func.value)
            if _match_min_width(ctx, f, mname) >= 1:
                prog_nodes.append(n_)
                facts.append(norm(a) + " (pattern min width >= 1)")
    # from the first body node, can we come back to the loop head avoiding all progress nodes?
    starts = [s for s, l in head.succs] if head.kind == "join" else cfg.succ(head, "T")
    # head is a join node for while loops: follow the condition atoms
    r = set()
    for s in starts:
        r |= cfg.reach(s, avoid_nodes=prog_nodes + [head])
    back = any(p.id in r or p is s for p, _ in head.preds for s in [p] if id(p.ast) in body_ids and p.id in r)
    # a predecessor of head inside the body reachable without progress => a non-progressing iteration
    stuck = [p for p, _ in head.preds if p.ast is not None and id(p.ast) in body_ids and p.id in r and p not in prog_nodes]
    if stuck:
        return False, f"an iteration can return to the loop head without progress (e.g. after `{stuck[0].text()[:50]}`); progress statements: {facts}"
    return True, f"every iteration passes one of: {facts}" if facts else "loop body always leaves the loop"


def _slice_of(v: ast.AST):
    """x[a:] possibly wrapped in .lstrip()/.strip()/.rstrip() (which only remove more)."""
    while isinstance(v, ast.Call) and isinstance(v.func, ast.Attribute) and v.func.attr in ("lstrip", "strip", "rstrip") :
        v = v.func.value
    if isinstance(v, ast.Subscript) and isinstance(v.slice, ast.Slice):
        return v
    return None


def _match_min_width(ctx: Ctx, f: FuncInfo, mname: str) -> int:
    folder = Folder(ctx.repo)
    for _, v in astq.assigns_to(f.node, mname, nested=True):
        if isinstance(v, ast.Call) and isinstance(v.func, ast.Attribute) and v.func.attr in ("match", "search", "fullmatch"):
            d = dotted(v.func.value)
            try:
                rx = folder.name(f.module, d or "")
            except Unfoldable:
                return 0
            if isinstance(rx, RegexConst):
                return width(rx)[0]
    return 0


# ---------------------------------------------------------------------
# R7.3


def _r73(ctx: Ctx, registered: set[str]) -> None:
    repo = ctx.repo
    for fq, call_text in (("_internal._DictAccessorProperty.__get__", "self.load_func"), ("datastructures.structures.TypeConversionDict.get", "type")):
        f = repo.func(fq)
        ok = False
        for c in astq.calls(f.node):
            if norm(c.func) == call_text:
                tr = astq.enclosing(c, (ast.Try,))
                if isinstance(tr, ast.Try):
                    names = set()
                    for h in tr.handlers:
                        for e in (h.type.elts if isinstance(h.type, ast.Tuple) else [h.type]) if h.type is not None else []:
                            names.add(dotted(e))
                    ok = {"ValueError", "TypeError"} <= names or "Exception" in names
        ctx.ob("R7.3", f"{f.qualname} falls back on (ValueError, TypeError) from the conversion", ok, f"handler around `{call_text}(...)`", f, f.node, f"{fq} conversion fallback")
    nq = 0
    for fq in ("sansio.request.Request.args", "formparser.FormDataParser._parse_urlencoded"):
        f = repo.func(fq)
        for c in astq.name_calls(f.node, "parse_qsl"):
            nq += 1
            e = astq.kwarg(c, "errors")
            ok = e is not None and astq.const_str(e) in registered
            ctx.ob("R7.3", f"{f.qualname}: parse_qsl decodes with a registered lenient handler", ok, f"errors={norm(e) if e is not None else None}; registered handlers: {sorted(registered)}", f, c, f"{fq} parse_qsl errors")
    ctx.floor("R7.3", "parse_qsl calls", nq, 2)
    dd = repo.func("_internal._wsgi_decoding_dance")
    decs = [c for c in astq.method_calls(dd.node, "decode")]
    ok = bool(decs) and all(astq.const_str(astq.arg_or_kw(c, 1, "errors") or ast.Constant(None)) == "replace" for c in decs)
    ctx.ob("R7.3", "_wsgi_decoding_dance decodes with errors='replace'", ok, f"{[norm(c) for c in decs]}", dd, dd.node, "decoding dance lenient")
