"""helpers for C02: a small symbolic interpreter for werkzeug source.

Nothing of werkzeug is imported or run.  ``Interp`` walks the ``ast`` of functions of
/repo over *symbolic* values: inputs of a scenario are opaque atoms (``T`` terms whose op
starts with ``$``), calls that leave the analysed module become terms (``T``) and are
logged as effects, text/bytes concatenation is kept as a flattened ``cat`` term, and every
branch condition that the scenario does not determine is decided by an oracle; ``explore``
re-runs the scenario for every decision sequence, so all paths are seen.  Rules then state
facts about the set of outcomes (returned terms, effect log).  Because the code is
*interpreted* rather than pattern-matched, renamed locals, flipped branches, extracted
helpers (any depth inside the analysed module), comprehensions vs loops, aliases and
tuple unpacking do not change what the rules see.

A construct the interpreter does not model raises ``Unsupported`` (an AnalysisError: exit 2).
"""

from __future__ import annotations

import ast
import itertools
import operator
import re
import typing as t

from ..fold import Folder, RegexConst, Unfoldable
from ..loader import AnalysisError, ClassInfo, FuncInfo, Module, Repo, dotted

# ---------------------------------------------------------------------
# values


class Unsupported(AnalysisError):
    pass


_counter = itertools.count(1)


def norm_charset(cs: t.Any) -> t.Any:
    if not isinstance(cs, str):
        return cs
    c = cs.lower().replace("-", "").replace("_", "")
    return {"utf8": "utf-8", "u8": "utf-8", "latin1": "latin-1", "iso88591": "latin-1", "l1": "latin-1", "usascii": "ascii", "ascii": "ascii"}.get(c, cs.lower())


class T:
    """symbolic term.  Atoms have an op starting with ``$``.  ``uid`` distinguishes objects created by separate
    calls of a constructor / factory; pure operations have uid None and compare structurally."""

    __slots__ = ("op", "args", "kw", "uid", "pytype", "truthy", "nonnone", "src", "_key")

    def __init__(self, op: str, args: tuple = (), kw: tuple = (), uid: int | None = None, pytype: str | None = None, truthy: bool | None = None, nonnone: bool = False, src: t.Any = None):
        self.op = op
        self.args = tuple(args)
        self.kw = tuple(kw)
        self.uid = uid
        self.pytype = pytype
        self.truthy = truthy
        self.nonnone = nonnone or pytype in ("str", "bytes", "int", "bool", "tuple", "list") or uid is not None
        self.src = src
        self._key = None

    def key(self) -> tuple:
        if self._key is None:
            self._key = ("T", self.op, tuple(vkey(a) for a in self.args), tuple((k, vkey(v)) for k, v in self.kw), self.uid)
        return self._key

    def __eq__(self, other: object) -> bool:
        return isinstance(other, T) and self.key() == other.key()

    def __ne__(self, other: object) -> bool:
        return not self.__eq__(other)

    def __hash__(self) -> int:
        return hash(self.key())

    def __repr__(self) -> str:
        return fmt(self)

    def __bool__(self) -> bool:  # misuse guard: the interpreter must go through Interp.truth
        raise Unsupported(f"truth value of symbolic term {fmt(self)} used by the checker")


def sym(name: str, pytype: str | None = None, truthy: bool | None = None, nonnone: bool = True) -> T:
    return T("$" + name, pytype=pytype, truthy=truthy, nonnone=nonnone)


def is_atom(v: t.Any) -> bool:
    return isinstance(v, T) and v.op.startswith("$")


def vkey(v: t.Any) -> t.Any:
    if isinstance(v, T):
        return v.key()
    if isinstance(v, (list, tuple)):
        return (type(v).__name__, tuple(vkey(x) for x in v))
    if isinstance(v, dict):
        return ("dict", tuple((vkey(k), vkey(x)) for k, x in v.items()))
    if isinstance(v, (set, frozenset)):
        return ("set", tuple(sorted((vkey(x) for x in v), key=repr)))
    if isinstance(v, ClassVal):
        return ("class", v.ci.fq)
    if isinstance(v, (Obj, Scripted, FuncVal, Bound, BoundPy, BoundBuiltin)):
        return ("obj", id(v))
    if isinstance(v, (bool, int, str, bytes, float)) or v is None:
        return (type(v).__name__, v)
    if isinstance(v, (EnumMember, ExtVal, ExcVal)):
        return v.key()
    if isinstance(v, RegexVal):
        return ("rx", v.rx.pattern, v.rx.flags)
    if isinstance(v, type):
        return ("type", v.__name__)
    if isinstance(v, slice):
        return ("slice", vkey(v.start), vkey(v.stop), vkey(v.step))
    return ("py", id(v))


def freeze(v: t.Any) -> t.Any:
    """snapshot of a mutable python container (so that a later mutation does not change a recorded term)."""
    if isinstance(v, list):
        return T("list", tuple(freeze(x) for x in v), pytype="list")
    if isinstance(v, tuple):
        return tuple(freeze(x) for x in v)
    if isinstance(v, dict):
        return T("dict", tuple((freeze(k), freeze(x)) for k, x in v.items()))
    if isinstance(v, (set, frozenset)):
        return T("set", tuple(sorted((freeze(x) for x in v), key=lambda x: repr(vkey(x)))))
    return v


def fmt(v: t.Any, depth: int = 0) -> str:
    if depth > 12:
        return "..."
    if isinstance(v, T):
        if v.op.startswith("$"):
            return v.op[1:]
        a = [fmt(x, depth + 1) for x in v.args] + [f"{k}={fmt(x, depth + 1)}" for k, x in v.kw]
        if v.op == "cat":
            return " + ".join(a)
        if v.op == "list":
            return "[" + ", ".join(a) + "]"
        if v.op == "[]":
            return f"{a[0]}[{a[1]}]"
        if v.op.startswith(".") and a:
            return f"{a[0]}{v.op}({', '.join(a[1:])})"
        if v.op.startswith("attr:") and a:
            return f"{a[0]}.{v.op[5:]}"
        name = v.op.rsplit(".", 1)[-1] if v.op.startswith("werkzeug.") else v.op
        return f"{name}({', '.join(a)})" + (f"#{v.uid}" if v.uid is not None and depth == 0 else "")
    if isinstance(v, tuple):
        return "(" + ", ".join(fmt(x, depth + 1) for x in v) + ("," if len(v) == 1 else "") + ")"
    if isinstance(v, list):
        return "[" + ", ".join(fmt(x, depth + 1) for x in v) + "]"
    if isinstance(v, dict):
        return "{" + ", ".join(f"{fmt(k, depth + 1)}: {fmt(x, depth + 1)}" for k, x in v.items()) + "}"
    if isinstance(v, (Obj, Scripted, FuncVal, ClassVal, EnumMember, ExtVal, ExcVal, Bound, BoundPy, BoundBuiltin, RegexVal)):
        return v.show()
    return repr(v)


class EnumMember:
    def __init__(self, cls_fq: str, name: str):
        self.cls_fq = cls_fq
        self.name = name

    def key(self) -> tuple:
        return ("enum", self.cls_fq, self.name)

    def __eq__(self, o: object) -> bool:
        return isinstance(o, EnumMember) and self.key() == o.key()

    def __hash__(self) -> int:
        return hash(self.key())

    def show(self) -> str:
        return f"{self.cls_fq.rsplit('.', 1)[-1]}.{self.name}"

    __repr__ = show


class ExtVal:
    """a name outside the package (stdlib function / class / module)."""

    def __init__(self, fq: str):
        self.fq = fq

    def key(self) -> tuple:
        return ("ext", self.fq)

    def __eq__(self, o: object) -> bool:
        return isinstance(o, ExtVal) and o.fq == self.fq

    def __hash__(self) -> int:
        return hash(self.key())

    def show(self) -> str:
        return self.fq

    __repr__ = show


class ExcVal:
    """an exception value: builtin (``pycls`` set) or a class of the package (``fq``)."""

    def __init__(self, name: str, args: tuple = (), pycls: type | None = None, ci: ClassInfo | None = None):
        self.name = name
        self.args = args
        self.pycls = pycls
        self.ci = ci

    def key(self) -> tuple:
        return ("exc", self.name)

    def show(self) -> str:
        return f"{self.name}({', '.join(fmt(a) for a in self.args)})"

    __repr__ = show


class Raised(Exception):
    def __init__(self, value: t.Any, where: t.Any = None):
        super().__init__(fmt(value))
        self.value = value
        self.where = where


class Obj:
    """instance of a class of the package whose methods are interpreted from source."""

    def __init__(self, ci: ClassInfo, label: str | None = None):
        self.ci = ci
        self.attrs: dict[str, t.Any] = {}
        self.label = label or ci.name
        self.n = next(_counter)

    def show(self) -> str:
        if self.attrs and getattr(self, "is_record", False):
            return f"{self.ci.name}(" + ", ".join(f"{k}={fmt(v, 2)}" for k, v in self.attrs.items()) + ")"
        return f"<{self.label}>"

    __repr__ = show


class Scripted:
    """an object of the scenario with scripted attributes / methods."""

    def __init__(self, label: str, cls_fq: str | None = None, attrs: dict | None = None, methods: dict | None = None, items: list | None = None, truthy: bool | None = True, pytypes: tuple = ()):
        self.label = label
        self.cls_fq = cls_fq
        self.attrs = dict(attrs or {})
        self.methods = dict(methods or {})
        self.items = items
        self.truthy = truthy
        self.pytypes = pytypes
        self.log: list = []

    def show(self) -> str:
        return f"<{self.label}>"

    __repr__ = show


class FileModel(Scripted):
    """BytesIO / TemporaryFile: content is the list of written pieces."""

    def __init__(self, label: str, initial: t.Any = None):
        super().__init__(label)
        self.content: list = [] if initial is None else [initial]
        self.pos: t.Any = 0
        self.closed = False


class ByteBuf(Scripted):
    """bytearray used as an accumulator: the pieces appended so far"""

    def __init__(self, initial: t.Any = None):
        super().__init__(f"bytearray#{next(_counter)}", pytypes=(bytearray,))
        self.parts: list = [] if initial is None or initial == b"" else [initial]

    def value(self) -> t.Any:
        return cat(list(self.parts), "bytes")


class FuncVal:
    def __init__(self, fi: FuncInfo | None, node: ast.AST, module: Module, closure: "Frame | None" = None, cls: ClassInfo | None = None):
        self.defaults: dict[str, t.Any] | None = None  # evaluated at definition time for local functions / lambdas
        self.fi = fi
        self.node = node
        self.module = module
        self.closure = closure
        self.cls = cls if cls is not None else (fi.cls if fi is not None else None)

    @property
    def fq(self) -> str:
        if self.fi is not None:
            return self.fi.fq
        return f"{self.module.name}.<local {getattr(self.node, 'name', 'lambda')}>"

    def show(self) -> str:
        return f"<function {self.fq}>"

    __repr__ = show


class Bound:
    def __init__(self, recv: t.Any, fn: FuncVal):
        self.recv = recv
        self.fn = fn

    def show(self) -> str:
        return f"<bound {self.fn.fq}>"

    __repr__ = show


class BoundPy:
    def __init__(self, recv: t.Any, name: str, fn: t.Callable):
        self.recv = recv
        self.name = name
        self.fn = fn

    def show(self) -> str:
        return f"{fmt(self.recv)}.{self.name}"

    __repr__ = show


class BoundBuiltin:
    def __init__(self, recv: t.Any, name: str):
        self.recv = recv
        self.name = name

    def show(self) -> str:
        return f"{fmt(self.recv, 3)}.{self.name}"

    __repr__ = show


class ClassVal:
    def __init__(self, ci: ClassInfo):
        self.ci = ci

    def __eq__(self, o: object) -> bool:
        return isinstance(o, ClassVal) and o.ci.fq == self.ci.fq

    def __hash__(self) -> int:
        return hash(("class", self.ci.fq))

    def show(self) -> str:
        return f"<class {self.ci.fq}>"

    __repr__ = show


class RegexVal:
    def __init__(self, rx: RegexConst):
        self.rx = rx
        self.compiled = re.compile(rx.pattern, rx.flags)

    def show(self) -> str:
        return f"re({self.rx.pattern!r})"

    __repr__ = show


class Frame:
    def __init__(self, module: Module, parent: "Frame | None" = None, fn: FuncVal | None = None):
        self.vars: dict[str, t.Any] = {}
        self.module = module
        self.parent = parent
        self.fn = fn
        self.nonlocals: set[str] = set()
        self.yields: list | None = None
        self.local_imports: dict[str, str] = {}
        self.class_scope: ClassInfo | None = None  # set for frames that evaluate a class-body expression

    def lookup(self, name: str) -> tuple[bool, t.Any]:
        f: Frame | None = self
        while f is not None:
            if name in f.vars:
                return True, f.vars[name]
            f = f.parent
        return False, None

    def owner(self, name: str) -> "Frame":
        if name in self.nonlocals:
            f = self.parent
            while f is not None:
                if name in f.vars:
                    return f
                f = f.parent
            if self.parent is not None:
                return self.parent  # declared (annotated) but not yet bound in the enclosing function
            raise Unsupported(f"nonlocal {name} not bound")
        return self

    def imports(self) -> dict[str, str]:
        out: dict[str, str] = {}
        f: Frame | None = self
        chain = []
        while f is not None:
            chain.append(f)
            f = f.parent
        for f in reversed(chain):
            out.update(f.local_imports)
        return out


class Lazy:
    """a lazily evaluated (possibly infinite) iterator: itertools.repeat, map / takewhile over one"""

    def __init__(self, pull: t.Callable[[], tuple[bool, t.Any]], what: str):
        self.pull = pull
        self.what = what

    def show(self) -> str:
        return f"<{self.what}>"

    __repr__ = show


class PathCut(Exception):
    """the current path exceeded a loop bound and is abandoned (only when Interp.truncate_loops is set)"""


class _Return(Exception):
    def __init__(self, value: t.Any):
        self.value = value


class _Break(Exception):
    pass


class _Continue(Exception):
    pass


# ---------------------------------------------------------------------
# text algebra


def is_texty(v: t.Any) -> bool:
    return isinstance(v, (str, bytes)) or (isinstance(v, T) and v.pytype in ("str", "bytes"))


def ptype(v: t.Any) -> str | None:
    if isinstance(v, str):
        return "str"
    if isinstance(v, (bytes, bytearray)):
        return "bytes"
    if isinstance(v, bool):
        return "bool"
    if isinstance(v, int):
        return "int"
    if isinstance(v, T):
        return v.pytype
    return None


def cat(parts: t.Iterable[t.Any], kind: str | None = None) -> t.Any:
    flat: list = []
    for p in parts:
        if isinstance(p, ByteBuf):
            p = p.value()
        if isinstance(p, T) and p.op == "cat":
            flat.extend(p.args)
        else:
            flat.append(p)
    out: list = []
    for p in flat:
        if isinstance(p, bytearray):
            p = bytes(p)
        if isinstance(p, (str, bytes)):
            if len(p) == 0:
                kind = kind or ptype(p)
                continue
            if out and type(out[-1]) is type(p):
                out[-1] = out[-1] + p
                continue
        out.append(p)
    for p in out:
        k = ptype(p)
        if k in ("str", "bytes"):
            kind = k
            break
    if not out:
        return b"" if kind == "bytes" else ""
    if len(out) == 1:
        return out[0]
    tr: bool | None = None
    if any(isinstance(p, (str, bytes)) or (isinstance(p, T) and p.truthy is True) for p in out):
        tr = True
    return T("cat", tuple(out), pytype=kind, truthy=tr)


def cat_parts(v: t.Any) -> list:
    if isinstance(v, T) and v.op == "cat":
        return list(v.args)
    if isinstance(v, (str, bytes)) and len(v) == 0:
        return []
    return [v]


def encode(v: t.Any, cs: t.Any = "utf-8", errors: t.Any = "strict") -> t.Any:
    csn = norm_charset(cs)
    if isinstance(v, str) and isinstance(csn, str):
        try:
            return v.encode(csn, errors if isinstance(errors, str) else "strict")
        except (UnicodeError, LookupError):
            return T("enc", (v, csn), pytype="bytes")
    if isinstance(v, T) and v.op == "cat":
        return cat([encode(p, cs, errors) for p in v.args], "bytes")
    if isinstance(v, T) and v.op == "dec" and v.args[1] == csn:
        return v.args[0]
    tr = v.truthy if isinstance(v, T) else None
    return T("enc", (v, csn), pytype="bytes", truthy=tr)


def decode(v: t.Any, cs: t.Any = "utf-8", errors: t.Any = "strict") -> t.Any:
    csn = norm_charset(cs)
    if isinstance(v, (bytes, bytearray)) and isinstance(csn, str):
        try:
            return bytes(v).decode(csn, errors if isinstance(errors, str) else "strict")
        except (UnicodeError, LookupError):
            return T("dec", (bytes(v), csn, errors), pytype="str")
    tr = v.truthy if isinstance(v, T) else None
    return T("dec", (v, csn, errors), pytype="str", truthy=tr)


_PRINTF = re.compile(r"%(\((\w+)\))?([-#0 +]*)(\d*)(?:\.(\d+))?([a-zA-Z%])")


def printf(fmt_v: str | bytes, arg: t.Any) -> t.Any:
    is_b = isinstance(fmt_v, bytes)
    text = fmt_v.decode("latin-1") if is_b else fmt_v
    args = list(arg) if isinstance(arg, tuple) else [arg]
    out: list = []
    pos = 0
    ai = 0

    def lit(s: str) -> t.Any:
        return s.encode("latin-1") if is_b else s

    for m in _PRINTF.finditer(text):
        if m.start() > pos:
            out.append(lit(text[pos : m.start()]))
        pos = m.end()
        conv = m.group(6)
        if conv == "%":
            out.append(lit("%"))
            continue
        if m.group(1) or ai >= len(args):
            raise Unsupported("printf-style format with mapping keys / missing arguments")
        a = args[ai]
        ai += 1
        plain = not (m.group(3) or m.group(4) or m.group(5))
        if isinstance(a, T) or not plain:
            if plain and conv in ("s", "b") and isinstance(a, T) and (a.pytype == ("bytes" if is_b else "str")):
                out.append(a)
            elif plain and not is_b and conv in ("s", "d", "i") and isinstance(a, T) and a.pytype == "int":
                out.append(T("str", (a,), pytype="str"))
            elif isinstance(a, T):
                out.append(T("format", (a, "%" + m.group(0)[1:]), pytype="bytes" if is_b else "str"))
            else:
                out.append(lit(m.group(0)) % (a,) if not is_b else (m.group(0).encode("latin-1") % (a,)))
        else:
            try:
                out.append((m.group(0).encode("latin-1") if is_b else m.group(0)) % (a,))
            except (TypeError, ValueError) as e:
                raise Unsupported(f"printf-style format: {e}")
    if pos < len(text):
        out.append(lit(text[pos:]))
    if ai != len(args):
        raise Unsupported("printf-style format: argument count")
    return cat(out, "bytes" if is_b else "str")


def _format_method(fmt_s: str, args: list, kwargs: dict) -> t.Any:
    """'{}: {}'.format(a, b) with symbolic text arguments -> cat; None when a field is not a plain replacement"""
    import string

    out: list = []
    auto = 0
    try:
        fields = list(string.Formatter().parse(fmt_s))
    except ValueError:
        return None
    for lit, field, spec, conv in fields:
        if lit:
            out.append(lit)
        if field is None:
            continue
        if spec or conv not in (None, "s"):
            return None
        if field == "":
            if auto >= len(args):
                return None
            v = args[auto]
            auto += 1
        elif field.isdigit():
            if int(field) >= len(args):
                return None
            v = args[int(field)]
        elif field.isidentifier():
            if field not in kwargs:
                return None
            v = kwargs[field]
        else:
            return None
        if isinstance(v, T):
            if v.pytype != "str":
                return None
            out.append(v)
        elif isinstance(v, (str, int)) and not isinstance(v, bool):
            out.append(str(v))
        else:
            return None
    return cat(out, "str")


def concretise(v: t.Any, samples: dict[str, t.Any]) -> t.Any:
    """replace the atoms of a text term by sample values and compute the text; raises Impure when the term applies
    anything but concatenation and known-charset encode/decode to an atom."""
    if isinstance(v, (str, bytes)):
        return v
    if isinstance(v, T):
        if v.op.startswith("$"):
            if v.op[1:] in samples:
                return samples[v.op[1:]]
            raise Impure(v, f"no sample for {fmt(v)}")
        if v.op == "cat":
            parts = [concretise(p, samples) for p in v.args]
            if all(isinstance(p, bytes) for p in parts):
                return b"".join(parts)
            if all(isinstance(p, str) for p in parts):
                return "".join(parts)
            raise Impure(v, "str and bytes mixed")
        if v.op == "enc" and isinstance(v.args[1], str):
            x = concretise(v.args[0], samples)
            if isinstance(x, str):
                try:
                    return x.encode(v.args[1])
                except (UnicodeError, LookupError):
                    raise Impure(v, f"sample text is not encodable as {v.args[1]}")
        if v.op == "dec" and isinstance(v.args[1], str):
            x = concretise(v.args[0], samples)
            if isinstance(x, bytes):
                try:
                    return x.decode(v.args[1])
                except (UnicodeError, LookupError):
                    raise Impure(v, f"sample bytes are not decodable as {v.args[1]}")
        raise Impure(v, f"`{fmt(v)}` is not the value itself")
    raise Impure(v, f"`{fmt(v)}` is not text")


class Impure(Exception):
    def __init__(self, term: t.Any, why: str):
        super().__init__(why)
        self.term = term
        self.why = why


def ops_in(v: t.Any, acc: set[str] | None = None) -> set[str]:
    """operator names applied anywhere inside a term."""
    acc = set() if acc is None else acc
    if isinstance(v, T):
        if not v.op.startswith("$"):
            acc.add(v.op)
        for a in v.args:
            ops_in(a, acc)
        for _, a in v.kw:
            ops_in(a, acc)
    elif isinstance(v, (tuple, list)):
        for a in v:
            ops_in(a, acc)
    return acc


def atoms_in(v: t.Any, acc: list | None = None) -> list:
    acc = [] if acc is None else acc
    if isinstance(v, T):
        if v.op.startswith("$"):
            acc.append(v)
        for a in v.args:
            atoms_in(a, acc)
        for _, a in v.kw:
            atoms_in(a, acc)
    elif isinstance(v, (tuple, list)):
        for a in v:
            atoms_in(a, acc)
    elif isinstance(v, Obj):
        for a in v.attrs.values():
            atoms_in(a, acc)
    return acc


# ---------------------------------------------------------------------
# one run = one decision sequence


class Run:
    def __init__(self, prefix: list[bool]):
        self.prefix = prefix
        self.taken: list[tuple[tuple, bool, str, tuple]] = []
        self.cache: dict[tuple, bool] = {}
        self.effects: list[tuple] = []  # (target, method, args, kwargs, result)
        self.steps = 0
        self.globals: dict[tuple[str, str], t.Any] = {}
        self.notes: list[str] = []
        self.doubt: list[str] = []  # decisions taken on this path that the interpreter had no basis for (one of the two answers may be impossible)

    def assumed(self, kind: str, *terms: t.Any) -> bool | None:
        return self.cache.get((kind,) + tuple(vkey(x) for x in terms))


class Outcome:
    def __init__(self, kind: str, value: t.Any, run: Run, where: t.Any = None):
        self.kind = kind  # return | raise
        self.value = value
        self.run = run
        self.where = where

    @property
    def effects(self) -> list[tuple]:
        return self.run.effects

    def assumptions(self) -> str:
        return ", ".join(f"{txt}={'T' if v else 'F'}" for _, v, txt, _t in self.run.taken) or "-"

    def exc_name(self) -> str | None:
        if self.kind != "raise":
            return None
        v = self.value
        if isinstance(v, ExcVal):
            return v.name
        if isinstance(v, T):
            return v.op.rsplit(".", 1)[-1]
        if isinstance(v, Obj):
            return v.ci.name
        return fmt(v)


_BUILTIN_EXC = {n: getattr(__import__("builtins"), n) for n in dir(__import__("builtins")) if isinstance(getattr(__import__("builtins"), n), type) and issubclass(getattr(__import__("builtins"), n), BaseException)}

_ABC_TYPES: dict[str, t.Any] = {}
for _n in ("Mapping", "MutableMapping", "Sequence", "MutableSequence", "Iterable", "Iterator", "Set", "MutableSet", "Collection", "Container", "Sized", "Callable", "Hashable"):
    import collections.abc as _cabc

    _ABC_TYPES[f"collections.abc.{_n}"] = getattr(_cabc, _n)
    _ABC_TYPES[f"typing.{_n}"] = getattr(_cabc, _n)

_STR_RESULT = {
    "strip": None, "lstrip": None, "rstrip": None, "lower": None, "upper": None, "title": None, "casefold": None, "capitalize": None,
    "replace": None, "swapcase": None, "expandtabs": None, "removeprefix": None, "removesuffix": None, "translate": None, "zfill": None,
    "center": None, "ljust": None, "rjust": None, "format": None, "join": None,
    "partition": "tuple", "rpartition": "tuple", "split": "list", "rsplit": "list", "splitlines": "list",
    "startswith": "bool", "endswith": "bool", "isdigit": "bool", "isalpha": "bool", "isalnum": "bool", "isspace": "bool", "isascii": "bool",
    "islower": "bool", "isupper": "bool", "isidentifier": "bool", "isprintable": "bool", "isnumeric": "bool", "isdecimal": "bool", "istitle": "bool",
    "find": "int", "rfind": "int", "index": "int", "rindex": "int", "count": "int", "hex": "str",
}
_TRUTH_KEEPING = {"lower", "upper", "title", "casefold", "capitalize", "swapcase", "zfill", "center", "ljust", "rjust"}


# functions of other modules that stay opaque on purpose: rules name them as allowed operations
KEEP_OPAQUE = {
    "werkzeug._internal._wsgi_encoding_dance", "werkzeug._internal._wsgi_decoding_dance", "werkzeug._internal._plain_int",
    "werkzeug.http.parse_options_header", "werkzeug.http.dump_options_header", "werkzeug.urls.iri_to_uri", "werkzeug.urls.uri_to_iri",
    "werkzeug.urls._urlencode", "werkzeug.datastructures.structures.iter_multi_items", "werkzeug.utils.get_content_type",
    "werkzeug.wsgi.get_input_stream", "werkzeug.wsgi.get_content_length", "werkzeug.wsgi.get_current_url",
}


class Interp:
    def __init__(self, repo: Repo, folder: Folder | None = None, open_modules: t.Iterable[str] = (), opaque: t.Iterable[str] = (), stubs: dict[str, t.Callable] | None = None, max_steps: int = 200000, max_loop: int = 300):
        self.repo = repo
        self.folder = folder or Folder(repo)
        self.open_modules = set(open_modules)
        self.opaque = set(opaque)
        self.stubs = dict(stubs or {})
        self.max_steps = max_steps
        self.max_loop = max_loop
        self.run: Run = Run([])
        self.cur: tuple[t.Any, ast.AST | None] = (None, None)
        self.depth = 0
        self.try_stack: list[ast.Try] = []
        self.truncate_loops = False  # True: a path that iterates a loop more than max_loop times is dropped (bounded unrolling)

    # -- decisions -----------------------------------------------------
    def decide(self, kind: str, *terms: t.Any, text: str | None = None, doubtful: bool = False) -> bool:
        """the answer to a question the scenario leaves open (both answers are explored).  ``doubtful``: the question is not about
        an input of the scenario but about something the interpreter does not model (e.g. `==` between objects of classes whose
        __eq__ it cannot read): one of the answers may be impossible, so nothing found on such a path counts as a violation"""
        key = (kind,) + tuple(vkey(x) for x in terms)
        r = self.run
        if key in r.cache:
            return r.cache[key]
        i = len(r.taken)
        v = r.prefix[i] if i < len(r.prefix) else True
        r.cache[key] = v
        txt = text or f"{kind}({', '.join(fmt(x, 2) for x in terms)})"
        r.taken.append((key, v, txt, terms))
        if doubtful:
            r.doubt.append(txt)
        return v

    def truth(self, v: t.Any) -> bool:
        if v is None or isinstance(v, (bool, int, float, str, bytes, bytearray, tuple, list, dict, set, frozenset, range)):
            return bool(v)
        if isinstance(v, T):
            if v.truthy is not None:
                return v.truthy
            if v.op == "not":
                return not self.truth(v.args[0])
            if v.op == "cmp":
                return self._cmp_truth(v)
            if v.op == "len":
                return self.truth(v.args[0])
            if v.op == "cat":
                known_false = True
                for p in v.args:
                    if isinstance(p, (str, bytes)) and p:
                        return True
                    if isinstance(p, T) and p.truthy is True:
                        return True
                    known_false = False
                if known_false:
                    return False
            return self.decide("truth", v)
        if isinstance(v, ByteBuf):
            return self.truth(v.value())
        if isinstance(v, Scripted):
            if isinstance(v, FileModel):
                return True
            if v.truthy is None:
                return self.decide("truth-of", v.label, text=f"truth({v.label})")
            return v.truthy
        if isinstance(v, Obj):
            owner, what = self.repo.lookup(v.ci, "__bool__")
            if isinstance(what, FuncInfo):
                return self.truth(self.call(Bound(v, self._fv(what)), [], {}))
            owner, what = self.repo.lookup(v.ci, "__len__")
            if isinstance(what, FuncInfo):
                return self.truth(self.call(Bound(v, self._fv(what)), [], {}))
            return True
        return True

    def _cmp_truth(self, v: T) -> bool:
        op, a, b = v.args
        return self.decide("cmp", op, a, b, text=f"{fmt(a, 2)} {op} {fmt(b, 2)}")

    # -- name resolution -----------------------------------------------
    def _fv(self, fi: FuncInfo) -> FuncVal:
        return FuncVal(fi, fi.node, fi.module)

    def module_value(self, m: Module, name: str, local_imports: dict[str, str] | None = None) -> tuple[bool, t.Any]:
        if local_imports and name in local_imports:
            return True, self.from_fq(local_imports[name])
        if name in m.functions:
            return True, self._fv(m.functions[name])
        if name in m.classes:
            return True, ClassVal(m.classes[name])
        if name in m.assigns:
            key = (m.name, name)
            if key in self.run.globals:
                return True, self.run.globals[key]
            try:
                v = self.folder.name(m, name)
                if isinstance(v, RegexConst):
                    v = RegexVal(v)
            except (Unfoldable, Exception) as e:  # noqa: BLE001 - fall back to interpreting the defining expression
                if isinstance(e, AnalysisError) and not isinstance(e, Unfoldable):
                    raise
                exprs = m.assigns[name]
                if len(exprs) != 1:
                    # e.g. SpooledTemporaryFile = None in an except ImportError fallback: take the first binding
                    pass
                fr = Frame(m)
                v = self.ev(exprs[0], fr)
            self.run.globals[key] = v
            return True, v
        if name in m.imports:
            return True, self.from_fq(m.imports[name])
        return False, None

    def from_fq(self, fq: str) -> t.Any:
        if fq.startswith("werkzeug"):
            fq = self.repo.canonical(fq)
            if fq in self.repo.modules:
                return ExtVal(fq)  # a module of the package: attributes are resolved through from_fq again
            mn, _, nm = fq.rpartition(".")
            m = self.repo.modules.get(mn)
            if m is not None:
                ok, v = self.module_value(m, nm)
                if ok:
                    return v
            # Class.attr
            mn2, _, cn = mn.rpartition(".")
            m2 = self.repo.modules.get(mn2)
            if m2 is not None and cn in m2.classes:
                return self.getattr(ClassVal(m2.classes[cn]), nm)
            raise Unsupported(f"cannot resolve {fq}")
        return ExtVal(fq)

    def class_frame(self, ci: ClassInfo) -> Frame:
        fr = Frame(ci.module)
        fr.class_scope = ci
        return fr

    def load_name(self, name: str, fr: Frame) -> t.Any:
        ok, v = fr.lookup(name)
        if ok:
            return v
        if fr.class_scope is not None:
            ci = fr.class_scope
            if name in ci.methods:
                m = ci.methods[name]
                return FuncVal(m, m.node, m.module)
            if name in ci.attrs:
                return self.ev(ci.attrs[name], fr)
        ok, v = self.module_value(fr.module, name, fr.imports())
        if ok:
            return v
        if name in _BUILTINS:
            return _BUILTINS[name]
        if name in _BUILTIN_EXC:
            return _BUILTIN_EXC[name]
        raise Unsupported(f"name {name} is not bound (in {fr.module.name})")

    # -- statements ----------------------------------------------------
    def tick(self, node: ast.AST, fr: Frame) -> None:
        self.run.steps += 1
        if self.run.steps > self.max_steps:
            raise Unsupported("interpretation did not terminate (step bound)")
        self.cur = (fr.fn, node)

    def block(self, stmts: list[ast.stmt], fr: Frame) -> None:
        for st in stmts:
            self.stmt(st, fr)

    def stmt(self, st: ast.stmt, fr: Frame) -> None:
        self.tick(st, fr)
        if isinstance(st, ast.Expr):
            self.ev(st.value, fr)
        elif isinstance(st, ast.Assign):
            v = self.ev(st.value, fr)
            for tg in st.targets:
                self.assign(tg, v, fr)
        elif isinstance(st, ast.AnnAssign):
            if st.value is not None:
                self.assign(st.target, self.ev(st.value, fr), fr)
        elif isinstance(st, ast.AugAssign):
            load = _as_load(st.target)
            cur = self.ev(load, fr)
            if isinstance(cur, ByteBuf) and isinstance(st.op, ast.Add):
                cur.parts.append(self.ev(st.value, fr))
                return
            v = self.binop(st.op, cur, self.ev(st.value, fr))
            if isinstance(cur, list) and isinstance(st.op, ast.Add):
                pass  # binop extended the list in place
            self.assign(st.target, v, fr)
        elif isinstance(st, ast.If):
            if self.truth(self.ev(st.test, fr)):
                self.block(st.body, fr)
            else:
                self.block(st.orelse, fr)
        elif isinstance(st, ast.While):
            n = 0
            broke = False
            while self.truth(self.ev(st.test, fr)):
                n += 1
                if n > self.max_loop:
                    if self.truncate_loops:
                        raise PathCut()
                    raise Unsupported(f"loop bound exceeded at {fr.module.relpath}:{st.lineno}")
                try:
                    self.block(st.body, fr)
                except _Break:
                    broke = True
                    break
                except _Continue:
                    continue
            if not broke:
                self.block(st.orelse, fr)
        elif isinstance(st, ast.For):
            broke = False
            for item in self.iterate_lazily(self.ev(st.iter, fr)):
                self.assign(st.target, item, fr)
                try:
                    self.block(st.body, fr)
                except _Break:
                    broke = True
                    break
                except _Continue:
                    continue
            if not broke:
                self.block(st.orelse, fr)
        elif isinstance(st, ast.Return):
            raise _Return(self.ev(st.value, fr) if st.value is not None else None)
        elif isinstance(st, ast.Break):
            raise _Break()
        elif isinstance(st, ast.Continue):
            raise _Continue()
        elif isinstance(st, ast.Pass):
            pass
        elif isinstance(st, ast.Raise):
            if st.exc is None:
                exc = fr.vars.get("$exc")
                if exc is None:
                    raise Unsupported("bare raise outside a handler")
                raise Raised(exc, self.cur)
            v = self.ev(st.exc, fr)
            if isinstance(v, type) and issubclass(v, BaseException):
                v = ExcVal(v.__name__, (), v)
            elif isinstance(v, ClassVal):
                v = self.call(v, [], {})
            raise Raised(v, (fr.fn, st))
        elif isinstance(st, ast.Try):
            self.try_(st, fr)
        elif isinstance(st, (ast.FunctionDef, ast.AsyncFunctionDef)):
            if st.decorator_list:
                raise Unsupported(f"decorated local function {st.name}")
            fv = FuncVal(None, st, fr.module, closure=fr)
            fv.defaults = self.eval_defaults(st, fr)
            fr.owner(st.name).vars[st.name] = fv
        elif isinstance(st, ast.Nonlocal):
            fr.nonlocals.update(st.names)
        elif isinstance(st, ast.Global):
            raise Unsupported("global statement")
        elif isinstance(st, ast.Assert):
            if not self.truth(self.ev(st.test, fr)):
                raise Raised(ExcVal("AssertionError", (), AssertionError), (fr.fn, st))
        elif isinstance(st, ast.Delete):
            for tg in st.targets:
                if isinstance(tg, ast.Name):
                    fr.owner(tg.id).vars.pop(tg.id, None)
                elif isinstance(tg, ast.Subscript):
                    recv = self.ev(tg.value, fr)
                    idx = self.ev_index(tg.slice, fr)
                    if isinstance(recv, ByteBuf):
                        if isinstance(idx, slice) and idx == slice(None, None, None):
                            recv.parts.clear()
                            continue
                        raise Unsupported("deleting part of a bytearray accumulator")
                    if isinstance(recv, (list, dict)) and not _has_sym(idx):
                        try:
                            del recv[idx]
                        except (KeyError, IndexError) as e:
                            raise Raised(ExcVal(type(e).__name__, (), type(e)), self.cur)
                    else:
                        self.effect(recv, "__delitem__", (idx,), {}, None)
                elif isinstance(tg, ast.Attribute):
                    recv = self.ev(tg.value, fr)
                    if isinstance(recv, (Obj, Scripted)):
                        recv.attrs.pop(tg.attr, None)
                    else:
                        self.effect(recv, "__delattr__", (tg.attr,), {}, None)
                else:
                    raise Unsupported("del target")
        elif isinstance(st, ast.With):
            suppress: list = []
            for it in st.items:
                v = self.ev(it.context_expr, fr)
                if isinstance(v, T) and v.op == "contextlib.suppress":
                    suppress.extend(v.args)
                if it.optional_vars is not None:
                    self.assign(it.optional_vars, v, fr)
            try:
                self.block(st.body, fr)
            except Raised as r:
                ok = False
                for x in suppress:
                    if isinstance(x, type) and isinstance(r.value, ExcVal) and r.value.pycls is not None and issubclass(r.value.pycls, x):
                        ok = True
                if not ok:
                    raise
        elif isinstance(st, (ast.Import, ast.ImportFrom)):
            fr.local_imports.update(fr.module.local_imports(ast.Module(body=[st], type_ignores=[])))
        elif isinstance(st, ast.ClassDef):
            raise Unsupported("local class definition")
        elif isinstance(st, ast.Match):
            subject = self.ev(st.subject, fr)
            for case in st.cases:
                if self.match_pattern(case.pattern, subject, fr) and (case.guard is None or self.truth(self.ev(case.guard, fr))):
                    self.block(case.body, fr)
                    break
        else:
            raise Unsupported(f"statement {type(st).__name__}")

    def match_pattern(self, p: ast.AST, v: t.Any, fr: Frame) -> bool:
        if isinstance(p, ast.MatchAs):
            if p.pattern is not None and not self.match_pattern(p.pattern, v, fr):
                return False
            if p.name is not None:
                fr.owner(p.name).vars[p.name] = v
            return True
        if isinstance(p, ast.MatchOr):
            return any(self.match_pattern(x, v, fr) for x in p.patterns)
        if isinstance(p, ast.MatchValue):
            return self._eq(v, self.ev(p.value, fr))
        if isinstance(p, ast.MatchSingleton):
            return self._is(v, p.value)
        if isinstance(p, ast.MatchClass):
            c = self.ev(p.cls, fr)
            if not self.truth(_b_isinstance(self, [v, c], {})):
                return False
            names: list[str] = []
            if p.patterns:
                if isinstance(c, ClassVal) and self._is_dataclass(c.ci):
                    names = [n for n, _ in self.record_fields(c.ci)]
                elif isinstance(c, type) and c in (str, bytes, int, bool, float, list, tuple, dict, set, frozenset, bytearray) and len(p.patterns) == 1:
                    return self.match_pattern(p.patterns[0], v, fr)
                else:
                    raise Unsupported("positional class pattern for a class without known __match_args__")
                if len(p.patterns) > len(names):
                    raise Unsupported("too many positional sub-patterns")
            for sub, nm in list(zip(p.patterns, names)) + list(zip(p.kwd_patterns, p.kwd_attrs)):
                try:
                    av = self.getattr(v, nm)
                except Raised:
                    return False
                if not self.match_pattern(sub, av, fr):
                    return False
            return True
        if isinstance(p, ast.MatchSequence):
            if isinstance(v, (str, bytes)) or not isinstance(v, (tuple, list)):
                if isinstance(v, T) and v.op == "list":
                    v = list(v.args)
                else:
                    return False
            star = [i for i, x in enumerate(p.patterns) if isinstance(x, ast.MatchStar)]
            if not star:
                return len(v) == len(p.patterns) and all(self.match_pattern(x, y, fr) for x, y in zip(p.patterns, v))
            i = star[0]
            after = len(p.patterns) - i - 1
            if len(v) < len(p.patterns) - 1:
                return False
            if not all(self.match_pattern(x, y, fr) for x, y in zip(p.patterns[:i], v[:i])):
                return False
            if after and not all(self.match_pattern(x, y, fr) for x, y in zip(p.patterns[i + 1 :], v[len(v) - after :])):
                return False
            nm = p.patterns[i].name  # type: ignore[attr-defined]
            if nm is not None:
                fr.owner(nm).vars[nm] = list(v[i : len(v) - after])
            return True
        raise Unsupported(f"pattern {type(p).__name__}")

    def catches_lookup_error(self, fr: Frame) -> bool:
        """is a handler for KeyError (or a base of it) active around the current statement?"""
        for st in self.try_stack:
            for h in st.handlers:
                if h.type is None:
                    return True
                names = [dotted(x) or "" for x in (h.type.elts if isinstance(h.type, ast.Tuple) else [h.type])]
                if any(n.rsplit(".", 1)[-1] in ("KeyError", "LookupError", "Exception", "BaseException") for n in names):
                    return True
        return False

    def try_(self, st: ast.Try, fr: Frame) -> None:
        try:
            try:
                self.try_stack.append(st)
                try:
                    self.block(st.body, fr)
                finally:
                    self.try_stack.pop()
            except Raised as r:
                for h in st.handlers:
                    if self.handler_matches(h, r.value, fr):
                        if h.name:
                            fr.vars[h.name] = r.value
                        saved = fr.vars.get("$exc")
                        fr.vars["$exc"] = r.value
                        try:
                            self.block(h.body, fr)
                        finally:
                            if saved is None:
                                fr.vars.pop("$exc", None)
                            else:
                                fr.vars["$exc"] = saved
                        break
                else:
                    raise
            else:
                self.block(st.orelse, fr)
        finally:
            if st.finalbody:
                self.block(st.finalbody, fr)

    def handler_matches(self, h: ast.ExceptHandler, exc: t.Any, fr: Frame) -> bool:
        if h.type is None:
            return True
        hv = self.ev(h.type, fr)
        hs = list(hv) if isinstance(hv, tuple) else [hv]
        for x in hs:
            if isinstance(x, type) and issubclass(x, BaseException):
                if isinstance(exc, ExcVal) and exc.pycls is not None and issubclass(exc.pycls, x):
                    return True
                if x in (Exception, BaseException):
                    return True
            elif isinstance(x, ClassVal):
                ci = exc.ci if isinstance(exc, (Obj, ExcVal)) else None
                if ci is not None and any(k.fq == x.ci.fq for k in self.repo.mro(ci)):
                    return True
                if isinstance(exc, T) and exc.op.startswith("werkzeug."):
                    c2 = self.repo.try_cls(exc.op)
                    if c2 is not None and any(k.fq == x.ci.fq for k in self.repo.mro(c2)):
                        return True
            elif isinstance(x, ExtVal):
                if isinstance(exc, T) and exc.op == x.fq:
                    return True
        return False

    def assign(self, tg: ast.AST, v: t.Any, fr: Frame) -> None:
        if isinstance(tg, ast.Name):
            fr.owner(tg.id).vars[tg.id] = v
        elif isinstance(tg, (ast.Tuple, ast.List)):
            star = [i for i, e in enumerate(tg.elts) if isinstance(e, ast.Starred)]
            n = len(tg.elts)
            if isinstance(v, (tuple, list)):
                vals = list(v)
            elif isinstance(v, T) and v.op == "list":
                vals = list(v.args)
            elif isinstance(v, T):
                if star:
                    raise Unsupported("starred unpacking of a symbolic value")
                vals = [self.subscript(v, i) for i in range(n)]
            elif isinstance(v, (dict, set, str, bytes)):
                vals = list(v)
            else:
                vals = list(self.iterate(v))
            if star:
                i = star[0]
                after = n - i - 1
                if len(vals) < n - 1:
                    raise Raised(ExcVal("ValueError", ("not enough values to unpack",), ValueError), self.cur)
                head, mid, tail = vals[:i], vals[i : len(vals) - after], vals[len(vals) - after :] if after else []
                for e, x in zip(tg.elts[:i], head):
                    self.assign(e, x, fr)
                self.assign(tg.elts[i].value, list(mid), fr)  # type: ignore[attr-defined]
                for e, x in zip(tg.elts[i + 1 :], tail):
                    self.assign(e, x, fr)
                return
            if len(vals) != n:
                raise Raised(ExcVal("ValueError", (f"unpack {len(vals)} values into {n}",), ValueError), self.cur)
            for e, x in zip(tg.elts, vals):
                self.assign(e, x, fr)
        elif isinstance(tg, ast.Attribute):
            recv = self.ev(tg.value, fr)
            self.setattr(recv, tg.attr, v)
        elif isinstance(tg, ast.Subscript):
            recv = self.ev(tg.value, fr)
            idx = self.ev_index(tg.slice, fr)
            if isinstance(recv, dict) or (isinstance(recv, list) and not _has_sym(idx)):
                try:
                    recv[idx] = v
                except (IndexError, TypeError) as e:
                    raise Raised(ExcVal(type(e).__name__, (), type(e)), self.cur)
            elif isinstance(recv, Scripted) and "__setitem__" in recv.methods:
                recv.methods["__setitem__"](self, [idx, v], {})
            elif isinstance(recv, Obj):
                owner, what = self.repo.lookup(recv.ci, "__setitem__")
                if isinstance(what, FuncInfo) and self.should_interpret(what):
                    self.call(Bound(recv, self._fv(what)), [idx, v], {})
                else:
                    self.effect(recv, "__setitem__", (idx, freeze(v)), {}, None)
            else:
                self.effect(recv, "__setitem__", (idx, freeze(v)), {}, None)
        elif isinstance(tg, ast.Starred):
            self.assign(tg.value, v, fr)
        else:
            raise Unsupported(f"assignment target {type(tg).__name__}")

    def setattr(self, recv: t.Any, name: str, v: t.Any) -> None:
        if isinstance(recv, Obj):
            owner, what = self.repo.lookup(recv.ci, f"{name}.setter")
            if isinstance(what, FuncInfo):
                self.call(Bound(recv, self._fv(what)), [v], {})
                return
            recv.attrs[name] = v
        elif isinstance(recv, Scripted):
            recv.attrs[name] = v
            recv.log.append(("setattr", name, v))
        else:
            self.effect(recv, "__setattr__", (name, freeze(v)), {}, None)

    def effect(self, target: t.Any, method: str, args: tuple, kwargs: dict, result: t.Any) -> None:
        self.run.effects.append((target, method, tuple(args), dict(kwargs), result, self.cur))

    # -- expressions ---------------------------------------------------
    def ev(self, e: ast.AST | None, fr: Frame) -> t.Any:
        if e is None:
            return None
        if isinstance(e, ast.Constant):
            return e.value
        if isinstance(e, ast.Name):
            return self.load_name(e.id, fr)
        if isinstance(e, ast.Attribute):
            return self.getattr(self.ev(e.value, fr), e.attr)
        if isinstance(e, ast.Call):
            return self.ev_call(e, fr)
        if isinstance(e, ast.Subscript):
            return self.subscript(self.ev(e.value, fr), self.ev_index(e.slice, fr))
        if isinstance(e, ast.BinOp):
            return self.binop(e.op, self.ev(e.left, fr), self.ev(e.right, fr))
        if isinstance(e, ast.BoolOp):
            v = None
            for i, x in enumerate(e.values):
                v = self.ev(x, fr)
                last = i == len(e.values) - 1
                if last:
                    return v
                tv = self.truth(v)
                if isinstance(e.op, ast.And) and not tv:
                    return v
                if isinstance(e.op, ast.Or) and tv:
                    return v
            return v
        if isinstance(e, ast.UnaryOp):
            v = self.ev(e.operand, fr)
            if isinstance(e.op, ast.Not):
                return not self.truth(v)
            if isinstance(v, T):
                return T("unary:" + type(e.op).__name__, (v,), pytype=v.pytype)
            if isinstance(e.op, ast.USub):
                return -v
            if isinstance(e.op, ast.UAdd):
                return +v
            return ~v
        if isinstance(e, ast.Compare):
            left = self.ev(e.left, fr)
            for op, c in zip(e.ops, e.comparators):
                right = self.ev(c, fr)
                if not self.compare(op, left, right):
                    return False
                left = right
            return True
        if isinstance(e, ast.IfExp):
            return self.ev(e.body if self.truth(self.ev(e.test, fr)) else e.orelse, fr)
        if isinstance(e, (ast.Tuple, ast.List, ast.Set)):
            items: list = []
            for x in e.elts:
                if isinstance(x, ast.Starred):
                    items.extend(self.iterate(self.ev(x.value, fr)))
                else:
                    items.append(self.ev(x, fr))
            if isinstance(e, ast.Tuple):
                return tuple(items)
            if isinstance(e, ast.List):
                return items
            return set(items)
        if isinstance(e, ast.Dict):
            d: dict = {}
            for k, v in zip(e.keys, e.values):
                if k is None:
                    src = self.ev(v, fr)
                    if not isinstance(src, dict):
                        raise Unsupported("** of a non-literal mapping")
                    d.update(src)
                else:
                    d[self.ev(k, fr)] = self.ev(v, fr)
            return d
        if isinstance(e, ast.JoinedStr):
            parts: list = []
            for v in e.values:
                if isinstance(v, ast.Constant):
                    parts.append(str(v.value))
                else:
                    assert isinstance(v, ast.FormattedValue)
                    x = self.ev(v.value, fr)
                    spec = self.ev(v.format_spec, fr) if v.format_spec is not None else ""
                    conv = v.conversion if v.conversion not in (None, -1) else -1
                    if isinstance(x, T) or isinstance(spec, T) or isinstance(x, (Obj, Scripted, EnumMember)):
                        if isinstance(x, T) and x.pytype == "str" and conv in (-1, 115) and spec == "":
                            parts.append(x)
                        elif isinstance(x, T) and x.pytype == "int" and conv in (-1, 115) and spec in ("", "d"):
                            parts.append(T("str", (x,), pytype="str"))
                        else:
                            parts.append(T("format", (x if isinstance(x, T) else fmt(x), conv, spec), pytype="str"))
                    else:
                        if conv == 114:
                            x = repr(x)
                        elif conv == 115:
                            x = str(x)
                        elif conv == 97:
                            x = ascii(x)
                        try:
                            parts.append(format(x, spec))
                        except (TypeError, ValueError) as ex:
                            raise Unsupported(f"f-string: {ex}")
            return cat(parts, "str")
        if isinstance(e, (ast.ListComp, ast.SetComp, ast.GeneratorExp, ast.DictComp)):
            return self.comp(e, fr)
        if isinstance(e, ast.NamedExpr):
            v = self.ev(e.value, fr)
            self.assign(e.target, v, fr)
            return v
        if isinstance(e, ast.Lambda):
            fv = FuncVal(None, e, fr.module, closure=fr)
            fv.defaults = self.eval_defaults(e, fr)
            return fv
        if isinstance(e, ast.Yield):
            if fr.yields is None:
                raise Unsupported("yield outside a generator frame")
            fr.yields.append(self.ev(e.value, fr) if e.value is not None else None)
            return None
        if isinstance(e, ast.YieldFrom):
            if fr.yields is None:
                raise Unsupported("yield from outside a generator frame")
            fr.yields.extend(self.iterate(self.ev(e.value, fr)))
            return None
        if isinstance(e, ast.Starred):
            raise Unsupported("starred expression")
        if isinstance(e, ast.Slice):
            return self.ev_index(e, fr)
        raise Unsupported(f"expression {type(e).__name__}")

    def ev_index(self, s: ast.AST, fr: Frame) -> t.Any:
        if isinstance(s, ast.Slice):
            lo, hi, st = self.ev(s.lower, fr), self.ev(s.upper, fr), self.ev(s.step, fr)
            if any(isinstance(x, T) for x in (lo, hi, st)):
                return T("slice", (lo, hi, st))
            return slice(lo, hi, st)
        return self.ev(s, fr)

    def comp(self, e: ast.AST, fr: Frame) -> t.Any:
        results: list = []
        sub = Frame(fr.module, parent=fr, fn=fr.fn)
        sub.yields = fr.yields
        gens = e.generators  # type: ignore[attr-defined]

        def rec(i: int) -> None:
            if i == len(gens):
                if isinstance(e, ast.DictComp):
                    results.append((self.ev(e.key, sub), self.ev(e.value, sub)))
                else:
                    results.append(self.ev(e.elt, sub))  # type: ignore[attr-defined]
                return
            g = gens[i]
            for item in self.iterate_lazily(self.ev(g.iter, sub if i else fr)):
                self.assign(g.target, item, sub)
                if all(self.truth(self.ev(c, sub)) for c in g.ifs):
                    rec(i + 1)

        rec(0)
        if isinstance(e, ast.SetComp):
            return set(results)
        if isinstance(e, ast.DictComp):
            return dict(results)
        return results

    # -- iteration -------------------------------------------------------
    def lazy_of(self, v: t.Any) -> Lazy:
        if isinstance(v, Lazy):
            return v
        it = iter(list(self.iterate(v)))

        def pull() -> tuple[bool, t.Any]:
            try:
                return True, next(it)
            except StopIteration:
                return False, None

        return Lazy(pull, "iterator")

    def iterate_lazily(self, v: t.Any) -> t.Iterable[t.Any]:
        """items for a `for` statement / comprehension: a lazy source is asked for one item per iteration, so that what the loop
        body does (and a `break`) happens between two pulls"""
        if not isinstance(v, Lazy):
            return self.iterate(v)

        def gen() -> t.Iterator[t.Any]:
            n = 0
            while True:
                ok, x = v.pull()
                if not ok:
                    return
                n += 1
                if n > self.max_loop:
                    if self.truncate_loops:
                        raise PathCut()
                    raise Unsupported(f"unbounded iteration over {v.what}")
                yield x

        return gen()

    def iterate(self, v: t.Any) -> t.Iterable[t.Any]:
        if isinstance(v, Lazy):
            out = []
            while True:
                ok, x = v.pull()
                if not ok:
                    return out
                out.append(x)
                if len(out) > self.max_loop:
                    raise Unsupported(f"unbounded iteration over {v.what}")
        if isinstance(v, list):
            return _LiveList(v)
        if isinstance(v, (tuple, set, frozenset, range, str)):
            return list(v)
        if isinstance(v, (bytes, bytearray)):
            return list(v)
        if isinstance(v, dict):
            return list(v.keys())
        if type(v).__name__ in ("dict_items", "dict_keys", "dict_values", "zip", "enumerate", "map", "filter", "reversed", "list_reverseiterator", "list_iterator", "tuple_iterator", "generator"):
            return list(v)
        if isinstance(v, T):
            if v.op == "list":
                return list(v.args)
            el_type = None
            if v.op in (".splitlines", ".split", ".rsplit") and v.args and isinstance(v.args[0], T):
                el_type = v.args[0].pytype
            self.run.notes.append(f"iteration over opaque `{fmt(v, 3)}` modelled as one element")
            return [T("elem", (v,), pytype=el_type)]
        if isinstance(v, Scripted):
            if "__iter__" in v.methods:
                return list(v.methods["__iter__"](self, [], {}))
            if v.items is not None:
                return list(v.items)
            raise Unsupported(f"iteration over {v.label}")
        if isinstance(v, ClassVal) and self._is_enum(v.ci):
            return [EnumMember(v.ci.fq, n) for n in v.ci.attrs if not n.startswith("_")]
        if isinstance(v, Obj):
            if getattr(v, "is_record", False) and self._is_namedtuple(v.ci):
                return list(v.attrs.values())
            owner, what = self.repo.lookup(v.ci, "__iter__")
            if isinstance(what, FuncInfo):
                return self.iterate(self.call(Bound(v, self._fv(what)), [], {}))
        raise Unsupported(f"iteration over {fmt(v, 2)}")

    # -- subscripts ------------------------------------------------------
    def subscript(self, recv: t.Any, idx: t.Any) -> t.Any:
        if isinstance(recv, ByteBuf):
            recv = recv.value()
        if isinstance(recv, (str, bytes, tuple, list, range, bytearray)) and not _has_sym(idx):
            try:
                r = recv[idx]
            except (IndexError, TypeError) as e:
                raise Raised(ExcVal(type(e).__name__, (), type(e)), self.cur)
            return bytes(r) if isinstance(r, bytearray) else r
        if isinstance(recv, dict):
            try:
                return recv[idx]
            except KeyError:
                raise Raised(ExcVal("KeyError", (idx,), KeyError), self.cur)
            except TypeError:
                raise Unsupported("unhashable dictionary key")
        if isinstance(recv, Scripted):
            if "__getitem__" in recv.methods:
                return recv.methods["__getitem__"](self, [idx], {})
            raise Unsupported(f"{recv.label}[...]")
        if isinstance(recv, Obj):
            if getattr(recv, "is_record", False) and self._is_namedtuple(recv.ci) and isinstance(idx, (int, slice)):
                return self.subscript(tuple(recv.attrs.values()), idx)
            owner, what = self.repo.lookup(recv.ci, "__getitem__")
            if isinstance(what, FuncInfo) and self.should_interpret(what):
                return self.call(Bound(recv, self._fv(what)), [idx], {})
            return T("[]", (recv, idx))
        if isinstance(recv, T):
            if recv.op == "list" and isinstance(idx, int):
                try:
                    return recv.args[idx]
                except IndexError:
                    raise Raised(ExcVal("IndexError", (), IndexError), self.cur)
            if recv.pytype is None and isinstance(idx, str):
                # a mapping-like opaque value: inside `try: ... except KeyError` the lookup may fail; the decision is the
                # same one an `idx in recv` test takes, so both spellings of a presence test agree on a path
                known = self.run.assumed("in", idx, recv)
                if known is False or (known is None and self.try_stack and self.catches_lookup_error(None) and not self.decide("in", idx, recv, text=f"{idx!r} in {fmt(recv, 2)}")):  # type: ignore[arg-type]
                    raise Raised(ExcVal("KeyError", (idx,), KeyError), self.cur)
            pt = None
            if recv.pytype in ("str", "bytes"):
                pt = recv.pytype if isinstance(idx, (slice, T)) and (isinstance(idx, slice) or idx.op == "slice") else ("int" if recv.pytype == "bytes" else "str")
            return T("[]", (recv, idx), pytype=pt, src=self.cur)
        if isinstance(recv, (ExtVal, ClassVal, type)):
            return recv  # generic alias: list[int], t.Callable[...]
        if isinstance(recv, (list, tuple, str, bytes)):
            return T("[]", (freeze(recv), idx), src=self.cur)
        raise Unsupported(f"subscript of {fmt(recv, 2)}")

    # -- operators -------------------------------------------------------
    def binop(self, op: ast.operator, a: t.Any, b: t.Any) -> t.Any:
        if isinstance(a, ByteBuf):
            a = a.value()
        if isinstance(b, ByteBuf):
            b = b.value()
        sym_ = isinstance(a, T) or isinstance(b, T)
        if isinstance(op, ast.Add) and sym_ and (is_texty(a) or is_texty(b)) and not (isinstance(a, T) and a.pytype == "int") and not (isinstance(b, T) and b.pytype == "int"):
            return cat([a, b])
        if isinstance(op, ast.Mod) and isinstance(a, (str, bytes)):
            if _has_sym(b) or isinstance(b, tuple):
                return printf(a, b)
        if isinstance(op, ast.Add) and isinstance(a, list) and isinstance(b, list):
            return a + b
        if not sym_ and not isinstance(a, (Obj, Scripted)) and not isinstance(b, (Obj, Scripted)):
            fn = _BINOPS.get(type(op))
            if fn is None:
                raise Unsupported(f"operator {type(op).__name__}")
            try:
                return fn(a, b)
            except (TypeError, ValueError, ZeroDivisionError) as e:
                if isinstance(a, (list, tuple)) and any(isinstance(x, T) for x in a):
                    return T("binop:" + type(op).__name__, (freeze(a), freeze(b)))
                raise Raised(ExcVal(type(e).__name__, (str(e),), type(e)), self.cur)
        pt = "int" if (ptype(a) == "int" and ptype(b) == "int") else None
        return T("binop:" + type(op).__name__, (freeze(a), freeze(b)), pytype=pt, src=self.cur)

    def compare(self, op: ast.cmpop, a: t.Any, b: t.Any) -> bool:
        if isinstance(op, (ast.Is, ast.IsNot)):
            r = self._is(a, b)
            return r if isinstance(op, ast.Is) else not r
        if isinstance(op, (ast.In, ast.NotIn)):
            r = self._in(a, b)
            return r if isinstance(op, ast.In) else not r
        if isinstance(op, (ast.Eq, ast.NotEq)):
            r = self._eq(a, b)
            return r if isinstance(op, ast.Eq) else not r
        sym_ = _has_sym(a) or _has_sym(b)
        if not sym_:
            fn = _CMPOPS[type(op)]
            try:
                return bool(fn(a, b))
            except TypeError as e:
                raise Raised(ExcVal("TypeError", (str(e),), TypeError), self.cur)
        # order comparisons: canonical key  x < y
        if isinstance(op, ast.Lt):
            return self._lt(a, b)
        if isinstance(op, ast.Gt):
            return self._lt(b, a)
        if isinstance(op, ast.LtE):
            return not self._lt(b, a)
        if isinstance(op, ast.GtE):
            return not self._lt(a, b)
        raise Unsupported("comparison operator")

    def _lt(self, a: t.Any, b: t.Any) -> bool:
        # len(x) > 0  /  0 < len(x)  /  len(x) < 1
        if isinstance(b, T) and b.op == "len" and a == 0 and not isinstance(a, bool):
            return self.truth(b.args[0])
        if isinstance(a, T) and a.op == "len" and b == 1 and not isinstance(b, bool):
            return not self.truth(a.args[0])
        if isinstance(a, T) and a.op == "len" and isinstance(b, int) and b <= 0:
            return False
        return self.decide("lt", a, b, text=f"{fmt(a, 2)} < {fmt(b, 2)}")

    def _is(self, a: t.Any, b: t.Any) -> bool:
        if a is None or b is None:
            x = b if a is None else a
            if x is None:
                return True
            if isinstance(x, T):
                if x.nonnone:
                    return False
                return self.decide("isnone", x, text=f"{fmt(x, 2)} is None")
            return False
        if isinstance(a, T) and isinstance(b, T):
            return a == b
        if isinstance(a, ClassVal) or isinstance(b, ClassVal):
            return a == b
        if isinstance(a, type) and isinstance(b, type):
            return a is b
        if isinstance(a, (bool, EnumMember)) or isinstance(b, (bool, EnumMember)):
            return (not isinstance(a, T)) and (not isinstance(b, T)) and a == b and type(a) is type(b)
        return a is b

    def _eq_kind(self, v: t.Any) -> tuple[str, t.Any] | None:
        """how `==` treats a value: ("data", class) - instance of a dataclass of the package: equal to instances of exactly its
        class with equal fields, NotImplemented otherwise; ("id", class) - instance of a package class that inherits
        object.__eq__ (no __eq__ anywhere in its MRO, no builtin / stdlib base); ("py", None) - None, a number, text, a tuple,
        list, dict or set; None - not known (custom __eq__, builtin base, opaque value)"""
        ci = None
        if isinstance(v, Obj):
            ci = v.ci
        elif isinstance(v, T) and v.uid is not None and v.op.startswith("werkzeug."):
            ci = self.repo.try_cls(v.op)
            if ci is None:
                return None
        if ci is not None:
            for i, k in enumerate(self.repo.mro(ci)):
                if not isinstance(k, ClassInfo) or "__eq__" in k.methods or "__eq__" in k.attrs:
                    return None
                for d in k.node.decorator_list:
                    if (dotted(d.func if isinstance(d, ast.Call) else d) or "").rsplit(".", 1)[-1] == "dataclass":
                        if isinstance(d, ast.Call) and any(kw.arg == "eq" for kw in d.keywords):
                            return None
                        return ("data", ci) if i == 0 and isinstance(v, Obj) and getattr(v, "is_record", False) else None
            return ("id", ci)
        if v is None or isinstance(v, (bool, int, float, str, bytes, bytearray, tuple, list, dict, set, frozenset, ByteBuf)):
            return ("py", None)
        if isinstance(v, T) and v.pytype in ("str", "bytes", "int", "bool", "tuple", "list"):
            return ("py", None)
        return None

    def _eq(self, a: t.Any, b: t.Any) -> bool:
        if not _has_sym(a) and not _has_sym(b):
            return a == b
        ka, kb = self._eq_kind(a), self._eq_kind(b)
        if ka is not None and kb is not None and (ka[0] != "py" or kb[0] != "py"):
            # python's protocol: a.__eq__(b), then the reflected call, then identity
            if ka[0] == "data" and kb[0] == "data" and ka[1].fq == kb[1].fq:
                if a is b:
                    return True
                return all(self._eq(a.attrs.get(n), b.attrs.get(n)) for n, _ in self.record_fields(ka[1]))
            if isinstance(a, T) and isinstance(b, T):
                return a == b  # the key of a term carries the uid of the constructor call
            return a is b
        if not _has_term(a) and not _has_term(b):
            if isinstance(a, (Obj, Scripted)) or isinstance(b, (Obj, Scripted)):
                return a is b
            return vkey(a) == vkey(b)
        if vkey(a) == vkey(b):
            return True
        # len(x) == 0
        for x, y in ((a, b), (b, a)):
            if isinstance(x, T) and x.op == "len" and isinstance(y, int) and not isinstance(y, bool):
                if y == 0:
                    return not self.truth(x.args[0])
                if y < 0:
                    return False
            if isinstance(x, T) and x.pytype in ("str", "bytes") and isinstance(y, (str, bytes)) and len(y) == 0:
                return not self.truth(x)
            if isinstance(x, T) and x.pytype in ("str", "bytes") and x.truthy is False and isinstance(y, (str, bytes)) and len(y) > 0:
                return False
            if isinstance(x, T) and x.nonnone and y is None:
                return False
            if isinstance(x, T) and x.pytype in ("str", "bytes") and y is not None and ptype(y) is not None and ptype(y) != x.pytype:
                return False
        sa, sb = sorted([a, b], key=lambda z: repr(vkey(z)))
        # an object on either side whose __eq__ is not modelled: both answers are explored, but neither is known to be possible
        doubtful = any(isinstance(x, (Obj, Scripted, FuncVal, Bound, BoundPy, BoundBuiltin, ClassVal)) or (isinstance(x, T) and x.uid is not None) for x in (a, b))
        return self.decide("eq", sa, sb, text=f"{fmt(a, 2)} == {fmt(b, 2)}", doubtful=doubtful)

    def _in(self, a: t.Any, b: t.Any) -> bool:
        if isinstance(b, (set, frozenset, dict, list, tuple)) and not _has_sym(a):
            try:
                if not any(_has_sym(x) for x in b):
                    return a in b
            except TypeError:
                pass
        if isinstance(b, (str, bytes)) and isinstance(a, (str, bytes)):
            return a in b
        if isinstance(b, (set, frozenset, dict, list, tuple)):
            ka = vkey(a)
            if any(vkey(x) == ka for x in b):
                return True
            if not b or (not _has_term(a) and not _has_term(list(b))):
                return False
            kinds = [self._eq_kind(x) for x in [a, *b]]
            if all(kd is not None for kd in kinds) and (kinds[0][0] != "py" or all(kd[0] != "py" for kd in kinds[1:])):  # type: ignore[index]
                return any(self._eq(a, x) for x in b)  # membership is `is` or `==` per element, and `==` is known for these
            doubtful = any(isinstance(x, (Obj, Scripted, FuncVal, Bound, BoundPy, BoundBuiltin)) or (isinstance(x, T) and x.uid is not None) for x in [a, *b])
            return self.decide("in", a, freeze(b if not isinstance(b, dict) else list(b)), text=f"{fmt(a, 2)} in {fmt(b if not isinstance(b, dict) else list(b), 2)}", doubtful=doubtful)
        if isinstance(b, Scripted):
            if "__contains__" in b.methods:
                return self.truth(b.methods["__contains__"](self, [a], {}))
            raise Unsupported(f"`in {b.label}`")
        if isinstance(b, Obj):
            owner, what = self.repo.lookup(b.ci, "__contains__")
            if isinstance(what, FuncInfo) and self.should_interpret(what):
                return self.truth(self.call(Bound(b, self._fv(what)), [a], {}))
        return self.decide("in", a, b, text=f"{fmt(a, 2)} in {fmt(b, 2)}")

    # -- attributes ------------------------------------------------------
    def getattr(self, recv: t.Any, name: str, default: t.Any = None, has_default: bool = False) -> t.Any:
        def missing(what: str) -> t.Any:
            if has_default:
                return default
            raise Raised(ExcVal("AttributeError", (f"{what} has no attribute {name}",), AttributeError), self.cur)

        if isinstance(recv, Obj):
            if name in recv.attrs:
                return recv.attrs[name]
            owner, what = self.repo.lookup(recv.ci, name)
            if isinstance(what, FuncInfo):
                decs = [d.rsplit(".", 1)[-1] for d in what.decorators]
                fv = FuncVal(what, what.node, what.module)
                if "property" in decs or "cached_property" in decs:
                    v = self.call(Bound(recv, fv), [], {})
                    if "cached_property" in decs:
                        recv.attrs[name] = v
                    return v
                if "staticmethod" in decs:
                    return fv
                if "classmethod" in decs:
                    return Bound(ClassVal(recv.ci), fv)
                if decs:
                    raise Unsupported(f"decorated method {what.fq}")
                return Bound(recv, fv)
            if what == "builtin":
                return T("attr:" + name, (recv,))
            if isinstance(what, ast.AST):
                assert isinstance(owner, ClassInfo)
                return self.ev(what, self.class_frame(owner))
            if name == "__dict__":
                return recv.attrs
            if name == "__class__":
                return ClassVal(recv.ci)
            if getattr(recv, "is_record", False):
                return missing(recv.ci.name)
            v = T(f"${recv.label}.{name}", nonnone=False)
            recv.attrs[name] = v
            return v
        if isinstance(recv, ByteBuf):
            if name == "extend":
                return BoundPy(recv, name, lambda ip, a, k: recv.parts.append(a[0] if not isinstance(a[0], ByteBuf) else a[0].value()))
            if name == "clear":
                return BoundPy(recv, name, lambda ip, a, k: recv.parts.clear())
            if name == "append":
                raise Unsupported("bytearray.append")
            v = recv.value()
            return self.getattr(v, name)
        if isinstance(recv, Scripted):
            if name in recv.attrs:
                return recv.attrs[name]
            if name in recv.methods:
                return BoundPy(recv, name, recv.methods[name])
            if isinstance(recv, FileModel):
                return BoundPy(recv, name, _file_method(recv, name))
            if getattr(recv, "strict", False):
                # the scripted object stands for an instance of a package class: what the script does not cover is
                # what the class itself defines (a private helper extracted from the method under analysis)
                ci = self.repo.try_cls(recv.cls_fq) if recv.cls_fq and not has_default else None
                if ci is not None:
                    owner, what = self.repo.lookup(ci, name)
                    if isinstance(what, FuncInfo):
                        decs = [d.rsplit(".", 1)[-1] for d in what.decorators]
                        fv = FuncVal(what, what.node, what.module)
                        if not self.should_interpret(what) or any(d not in ("staticmethod", "classmethod") for d in decs):
                            raise Unsupported(f"{recv.label}.{name}: {what.fq} is defined by the class but neither scripted nor followed")
                        if "staticmethod" in decs:
                            return fv
                        if "classmethod" in decs:
                            return Bound(ClassVal(ci), fv)
                        return Bound(recv, fv)
                    if isinstance(what, ast.AST) and isinstance(owner, ClassInfo) and owner.module.name in self.open_modules:
                        return self.ev(what, self.class_frame(owner))
                return missing(recv.label)
            v = T(f"${recv.label}.{name}", nonnone=False)
            recv.attrs[name] = v
            return v
        if isinstance(recv, T):
            if recv.pytype in ("str", "bytes", "int", "bool", "tuple", "list"):
                real = {"str": str, "bytes": bytes, "int": int, "bool": bool, "tuple": tuple, "list": list}[recv.pytype]
                if not hasattr(real, name):
                    return missing(recv.pytype)
            return T("attr:" + name, (recv,), src=self.cur)
        if isinstance(recv, ClassVal):
            ci = recv.ci
            if self._is_enum(ci) and name in ci.attrs:
                return EnumMember(ci.fq, name)
            owner, what = self.repo.lookup(ci, name)
            if isinstance(what, FuncInfo):
                decs = [d.rsplit(".", 1)[-1] for d in what.decorators]
                fv = FuncVal(what, what.node, what.module)
                if "classmethod" in decs:
                    return Bound(recv, fv)
                return fv
            if isinstance(what, ast.AST):
                assert isinstance(owner, ClassInfo)
                return self.ev(what, self.class_frame(owner))
            if name == "__name__":
                return ci.name
            return missing(ci.name)
        if isinstance(recv, ExtVal):
            if recv.fq in self.repo.modules:
                return self.from_fq(f"{recv.fq}.{name}")
            if recv.fq in ("typing", "typing_extensions") and name == "TYPE_CHECKING":
                return False
            if f"{recv.fq}.{name}" in _ABC_TYPES:
                return _ABC_TYPES[f"{recv.fq}.{name}"]
            if recv.fq == "re" and name in ("A", "ASCII", "I", "IGNORECASE", "M", "MULTILINE", "S", "DOTALL", "X", "VERBOSE", "U", "UNICODE"):
                return int(getattr(re, name))
            return ExtVal(f"{recv.fq}.{name}")
        if isinstance(recv, RegexVal):
            if name in ("pattern", "flags"):
                return getattr(recv.rx, name)
            return BoundBuiltin(recv, name)
        if isinstance(recv, EnumMember):
            if name == "name":
                return recv.name
            if name == "value":
                return T("enum-value", (recv.cls_fq, recv.name))
            return missing("enum member")
        if isinstance(recv, (str, bytes, list, dict, tuple, set, frozenset, int, bytearray, range)) and not isinstance(recv, bool):
            if not hasattr(recv, name):
                return missing(type(recv).__name__)
            return BoundBuiltin(recv, name)
        if recv is None or isinstance(recv, bool):
            return missing(type(recv).__name__)
        if isinstance(recv, (FuncVal, Bound, BoundPy, BoundBuiltin)):
            if name == "__name__" and isinstance(recv, FuncVal):
                return getattr(recv.node, "name", "<lambda>")
            return missing("function")
        if isinstance(recv, ExcVal):
            if name == "args":
                return recv.args
            return missing(recv.name)
        if isinstance(recv, type):
            if hasattr(recv, name):
                return BoundBuiltin(recv, name)
            return missing(recv.__name__)
        if type(recv).__name__ in ("dict_items", "dict_keys", "dict_values"):
            return BoundBuiltin(recv, name)
        raise Unsupported(f"attribute {name} of {fmt(recv, 2)}")

    def _is_enum(self, ci: ClassInfo) -> bool:
        return any(k.fq.startswith("enum.") for k in self.repo.mro(ci)[1:])

    def _is_namedtuple(self, ci: ClassInfo) -> bool:
        return any(k.fq in ("typing.NamedTuple", "typing_extensions.NamedTuple") for k in self.repo.mro(ci)[1:]) or any((dotted(b) or "").endswith("NamedTuple") for b in ci.base_exprs)

    def _is_dataclass(self, ci: ClassInfo) -> bool:
        if self._is_namedtuple(ci):
            return True
        return any((dotted(d.func if isinstance(d, ast.Call) else d) or "").rsplit(".", 1)[-1] == "dataclass" for d in ci.node.decorator_list)

    def record_fields(self, ci: ClassInfo) -> list[tuple[str, ast.AST | None]]:
        out: list[tuple[str, ast.AST | None]] = []
        for k in reversed(self.repo.mro(ci)):
            if isinstance(k, ClassInfo) and self._is_dataclass(k):
                for st in k.node.body:
                    if isinstance(st, ast.AnnAssign) and isinstance(st.target, ast.Name):
                        out = [(n, d) for n, d in out if n != st.target.id] + [(st.target.id, st.value)]
        return out

    # -- calls -----------------------------------------------------------
    def should_interpret(self, fi: FuncInfo) -> bool:
        return fi.module.name in self.open_modules and fi.fq not in self.opaque and (fi.cls is None or fi.cls.fq not in self.opaque)

    def ev_call(self, e: ast.Call, fr: Frame) -> t.Any:
        # super().method(...)
        if isinstance(e.func, ast.Attribute) and isinstance(e.func.value, ast.Call) and isinstance(e.func.value.func, ast.Name) and e.func.value.func.id == "super" and not e.func.value.args:
            ok, selfv = fr.lookup("self")
            if ok and isinstance(selfv, Obj) and fr.fn is not None and fr.fn.cls is not None:
                owner, what = self.repo.lookup(selfv.ci, e.func.attr, after=fr.fn.cls.fq)
                args, kwargs = self.ev_args(e, fr)
                if isinstance(what, FuncInfo) and self.should_interpret(what):
                    return self.call(Bound(selfv, self._fv(what)), args, kwargs)
                r = T(f"super.{e.func.attr}", (selfv,) + tuple(freeze(a) for a in args), tuple((k, freeze(v)) for k, v in kwargs.items()))
                self.effect(selfv, f"super.{e.func.attr}", tuple(args), kwargs, r)
                return r
            raise Unsupported("super() outside a method")
        fn = self.ev(e.func, fr)
        args, kwargs = self.ev_args(e, fr)
        self.cur = (fr.fn, e)
        return self.call(fn, args, kwargs)

    def ev_args(self, e: ast.Call, fr: Frame) -> tuple[list, dict]:
        args: list = []
        for a in e.args:
            if isinstance(a, ast.Starred):
                args.extend(self.iterate(self.ev(a.value, fr)))
            else:
                args.append(self.ev(a, fr))
        kwargs: dict = {}
        for kw in e.keywords:
            v = self.ev(kw.value, fr)
            if kw.arg is None:
                if not isinstance(v, dict):
                    raise Unsupported("** of a non-literal mapping in a call")
                kwargs.update(v)
            else:
                kwargs[kw.arg] = v
        return args, kwargs

    def call(self, fn: t.Any, args: list, kwargs: dict) -> t.Any:
        if isinstance(fn, Bound):
            return self.call_function(fn.fn, [fn.recv] + list(args), kwargs)
        if isinstance(fn, FuncVal):
            return self.call_function(fn, list(args), kwargs)
        if isinstance(fn, BoundPy):
            return fn.fn(self, list(args), kwargs)
        if isinstance(fn, BoundBuiltin):
            return self.call_builtin_method(fn.recv, fn.name, list(args), kwargs)
        if isinstance(fn, ClassVal):
            return self.instantiate(fn.ci, list(args), kwargs)
        if isinstance(fn, ExtVal):
            return self.call_ext(fn.fq, list(args), kwargs)
        if isinstance(fn, _Builtin):
            return fn.fn(self, list(args), kwargs)
        if isinstance(fn, type):
            return self.call_type(fn, list(args), kwargs)
        if isinstance(fn, T):
            if fn.op.startswith("attr:"):
                return self.call_method_on_term(fn.args[0], fn.op[5:], list(args), kwargs)
            r = T("call", (fn,) + tuple(freeze(a) for a in args), tuple((k, freeze(v)) for k, v in kwargs.items()), uid=next(_counter), src=self.cur)
            self.effect(fn, "__call__", tuple(args), kwargs, r)
            return r
        raise Unsupported(f"call of {fmt(fn, 2)}")

    def call_method_on_term(self, recv: T, name: str, args: list, kwargs: dict) -> t.Any:
        if recv.pytype in ("str", "bytes") or isinstance(recv, (str, bytes)):
            return self.text_method(recv, name, args, kwargs)
        if recv.pytype == "match" and name == "span" and not kwargs and (not args or args == [0]):
            return (T(".start", (recv,), pytype="int", src=self.cur), T(".end", (recv,), pytype="int", src=self.cur))
        if recv.pytype == "match" and name in ("start", "end") and not kwargs and (not args or args == [0]):
            return T("." + name, (recv,), pytype="int", src=self.cur)
        pt = "match" if (recv.pytype is None and name in ("search", "match", "fullmatch")) else None
        r = T("." + name, (recv,) + tuple(freeze(a) for a in args), tuple((k, freeze(v)) for k, v in kwargs.items()), pytype=pt, src=self.cur)
        if pt == "match":
            r.nonnone = False
        self.effect(recv, name, tuple(args), kwargs, r)
        return r

    def text_method(self, recv: t.Any, name: str, args: list, kwargs: dict) -> t.Any:
        kind = ptype(recv)
        if name == "encode" and kind == "str":
            return encode(recv, *(args[:2]), **{k: v for k, v in kwargs.items() if k in ("encoding", "errors")}) if not kwargs else encode(recv, kwargs.get("encoding", args[0] if args else "utf-8"), kwargs.get("errors", args[1] if len(args) > 1 else "strict"))
        if name == "decode" and kind == "bytes":
            return decode(recv, kwargs.get("encoding", args[0] if args else "utf-8"), kwargs.get("errors", args[1] if len(args) > 1 else "strict"))
        if name == "join":
            if len(args) != 1:
                raise Unsupported("join arity")
            items = list(self.iterate(args[0]))
            if any(isinstance(x, T) and x.op == "elem" for x in items):
                return T(".join", (recv, freeze(args[0])), pytype=kind, src=self.cur)
            parts: list = []
            for i, x in enumerate(items):
                if i:
                    parts.append(recv)
                parts.append(x)
            return cat(parts, kind)
        if name not in _STR_RESULT:
            real = str if kind == "str" else bytes
            if not hasattr(real, name):
                raise Raised(ExcVal("AttributeError", (name,), AttributeError), self.cur)
            return T("." + name, (recv,) + tuple(freeze(a) for a in args), tuple((k, freeze(v)) for k, v in kwargs.items()), src=self.cur)
        rt = _STR_RESULT[name] or kind
        tr = recv.truthy if (isinstance(recv, T) and name in _TRUTH_KEEPING) else None
        return T("." + name, (recv,) + tuple(freeze(a) for a in args), tuple((k, freeze(v)) for k, v in kwargs.items()), pytype=rt, truthy=tr, src=self.cur)

    def call_builtin_method(self, recv: t.Any, name: str, args: list, kwargs: dict) -> t.Any:
        if isinstance(recv, RegexVal):
            if not _has_sym(args) and not _has_sym(kwargs) and name in ("match", "search", "fullmatch", "sub", "split", "findall"):
                try:
                    r = getattr(recv.compiled, name)(*[bytes(a) if isinstance(a, bytearray) else a for a in args], **kwargs)
                except (TypeError, ValueError) as e:
                    raise Raised(ExcVal(type(e).__name__, (str(e),), type(e)), self.cur)
                if isinstance(r, re.Match):
                    return _match_model(r)
                return r
            pt = "match" if name in ("match", "search", "fullmatch") else None
            if name == "sub" and len(args) >= 2:
                pt = ptype(args[1])
            r = T("." + name, (recv,) + tuple(freeze(a) for a in args), tuple((k, freeze(v)) for k, v in kwargs.items()), pytype=pt, nonnone=name not in ("match", "search", "fullmatch"), src=self.cur)
            return r
        if isinstance(recv, (str, bytes)):
            if name in ("encode", "decode", "join") and (_has_sym(args) or _has_sym(kwargs) or name == "join"):
                if name == "join":
                    return self.text_method(recv, name, args, kwargs)
                return self.text_method(recv, name, args, kwargs)
            if name == "encode":
                return encode(recv, kwargs.get("encoding", args[0] if args else "utf-8"), kwargs.get("errors", args[1] if len(args) > 1 else "strict"))
            if name == "decode":
                return decode(recv, kwargs.get("encoding", args[0] if args else "utf-8"), kwargs.get("errors", args[1] if len(args) > 1 else "strict"))
            if name == "format" and (_has_sym(args) or _has_sym(kwargs)):
                r = _format_method(recv, args, kwargs) if isinstance(recv, str) else None
                if r is not None:
                    return r
                return T(".format", (recv,) + tuple(freeze(a) for a in args), tuple((k, freeze(v)) for k, v in kwargs.items()), pytype=ptype(recv), src=self.cur)
            if _has_sym(args) or _has_sym(kwargs):
                return self.text_method(recv, name, args, kwargs)
        if isinstance(recv, list) and name == "sort":
            if any(_has_sym(x) for x in recv) or kwargs.get("key") is not None:
                snap = freeze(list(recv))
                recv[:] = [T("$reordered-by-sort", (snap,))]
                return None
        if isinstance(recv, list) and name == "extend" and len(args) == 1:
            recv.extend(list(self.iterate(args[0])))
            return None
        if isinstance(recv, dict) and name == "update":
            for a in args:
                if isinstance(a, dict):
                    recv.update(a)
                else:
                    for kv in self.iterate(a):
                        k, v = (kv if isinstance(kv, (tuple, list)) else [self.subscript(kv, 0), self.subscript(kv, 1)])
                        recv[k] = v
            recv.update(kwargs)
            return None
        if isinstance(recv, type):
            # str.lower(x), dict.fromkeys ...
            if args and isinstance(args[0], T):
                return self.call_method_on_term(args[0], name, args[1:], kwargs)
        try:
            r = getattr(recv, name)(*args, **kwargs)
        except (KeyError, IndexError, ValueError, TypeError, AttributeError, UnicodeError, StopIteration) as e:
            if isinstance(e, TypeError) and (_has_sym(args) or _has_sym(recv)):
                return T("." + name, (freeze(recv),) + tuple(freeze(a) for a in args), tuple((k, freeze(v)) for k, v in kwargs.items()), src=self.cur)
            raise Raised(ExcVal(type(e).__name__, tuple(e.args), type(e)), self.cur)
        if isinstance(r, bytearray):
            r = bytes(r)
        if type(r).__name__ in ("dict_items", "dict_keys", "dict_values"):
            return list(r)
        return r

    def call_type(self, ty: type, args: list, kwargs: dict) -> t.Any:
        if issubclass(ty, BaseException):
            return ExcVal(ty.__name__, tuple(args), ty)
        a0 = args[0] if args else None
        if ty is str:
            if not args:
                return ""
            if isinstance(a0, T):
                if len(args) > 1 or kwargs:
                    return decode(a0, kwargs.get("encoding", args[1] if len(args) > 1 else "utf-8"), kwargs.get("errors", args[2] if len(args) > 2 else "strict"))
                return a0 if a0.pytype == "str" else T("str", (a0,), pytype="str", src=self.cur)
            if isinstance(a0, (Obj, Scripted, EnumMember)):
                return T("str", (fmt(a0),), pytype="str")
        if ty is bytearray and (not args or isinstance(a0, (bytes, bytearray, T, ByteBuf))) and not kwargs:
            init = a0.value() if isinstance(a0, ByteBuf) else (bytes(a0) if isinstance(a0, bytearray) else a0)
            return ByteBuf(init)
        if ty is bytes and isinstance(a0, ByteBuf):
            return a0.value()
        if ty in (bytes, bytearray):
            if not args:
                return b""
            if isinstance(a0, T):
                if a0.pytype == "str":
                    return encode(a0, kwargs.get("encoding", args[1] if len(args) > 1 else "utf-8"))
                return a0 if a0.pytype == "bytes" else T("bytes", (a0,), pytype="bytes", src=self.cur)
        if ty is bool:
            return self.truth(a0) if args else False
        if ty is int and isinstance(a0, T):
            return T("int", tuple(args), pytype="int", src=self.cur)
        if ty in (list, tuple, set, frozenset) and args:
            items = list(self.iterate(a0))
            return ty(items)
        if ty is dict:
            d: dict = {}
            if args:
                if isinstance(a0, dict):
                    d.update(a0)
                else:
                    for kv in self.iterate(a0):
                        if isinstance(kv, (tuple, list)) and len(kv) == 2:
                            d[kv[0]] = kv[1]
                        else:
                            d[self.subscript(kv, 0)] = self.subscript(kv, 1)
            d.update(kwargs)
            return d
        if _has_sym(args) or _has_sym(kwargs):
            return T(ty.__name__, tuple(freeze(a) for a in args), tuple((k, freeze(v)) for k, v in kwargs.items()), src=self.cur)
        try:
            return ty(*args, **kwargs)
        except (TypeError, ValueError) as e:
            raise Raised(ExcVal(type(e).__name__, tuple(e.args), type(e)), self.cur)

    def eval_defaults(self, node: ast.AST, fr: Frame) -> dict[str, t.Any]:
        a = node.args  # type: ignore[attr-defined]
        pos = [x.arg for x in a.posonlyargs + a.args]
        out = {n: self.ev(d, fr) for n, d in zip(pos[len(pos) - len(a.defaults) :], a.defaults)}
        for x, d in zip(a.kwonlyargs, a.kw_defaults):
            if d is not None:
                out[x.arg] = self.ev(d, fr)
        return out

    def bind(self, node: ast.AST, args: list, kwargs: dict, module: Module, what: str, pre: dict[str, t.Any] | None = None) -> dict[str, t.Any]:
        a = node.args  # type: ignore[attr-defined]
        pos = [x.arg for x in a.posonlyargs + a.args]
        env: dict[str, t.Any] = {}
        if len(args) > len(pos) and not a.vararg:
            raise Raised(ExcVal("TypeError", (f"{what}: too many positional arguments",), TypeError), self.cur)
        for n, v in zip(pos, args):
            env[n] = v
        if a.vararg:
            env[a.vararg.arg] = tuple(args[len(pos) :])
        extra: dict = {}
        names = set(pos[len(a.posonlyargs) :]) | {x.arg for x in a.kwonlyargs}
        for k, v in kwargs.items():
            if k in names:
                if k in env:
                    raise Raised(ExcVal("TypeError", (f"{what}: multiple values for {k}",), TypeError), self.cur)
                env[k] = v
            elif a.kwarg:
                extra[k] = v
            else:
                raise Raised(ExcVal("TypeError", (f"{what}: unexpected keyword {k}",), TypeError), self.cur)
        if a.kwarg:
            env[a.kwarg.arg] = extra
        dfr = Frame(module)
        defaults = dict(zip(pos[len(pos) - len(a.defaults) :], a.defaults))
        for n in pos:
            if n not in env:
                if pre is not None and n in pre:
                    env[n] = pre[n]
                elif n in defaults:
                    env[n] = self.ev(defaults[n], dfr)
                else:
                    raise Raised(ExcVal("TypeError", (f"{what}: missing argument {n}",), TypeError), self.cur)
        for x, d in zip(a.kwonlyargs, a.kw_defaults):
            if x.arg not in env:
                if pre is not None and x.arg in pre:
                    env[x.arg] = pre[x.arg]
                    continue
                if d is None:
                    raise Raised(ExcVal("TypeError", (f"{what}: missing keyword argument {x.arg}",), TypeError), self.cur)
                env[x.arg] = self.ev(d, dfr)
        return env

    def foreign_candidate(self, fi: FuncInfo) -> bool:
        """a small module-level function of another module of the package (e.g. a helper that was moved there): worth an
        attempt at interpretation; on Unsupported the call stays opaque"""
        if fi.cls is not None or fi.fq in self.opaque or fi.fq in KEEP_OPAQUE or fi.decorators:
            return False
        n = sum(1 for x in ast.walk(fi.node) if isinstance(x, ast.stmt)) - 1
        return n <= 14

    def call_function(self, fv: FuncVal, args: list, kwargs: dict) -> t.Any:
        fi = fv.fi
        if fi is not None:
            stub = self.stubs.get(fi.fq)
            if stub is not None:
                return stub(self, args, kwargs)
            if not self.should_interpret(fi):
                if self.foreign_candidate(fi):
                    mark, asked = len(self.run.effects), len(self.run.taken)
                    try:
                        return self._interpret(fv, args, kwargs)
                    except Unsupported as e:
                        if len(self.run.effects) > mark or len(self.run.taken) > asked:
                            # the attempt had got somewhere (it may have changed an argument) before it gave up: what follows on
                            # this path is not known to be what the code does
                            self.run.doubt.append(f"{fi.fq}(...) (interpretation abandoned half-way: {e})")
                        del self.run.effects[mark:]
                return self.opaque_call(fi.fq, args, kwargs, node=fi.node, module=fi.module)
        return self._interpret(fv, args, kwargs)

    def _interpret(self, fv: FuncVal, args: list, kwargs: dict) -> t.Any:
        self.depth += 1
        if self.depth > 40:
            raise Unsupported("call depth bound")
        saved = self.cur
        try:
            env = self.bind(fv.node, args, kwargs, fv.module, fv.fq, fv.defaults)
            fr = Frame(fv.module, parent=fv.closure, fn=fv)
            fr.vars.update(env)
            if isinstance(fv.node, ast.Lambda):
                return self.ev(fv.node.body, fr)
            is_gen = any(isinstance(n, (ast.Yield, ast.YieldFrom)) for n in _walk_fn(fv.node))
            if is_gen:
                fr.yields = []
            try:
                self.block(fv.node.body, fr)  # type: ignore[attr-defined]
                rv = None
            except _Return as r:
                rv = r.value
            if is_gen:
                return fr.yields
            return rv
        finally:
            self.depth -= 1
            self.cur = saved

    def opaque_call(self, fq: str, args: list, kwargs: dict, node: ast.AST | None = None, module: Module | None = None, uid: bool = False, pytype: str | None = None) -> T:
        kw = dict(kwargs)
        pos = list(args)
        if node is not None:
            # normalise to keyword form using the signature, so that f(a, b) and f(a, y=b) are one term
            a = node.args  # type: ignore[attr-defined]
            names = [x.arg for x in a.posonlyargs + a.args]
            if not a.vararg and len(pos) <= len(names):
                for n, v in zip(names, pos):
                    if n not in kw:
                        kw[n] = v
                pos = []
        r = T(fq, tuple(freeze(x) for x in pos), tuple(sorted(((k, freeze(v)) for k, v in kw.items()), key=lambda p: p[0])), uid=next(_counter) if uid else None, pytype=pytype, nonnone=False, src=self.cur)
        self.effect(None, fq, tuple(args), kwargs, r)
        return r

    def instantiate(self, ci: ClassInfo, args: list, kwargs: dict) -> t.Any:
        stub = self.stubs.get(ci.fq)
        if stub is not None:
            return stub(self, args, kwargs)
        if self._is_dataclass(ci):
            fields = self.record_fields(ci)
            o = Obj(ci)
            o.is_record = True  # type: ignore[attr-defined]
            names = [n for n, _ in fields]
            if len(args) > len(names):
                raise Raised(ExcVal("TypeError", (f"{ci.name}: too many arguments",), TypeError), self.cur)
            vals = dict(zip(names, args))
            for k, v in kwargs.items():
                if k not in names or k in vals:
                    raise Raised(ExcVal("TypeError", (f"{ci.name}: bad keyword {k}",), TypeError), self.cur)
                vals[k] = v
            for n, d in fields:
                if n not in vals:
                    if d is None:
                        raise Raised(ExcVal("TypeError", (f"{ci.name}: missing {n}",), TypeError), self.cur)
                    vals[n] = self.ev(d, Frame(ci.module))
            for n in names:
                o.attrs[n] = vals[n]
            return o
        if self._is_exception(ci):
            return ExcVal(ci.name, tuple(args), None, ci)
        if ci.module.name in self.open_modules and ci.fq not in self.opaque:
            o = Obj(ci)
            owner, what = self.repo.lookup(ci, "__init__")
            if isinstance(what, FuncInfo):
                if self.should_interpret(what):
                    self.call_function(self._fv(what), [o] + list(args), kwargs)
                else:
                    raise Unsupported(f"{ci.fq}: __init__ is defined outside the analysed modules")
            return o
        # opaque constructor: arguments normalised through __init__'s signature
        owner, what = self.repo.lookup(ci, "__init__")
        kw = dict(kwargs)
        pos = list(args)
        if isinstance(what, FuncInfo):
            a = what.node.args  # type: ignore[attr-defined]
            names = [x.arg for x in a.posonlyargs + a.args][1:]
            if not a.vararg and len(pos) <= len(names):
                for n, v in zip(names, pos):
                    if n not in kw:
                        kw[n] = v
                pos = []
        r = T(ci.fq, tuple(freeze(x) for x in pos), tuple(sorted(((k, freeze(v)) for k, v in kw.items()), key=lambda p: p[0])), uid=next(_counter), src=self.cur)
        self.effect(None, ci.fq, tuple(args), kwargs, r)
        return r

    def _is_exception(self, ci: ClassInfo) -> bool:
        return any(k.fq in ("builtins.Exception", "builtins.BaseException") or k.fq.startswith("builtins.") and k.fq[9:] in _BUILTIN_EXC for k in self.repo.mro(ci)[1:])

    def call_ext(self, fq: str, args: list, kwargs: dict) -> t.Any:
        stub = self.stubs.get(fq)
        if stub is not None:
            return stub(self, args, kwargs)
        if fq in ("typing.cast", "typing_extensions.cast"):
            return args[1] if len(args) > 1 else kwargs.get("val")
        if fq in ("io.BytesIO", "_io.BytesIO"):
            return FileModel(f"BytesIO#{next(_counter)}", args[0] if args else None)
        if fq in ("tempfile.TemporaryFile", "tempfile.SpooledTemporaryFile", "tempfile.NamedTemporaryFile"):
            return FileModel(f"{fq.rsplit('.', 1)[-1]}#{next(_counter)}")
        if fq == "re.compile":
            if not _has_sym(args) and not _has_sym(kwargs):
                flags = kwargs.get("flags", args[1] if len(args) > 1 else 0)
                try:
                    return RegexVal(RegexConst(args[0], int(flags)))
                except re.error as e:
                    raise Unsupported(f"re.compile failed on a folded pattern: {e}")
            return T("re.compile", tuple(freeze(a) for a in args), src=self.cur)
        if fq == "re.escape" and args and isinstance(args[0], (str, bytes)):
            return re.escape(args[0])
        if fq.startswith("re.") and fq[3:] in ("A", "ASCII", "I", "IGNORECASE", "M", "MULTILINE", "S", "DOTALL", "X", "VERBOSE", "U", "UNICODE"):
            return int(getattr(re, fq[3:]))
        if fq in _ABC_TYPES:
            return _ABC_TYPES[fq]
        if fq in ("urllib.parse.unquote", "urllib.parse.unquote_plus", "urllib.parse.quote", "urllib.parse.quote_plus") and not _has_sym(args) and not _has_sym(kwargs) and not str(kwargs.get("errors", "")).startswith("werkzeug"):
            # a pure stdlib function applied to constants (same footing as running `re` on folded constants)
            import urllib.parse as _up

            try:
                return getattr(_up, fq.rsplit(".", 1)[1])(*args, **kwargs)
            except (TypeError, ValueError, LookupError) as e:
                raise Raised(ExcVal(type(e).__name__, (str(e),), type(e)), self.cur)
        if fq == "itertools.repeat":
            x0 = args[0]
            if len(args) > 1 or "times" in kwargs:
                n0 = kwargs.get("times", args[1] if len(args) > 1 else None)
                if isinstance(n0, int):
                    return [x0] * n0
            return Lazy(lambda: (True, x0), "itertools.repeat")
        if fq == "itertools.takewhile":
            pred, src = args[0], self.lazy_of(args[1])
            state = {"done": False}

            def pull_tw() -> tuple[bool, t.Any]:
                if state["done"]:
                    return False, None
                ok, x = src.pull()
                if not ok or not self.truth(self.call(pred, [x], {})):
                    state["done"] = True
                    return False, None
                return True, x

            return Lazy(pull_tw, "itertools.takewhile")
        if fq == "itertools.islice" and len(args) == 2 and isinstance(args[1], int):
            src = self.lazy_of(args[0])
            out_i = []
            for _ in range(args[1]):
                ok, x = src.pull()
                if not ok:
                    break
                out_i.append(x)
            return out_i
        if fq == "itertools.chain":
            out: list = []
            for a in args:
                out.extend(self.iterate(a))
            return out
        if fq == "itertools.chain.from_iterable":
            out = []
            for a in self.iterate(args[0]):
                out.extend(self.iterate(a))
            return out
        if fq == "functools.reduce" and len(args) in (2, 3) and not kwargs:
            items = list(self.iterate(args[1]))
            if len(args) == 2:
                if not items:
                    raise Raised(ExcVal("TypeError", ("reduce() of empty iterable with no initial value",), TypeError), self.cur)
                acc, items = items[0], items[1:]
            else:
                acc = args[2]
            for x in items:
                acc = self.call(args[0], [acc, x], {})
            return acc
        if fq in ("codecs.decode", "codecs.encode") and args and not (set(kwargs) - {"encoding", "errors"}):
            cs = kwargs.get("encoding", args[1] if len(args) > 1 else "utf-8")
            errors = kwargs.get("errors", args[2] if len(args) > 2 else "strict")
            obj = args[0].value() if isinstance(args[0], ByteBuf) else args[0]
            if fq == "codecs.decode" and ptype(obj) == "bytes":
                return decode(obj, cs, errors)
            if fq == "codecs.encode" and ptype(obj) == "str":
                return encode(obj, cs, errors)
        if fq == "collections.deque" and len(args) <= 1 and not kwargs:
            return _Deque(self.iterate(args[0])) if args else _Deque()
        if fq == "functools.partial":
            fn0, pre, prek = args[0], list(args[1:]), dict(kwargs)
            return BoundPy(fn0, "partial", lambda ip, a, k: ip.call(fn0, pre + list(a), {**prek, **k}))
        if fq == "operator.attrgetter" and len(args) == 1 and isinstance(args[0], str) and "." not in args[0]:
            n0 = args[0]
            return BoundPy(None, "attrgetter", lambda ip, a, k: ip.getattr(a[0], n0))
        if fq.startswith("operator.") and fq[9:] in _OPERATOR_MODELS and not kwargs:
            return _OPERATOR_MODELS[fq[9:]](self, args)
        if fq == "operator.methodcaller" and args and isinstance(args[0], str):
            m0, margs, mkw = args[0], list(args[1:]), dict(kwargs)
            return BoundPy(None, "methodcaller", lambda ip, a, k: ip.call(ip.getattr(a[0], m0), margs, mkw))
        if fq == "contextlib.suppress":
            return T("contextlib.suppress", tuple(args))
        if fq == "operator.itemgetter" and len(args) == 1:
            i0 = args[0]
            return BoundPy(None, "itemgetter", lambda ip, a, k: ip.subscript(a[0], i0))
        pure_typed = {"urllib.parse.urlencode": "str", "urllib.parse.quote": "str", "urllib.parse.quote_plus": "str", "urllib.parse.unquote": "str", "urllib.parse.unquote_plus": "str"}
        r = T(fq, tuple(freeze(a) for a in args), tuple(sorted(((k, freeze(v)) for k, v in kwargs.items()), key=lambda p: p[0])), pytype=pure_typed.get(fq), nonnone=fq in pure_typed, src=self.cur)
        self.effect(None, fq, tuple(args), kwargs, r)
        return r

    # -- exploration -----------------------------------------------------
    def explore(self, thunk: t.Callable[["Interp"], t.Any], limit: int = 3000) -> list[Outcome]:
        """run ``thunk`` once per decision sequence.  thunk builds the scenario afresh and returns the value."""
        outcomes: list[Outcome] = []
        prefix: list[bool] = []
        n = 0
        while True:
            n += 1
            if n > limit:
                raise Unsupported(f"more than {limit} paths")
            self.run = Run(prefix)
            self.depth = 0
            self.try_stack = []
            try:
                v = thunk(self)
                outcomes.append(Outcome("return", v, self.run))
            except Raised as r:
                outcomes.append(Outcome("raise", r.value, self.run, r.where))
            except PathCut:
                outcomes.append(Outcome("cut", None, self.run))
            except (_Break, _Continue, _Return):
                raise Unsupported("control flow escaped a function")
            except RecursionError:
                raise Unsupported("recursion too deep while interpreting")
            taken = [x[1] for x in self.run.taken]
            while taken and taken[-1] is False:
                taken.pop()
            if not taken:
                break
            taken[-1] = False
            prefix = taken
        return outcomes


# ---------------------------------------------------------------------
# small helpers of the interpreter


def _has_sym(v: t.Any, depth: int = 0) -> bool:
    if isinstance(v, (T, Obj, Scripted, EnumMember, ExtVal, FuncVal, Bound, BoundPy, BoundBuiltin, ClassVal, ExcVal)):
        return True
    if depth > 6:
        return False
    if isinstance(v, (list, tuple, set, frozenset)):
        return any(_has_sym(x, depth + 1) for x in v)
    if isinstance(v, dict):
        return any(_has_sym(k, depth + 1) or _has_sym(x, depth + 1) for k, x in v.items())
    if isinstance(v, slice):
        return any(_has_sym(x) for x in (v.start, v.stop, v.step))
    return False


def _has_term(v: t.Any, depth: int = 0) -> bool:
    """does the value contain a symbolic term (whose relation to other values is not known)?"""
    if isinstance(v, T):
        return True
    if depth > 6:
        return False
    if isinstance(v, (list, tuple, set, frozenset)):
        return any(_has_term(x, depth + 1) for x in v)
    if isinstance(v, dict):
        return any(_has_term(k, depth + 1) or _has_term(x, depth + 1) for k, x in v.items())
    return False


def _walk_fn(fn: ast.AST) -> t.Iterator[ast.AST]:
    stack = list(ast.iter_child_nodes(fn))
    while stack:
        n = stack.pop()
        yield n
        if isinstance(n, (ast.FunctionDef, ast.AsyncFunctionDef, ast.ClassDef, ast.Lambda)):
            continue
        stack.extend(ast.iter_child_nodes(n))


def _as_load(tg: ast.AST) -> ast.AST:
    new = ast.parse(ast.unparse(tg), mode="eval").body
    return ast.copy_location(new, tg)


class _Deque(list):
    """collections.deque without maxlen, as the list of its items (what is appended on the right comes out in that order)"""

    def appendleft(self, x: t.Any) -> None:
        self.insert(0, x)

    def popleft(self) -> t.Any:
        return self.pop(0)

    def extendleft(self, xs: t.Iterable[t.Any]) -> None:
        for x in xs:
            self.insert(0, x)


class _LiveList:
    """iteration over a list that sees appends made during the loop (python semantics)."""

    def __init__(self, lst: list):
        self.lst = lst

    def __iter__(self):
        i = 0
        while i < len(self.lst):
            yield self.lst[i]
            i += 1
            if i > 5000:
                raise Unsupported("list iteration bound")


_BINOPS = {
    ast.Add: operator.add, ast.Sub: operator.sub, ast.Mult: operator.mul, ast.Mod: operator.mod, ast.FloorDiv: operator.floordiv,
    ast.Div: operator.truediv, ast.BitOr: operator.or_, ast.BitAnd: operator.and_, ast.BitXor: operator.xor, ast.LShift: operator.lshift,
    ast.RShift: operator.rshift, ast.Pow: operator.pow,
}
_CMPOPS = {ast.Lt: operator.lt, ast.LtE: operator.le, ast.Gt: operator.gt, ast.GtE: operator.ge}


def _match_model(m: "re.Match") -> Scripted:
    s = Scripted("match", truthy=True)
    s.methods.update(
        start=lambda ip, a, k: m.start(*a),
        end=lambda ip, a, k: m.end(*a),
        span=lambda ip, a, k: m.span(*a),
        group=lambda ip, a, k: m.group(*a),
        groups=lambda ip, a, k: m.groups(*a),
        groupdict=lambda ip, a, k: m.groupdict(),
    )
    s.methods["__getitem__"] = lambda ip, a, k: m[a[0]]
    return s


def file_text(f: FileModel) -> t.Any:
    return cat(list(f.content), "bytes")


def _file_method(f: FileModel, name: str) -> t.Callable:
    def write(ip: Interp, a: list, k: dict) -> t.Any:
        if f.pos not in ("end", 0) or (f.pos == 0 and f.content):
            f.log.append(("write-not-at-end",))
        f.content.append(a[0])
        f.pos = "end"
        f.log.append(("write", a[0]))
        if isinstance(a[0], (bytes, str)):
            return len(a[0])
        return T("len", (a[0],), pytype="int")

    def getvalue(ip: Interp, a: list, k: dict) -> t.Any:
        return file_text(f)

    def read(ip: Interp, a: list, k: dict) -> t.Any:
        if a and a[0] is not None and a[0] != -1:
            return T("read-part", (file_text(f), f.pos if not isinstance(f.pos, str) else f.pos, a[0]), pytype="bytes")
        if f.pos == 0:
            f.pos = "end"
            return file_text(f)
        if f.pos == "end":
            return b""
        return T("read-from", (file_text(f), f.pos), pytype="bytes")

    def tell(ip: Interp, a: list, k: dict) -> t.Any:
        if f.pos == 0:
            return 0
        if f.pos == "end":
            return T("size", (file_text(f),), pytype="int")
        return f.pos

    def seek(ip: Interp, a: list, k: dict) -> t.Any:
        off = a[0]
        whence = a[1] if len(a) > 1 else k.get("whence", 0)
        if whence == 0:
            f.pos = off
        elif whence == 2 and off == 0:
            f.pos = "end"
        else:
            f.pos = T("seek", (off, whence))
        f.log.append(("seek", off, whence))
        return f.pos if not isinstance(f.pos, str) else T("size", (file_text(f),), pytype="int")

    def close(ip: Interp, a: list, k: dict) -> t.Any:
        f.closed = True
        return None

    def other(ip: Interp, a: list, k: dict) -> t.Any:
        f.log.append((name,) + tuple(a))
        return T("." + name, (T("$" + f.label),) + tuple(freeze(x) for x in a))

    return {"write": write, "getvalue": getvalue, "read": read, "tell": tell, "seek": seek, "close": close, "flush": lambda ip, a, k: None}.get(name, other)


_OPERATOR_MODELS: dict[str, t.Callable[[Interp, list], t.Any]] = {
    "is_": lambda ip, a: ip._is(a[0], a[1]),
    "is_not": lambda ip, a: not ip._is(a[0], a[1]),
    "not_": lambda ip, a: not ip.truth(a[0]),
    "truth": lambda ip, a: ip.truth(a[0]),
    "eq": lambda ip, a: ip._eq(a[0], a[1]),
    "ne": lambda ip, a: not ip._eq(a[0], a[1]),
    "contains": lambda ip, a: ip._in(a[1], a[0]),
    "getitem": lambda ip, a: ip.subscript(a[0], a[1]),
    "add": lambda ip, a: ip.binop(ast.Add(), a[0], a[1]),
    "concat": lambda ip, a: ip.binop(ast.Add(), a[0], a[1]),
    "mod": lambda ip, a: ip.binop(ast.Mod(), a[0], a[1]),
    "lt": lambda ip, a: ip.compare(ast.Lt(), a[0], a[1]),
    "le": lambda ip, a: ip.compare(ast.LtE(), a[0], a[1]),
    "gt": lambda ip, a: ip.compare(ast.Gt(), a[0], a[1]),
    "ge": lambda ip, a: ip.compare(ast.GtE(), a[0], a[1]),
}


class _Builtin:
    def __init__(self, name: str, fn: t.Callable):
        self.name = name
        self.fn = fn

    def show(self) -> str:
        return f"<builtin {self.name}>"

    __repr__ = show


def _b_len(ip: Interp, a: list, k: dict) -> t.Any:
    v = a[0]
    if isinstance(v, ByteBuf):
        v = v.value()
    if isinstance(v, (str, bytes, list, tuple, dict, set, frozenset, range, bytearray)):
        return len(v)
    if isinstance(v, T):
        if v.op == "list":
            return len(v.args)
        return T("len", (v,), pytype="int")
    if isinstance(v, FileModel):
        raise Raised(ExcVal("TypeError", ("len of file",), TypeError), ip.cur)
    if isinstance(v, Scripted):
        if "__len__" in v.methods:
            return v.methods["__len__"](ip, [], {})
        if v.items is not None:
            return len(v.items)
        return T("len", (T("$" + v.label),), pytype="int")
    if isinstance(v, Obj):
        owner, what = ip.repo.lookup(v.ci, "__len__")
        if isinstance(what, FuncInfo) and ip.should_interpret(what):
            return ip.call(Bound(v, ip._fv(what)), [], {})
        return T("len", (v,), pytype="int")
    raise Raised(ExcVal("TypeError", ("len",), TypeError), ip.cur)


def _class_matches(ip: Interp, v: t.Any, c: t.Any) -> bool | None:
    """isinstance(v, c) for one class c; None = unknown"""
    if c in _ABC_TYPES.values() or (isinstance(c, type) and not issubclass(c, BaseException)):
        if isinstance(v, T):
            if v.pytype is not None:
                real = {"str": str, "bytes": bytes, "int": int, "bool": bool, "tuple": tuple, "list": list}.get(v.pytype)
                if real is not None:
                    return issubclass(real, c)
                return False if v.pytype == "match" else None
            return None
        if isinstance(v, Scripted):
            return any(issubclass(pt, c) for pt in v.pytypes)
        if isinstance(v, Obj):
            kinds = {"builtins.dict": dict, "builtins.list": list, "builtins.set": set, "builtins.tuple": tuple, "builtins.str": str, "builtins.bytes": bytes}
            for k in ip.repo.mro(v.ci):
                if k.fq in kinds and issubclass(kinds[k.fq], c):
                    return True
                if k.fq in _ABC_TYPES and issubclass(_ABC_TYPES[k.fq], c):  # type: ignore[arg-type]
                    return True
            return False
        if isinstance(v, (FuncVal, Bound, BoundPy, BoundBuiltin, ClassVal, EnumMember, ExtVal, ExcVal, RegexVal, _Builtin)):
            import collections.abc as cabc

            if c is cabc.Callable:
                return isinstance(v, (FuncVal, Bound, BoundPy, BoundBuiltin, ClassVal, _Builtin))
            return False
        return isinstance(v, c)
    if isinstance(c, ClassVal):
        if isinstance(v, Obj):
            return any(k.fq == c.ci.fq for k in ip.repo.mro(v.ci))
        if isinstance(v, Scripted):
            if v.cls_fq is None:
                return False
            ci = ip.repo.try_cls(v.cls_fq)
            if ci is not None:
                return any(k.fq == c.ci.fq for k in ip.repo.mro(ci))
            return v.cls_fq == c.ci.fq
        if isinstance(v, ExcVal):
            return v.ci is not None and any(k.fq == c.ci.fq for k in ip.repo.mro(v.ci))
        if isinstance(v, T):
            if v.pytype is not None:
                return False
            if v.op.startswith("werkzeug."):
                ci = ip.repo.try_cls(v.op)
                if ci is not None:
                    return any(k.fq == c.ci.fq for k in ip.repo.mro(ci))
            return None
        return False
    if isinstance(c, ExtVal):
        if isinstance(v, T) and v.pytype is None:
            return None
        if isinstance(v, Scripted) and v.cls_fq == c.fq:
            return True
        return False
    if isinstance(c, type) and issubclass(c, BaseException):
        return isinstance(v, ExcVal) and v.pycls is not None and issubclass(v.pycls, c)
    raise Unsupported(f"isinstance against {fmt(c, 2)}")


def _b_isinstance(ip: Interp, a: list, k: dict) -> t.Any:
    v, c = a
    cs = list(c) if isinstance(c, tuple) else [c]
    unknown = []
    for x in cs:
        r = _class_matches(ip, v, x)
        if r is True:
            return True
        if r is None:
            unknown.append(x)
    if not unknown:
        return False
    names = tuple(sorted(fmt(x, 2) for x in unknown))
    return ip.decide("isinstance", v, names, text=f"isinstance({fmt(v, 2)}, {'/'.join(names)})")


def _b_getattr(ip: Interp, a: list, k: dict) -> t.Any:
    recv, name = a[0], a[1]
    if not isinstance(name, str):
        raise Unsupported("getattr with a computed name")
    if len(a) > 2:
        if isinstance(recv, T) and recv.pytype is None and not recv.op.startswith("$"):
            return ip.getattr(recv, name)
        try:
            return ip.getattr(recv, name, a[2], True)
        except Raised as r:
            if isinstance(r.value, ExcVal) and r.value.name == "AttributeError":
                return a[2]
            raise
    return ip.getattr(recv, name)


def _b_hasattr(ip: Interp, a: list, k: dict) -> t.Any:
    miss = object()
    recv, name = a
    if isinstance(recv, Scripted) and not isinstance(recv, FileModel):
        return name in recv.attrs or name in recv.methods
    if isinstance(recv, FileModel):
        return name in ("read", "write", "seek", "tell", "getvalue", "close", "readline", "flush")
    if isinstance(recv, Obj):
        if name in recv.attrs:
            return True
        owner, what = ip.repo.lookup(recv.ci, name)
        return what is not None
    if isinstance(recv, T) and recv.pytype is None:
        return ip.decide("hasattr", recv, name, text=f"hasattr({fmt(recv, 2)}, {name!r})")
    try:
        r = ip.getattr(recv, name, miss, True)
    except Raised:
        return False
    return r is not miss


def _b_setattr(ip: Interp, a: list, k: dict) -> t.Any:
    ip.setattr(a[0], a[1], a[2])
    return None


def _b_sorted(ip: Interp, a: list, k: dict) -> t.Any:
    items = list(ip.iterate(a[0]))
    if not _has_sym(items) and not k.get("key"):
        return sorted(items, reverse=bool(k.get("reverse", False)))
    pts = {ptype(x) for x in items}
    return [T("$reordered-by-sorted", (freeze(items),), pytype=pts.pop() if len(pts) == 1 else None)]


def _b_reversed(ip: Interp, a: list, k: dict) -> t.Any:
    return list(reversed(list(ip.iterate(a[0]))))


def _b_enumerate(ip: Interp, a: list, k: dict) -> t.Any:
    start = a[1] if len(a) > 1 else k.get("start", 0)
    return [(i + start, x) for i, x in enumerate(ip.iterate(a[0]))]


def _b_zip(ip: Interp, a: list, k: dict) -> t.Any:
    if any(isinstance(x, Lazy) for x in a):
        srcs = [ip.lazy_of(x) for x in a]
        out: list = []
        while True:
            row = []
            for s_ in srcs:
                ok, x = s_.pull()
                if not ok:
                    return out
                row.append(x)
            out.append(tuple(row))
            if len(out) > ip.max_loop:
                raise Unsupported("unbounded zip")
    return list(zip(*[list(ip.iterate(x)) for x in a]))


def _b_any(ip: Interp, a: list, k: dict) -> t.Any:
    return any(ip.truth(x) for x in ip.iterate(a[0]))


def _b_all(ip: Interp, a: list, k: dict) -> t.Any:
    return all(ip.truth(x) for x in ip.iterate(a[0]))


def _b_map(ip: Interp, a: list, k: dict) -> t.Any:
    if any(isinstance(x, Lazy) for x in a[1:]):
        srcs = [ip.lazy_of(x) for x in a[1:]]
        fn = a[0]

        def pull() -> tuple[bool, t.Any]:
            row = []
            for s_ in srcs:
                ok, x = s_.pull()
                if not ok:
                    return False, None
                row.append(x)
            return True, ip.call(fn, row, {})

        return Lazy(pull, "map")
    cols = [list(ip.iterate(x)) for x in a[1:]]
    return [ip.call(a[0], list(row), {}) for row in zip(*cols)]


def _b_filter(ip: Interp, a: list, k: dict) -> t.Any:
    return [x for x in ip.iterate(a[1]) if ip.truth(x if a[0] is None else ip.call(a[0], [x], {}))]


def _b_next(ip: Interp, a: list, k: dict) -> t.Any:
    if isinstance(a[0], Lazy):
        ok, x = a[0].pull()
        if ok:
            return x
        if len(a) > 1:
            return a[1]
        raise Raised(ExcVal("StopIteration", (), StopIteration), ip.cur)
    items = a[0] if isinstance(a[0], list) else list(ip.iterate(a[0]))
    if items:
        if isinstance(a[0], list):
            return a[0].pop(0)
        return items[0]
    if len(a) > 1:
        return a[1]
    raise Raised(ExcVal("StopIteration", (), StopIteration), ip.cur)


def _b_iter(ip: Interp, a: list, k: dict) -> t.Any:
    if len(a) == 2:
        # iter(callable, sentinel): the callable runs once per item, when the item is asked for (the body of a `for` over it runs
        # between two calls, and a `break` means the callable is not called again)
        fn, sentinel = a
        state = {"done": False}

        def pull() -> tuple[bool, t.Any]:
            if state["done"]:
                return False, None
            v = ip.call(fn, [], {})
            if ip._eq(v, sentinel):
                state["done"] = True
                return False, None
            return True, v

        return Lazy(pull, "iter(callable, sentinel)")
    if isinstance(a[0], Lazy):
        return a[0]
    return list(ip.iterate(a[0]))


def _b_minmax(which: str) -> t.Callable:
    def f(ip: Interp, a: list, k: dict) -> t.Any:
        items = list(ip.iterate(a[0])) if len(a) == 1 else list(a)
        if _has_sym(items) or k:
            return T(which, tuple(freeze(x) for x in items), pytype="int" if all(ptype(x) == "int" for x in items) else None)
        return (min if which == "min" else max)(items)

    return f


def _b_type(ip: Interp, a: list, k: dict) -> t.Any:
    v = a[0]
    if isinstance(v, Obj):
        return ClassVal(v.ci)
    if isinstance(v, T) and v.uid is not None and v.op.startswith("werkzeug."):
        ci = ip.repo.try_cls(v.op)  # what the constructor of a package class returned (kept opaque): an instance of that class
        if ci is not None:
            return ClassVal(ci)
    if isinstance(v, (T, Scripted)):
        return T("type", (v if isinstance(v, T) else T("$" + v.label),))
    return type(v)


def _b_repr(ip: Interp, a: list, k: dict) -> t.Any:
    if _has_sym(a[0]):
        return T("repr", (freeze(a[0]),), pytype="str")
    return repr(a[0])


def _b_callable(ip: Interp, a: list, k: dict) -> t.Any:
    v = a[0]
    if isinstance(v, (FuncVal, Bound, BoundPy, BoundBuiltin, ClassVal, _Builtin, type, ExtVal)):
        return True
    if isinstance(v, T) and v.pytype is None:
        return ip.decide("callable", v)
    return False


def _b_issubclass(ip: Interp, a: list, k: dict) -> t.Any:
    c, bases = a
    bs = list(bases) if isinstance(bases, tuple) else [bases]
    if isinstance(c, ClassVal):
        return any(isinstance(b, ClassVal) and any(x.fq == b.ci.fq for x in ip.repo.mro(c.ci)) for b in bs)
    if isinstance(c, type):
        return any(isinstance(b, type) and issubclass(c, b) for b in bs)
    raise Unsupported("issubclass of a symbolic class")


def _b_sum(ip: Interp, a: list, k: dict) -> t.Any:
    items = list(ip.iterate(a[0]))
    acc: t.Any = a[1] if len(a) > 1 else 0
    for x in items:
        acc = ip.binop(ast.Add(), acc, x)
    return acc


_BUILTINS: dict[str, t.Any] = {
    "len": _Builtin("len", _b_len),
    "isinstance": _Builtin("isinstance", _b_isinstance),
    "getattr": _Builtin("getattr", _b_getattr),
    "hasattr": _Builtin("hasattr", _b_hasattr),
    "setattr": _Builtin("setattr", _b_setattr),
    "sorted": _Builtin("sorted", _b_sorted),
    "reversed": _Builtin("reversed", _b_reversed),
    "enumerate": _Builtin("enumerate", _b_enumerate),
    "zip": _Builtin("zip", _b_zip),
    "any": _Builtin("any", _b_any),
    "all": _Builtin("all", _b_all),
    "map": _Builtin("map", _b_map),
    "filter": _Builtin("filter", _b_filter),
    "next": _Builtin("next", _b_next),
    "iter": _Builtin("iter", _b_iter),
    "min": _Builtin("min", _b_minmax("min")),
    "max": _Builtin("max", _b_minmax("max")),
    "type": _Builtin("type", _b_type),
    "repr": _Builtin("repr", _b_repr),
    "callable": _Builtin("callable", _b_callable),
    "issubclass": _Builtin("issubclass", lambda ip, a, k: _b_issubclass(ip, a, k)),
    "sum": _Builtin("sum", _b_sum),
    "print": _Builtin("print", lambda ip, a, k: None),
    "id": _Builtin("id", lambda ip, a, k: T("id", (freeze(a[0]),), pytype="int")),
    # a view of the bytes: converted back with bytes(), compared, sliced and measured like them
    "memoryview": _Builtin("memoryview", lambda ip, a, k: (a[0].value() if isinstance(a[0], ByteBuf) else a[0]) if len(a) == 1 and not k and (isinstance(a[0], ByteBuf) or ptype(a[0]) == "bytes") else T("memoryview", tuple(freeze(x) for x in a))),
    "str": str, "bytes": bytes, "bytearray": bytearray, "int": int, "bool": bool, "float": float, "list": list, "tuple": tuple, "dict": dict,
    "set": set, "frozenset": frozenset, "range": range, "object": object, "slice": slice,
    "True": True, "False": False, "None": None, "NotImplemented": NotImplemented, "Ellipsis": Ellipsis,
    "ord": _Builtin("ord", lambda ip, a, k: ord(a[0]) if isinstance(a[0], (str, bytes)) else T("ord", (a[0],), pytype="int")),
    "chr": _Builtin("chr", lambda ip, a, k: chr(a[0]) if isinstance(a[0], int) else T("chr", (a[0],), pytype="str")),
    "abs": _Builtin("abs", lambda ip, a, k: abs(a[0]) if not isinstance(a[0], T) else T("abs", (a[0],), pytype="int")),
    "hex": _Builtin("hex", lambda ip, a, k: hex(a[0]) if not isinstance(a[0], T) else T("hex", (a[0],), pytype="str")),
    "format": _Builtin("format", lambda ip, a, k: format(*a) if not _has_sym(a) else T("format", tuple(a), pytype="str")),
}
