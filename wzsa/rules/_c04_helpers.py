"""helpers for C04: a small *symbolic* interpreter for werkzeug's routing source.

Nothing of werkzeug is imported or run.  The interpreter walks the ``ast`` of /repo's source (through the engine's
loader) and evaluates it over a value domain in which

* configuration (rule strings, converter arguments, defaults, script names) is concrete,
* the *values* a URL is built from are opaque symbols (``Sym``): every operation on them produces a term, never a
  result, so what comes out describes the built URL for **every** value, not for a sample;
* a condition on a symbol forks the evaluation (every path is explored by re-running with a decision prefix).

Pure stdlib callables (``re``, ``ast``, ``str`` methods ...) are applied for real when all their arguments are
constants taken from the source / the scenario; with a symbolic argument they become a ``call`` term.  Anything the
interpreter does not model raises :class:`NotUnderstood` (an AnalysisError -> exit 2): an unknown shape is never a
pass and never a violation.
"""

from __future__ import annotations

import ast
import builtins
import collections as _collections
import importlib
import operator as _operator
import string as _string
import sys
import typing as t

from ..loader import AnalysisError, ClassInfo, FuncInfo, Module, Repo, BuiltinClass, dotted

PKG = "werkzeug"


class NotUnderstood(AnalysisError):
    pass


# ---------------------------------------------------------------------------------------------------------------
# values


class Sym:
    """an opaque term.  op/args describe how it was made; ``styp`` is the Python type its value has (when known)."""

    __slots__ = ("op", "args", "styp", "site", "length")

    def __init__(self, op: str, *args: t.Any, styp: t.Any = None, site: t.Any = None, length: int | None = None):
        self.op = op
        self.args = args
        self.styp = styp
        self.site = site
        self.length = length

    def key(self) -> str:
        return _key(self)

    def __repr__(self) -> str:
        return _key(self)

    def __eq__(self, other: object) -> bool:  # a Python-level comparison must never silently decide
        if other is self:
            return True
        raise NotUnderstood(f"implicit comparison with symbolic value {self!r}")

    def __ne__(self, other: object) -> bool:
        return not self.__eq__(other)

    def __hash__(self) -> int:
        return id(self)

    def __bool__(self) -> bool:
        raise NotUnderstood(f"implicit truth test of symbolic value {self!r}")


def _key(v: t.Any) -> str:
    if isinstance(v, Sym):
        return f"{v.op}({', '.join(_key(a) for a in v.args)})"
    if isinstance(v, (list, tuple)):
        o, c = ("[", "]") if isinstance(v, list) else ("(", ")")
        return o + ", ".join(_key(a) for a in v) + c
    if isinstance(v, dict):
        return "{" + ", ".join(f"{_key(k)}: {_key(x)}" for k, x in v.items()) + "}"
    if isinstance(v, (set, frozenset)):
        try:
            return "{" + ", ".join(sorted(_key(a) for a in v)) + "}"
        except Exception:
            return "{...}"
    if isinstance(v, Obj):
        return f"<{v.cls.name}>"
    if isinstance(v, ClsVal):
        return f"<class {v.cls.name}>"
    if isinstance(v, FuncVal):
        return f"<func {v.name}>"
    return repr(v)


def _identity_free(v: t.Any, _d: int = 0) -> bool:
    """the rendering `_key` of v determines v: symbols, plain constants and containers of them (an interpreted object,
    function or generator is rendered by its class / name only, so two of them may share a key)."""
    if isinstance(v, Sym):
        return _d < 12 and all(_identity_free(a, _d + 1) for a in v.args)
    if v is None or isinstance(v, (str, bytes, int, float, bool)):
        return True
    if isinstance(v, (list, tuple, set, frozenset)):
        return _d < 12 and all(_identity_free(a, _d + 1) for a in v)
    if isinstance(v, dict):
        return _d < 12 and all(_identity_free(k, _d + 1) and _identity_free(x, _d + 1) for k, x in v.items())
    return False


class Obj:
    """instance of a class defined in the analysed package."""

    def __init__(self, cls: ClassInfo):
        self.cls = cls
        self.attrs: dict[str, t.Any] = {}

    def __repr__(self) -> str:
        return f"<{self.cls.name} object>"


class ExcObj:
    """instance of an exception class (package-defined or builtin)."""

    def __init__(self, cls: t.Any, args: tuple):
        self.cls = cls  # ClsVal | real exception type
        self.args = args
        self.attrs: dict[str, t.Any] = {}

    def __repr__(self) -> str:
        n = self.cls.cls.name if isinstance(self.cls, ClsVal) else getattr(self.cls, "__name__", str(self.cls))
        return f"<exc {n}>"


class ClsVal:
    def __init__(self, cls: ClassInfo):
        self.cls = cls

    def __repr__(self) -> str:
        return f"<class {self.cls.fq}>"

    def __eq__(self, other: object) -> bool:
        return isinstance(other, ClsVal) and other.cls is self.cls

    def __hash__(self) -> int:
        return hash(self.cls.fq)


class FuncVal:
    """a function of the analysed source (or one generated by it through compile/exec)."""

    def __init__(self, node: ast.AST, module: Module | None, env: "Env | None", fi: FuncInfo | None = None, defcls: ClassInfo | None = None, bound: t.Any = None, has_bound: bool = False, genv: dict | None = None):
        self.node = node
        self.module = module
        self.env = env  # enclosing function frame (closures)
        self.fi = fi
        self.defcls = defcls
        self.bound = bound
        self.has_bound = has_bound
        self.genv = genv  # globals dict of exec'd code
        self.name = getattr(node, "name", "<lambda>")

    def bind(self, obj: t.Any) -> "FuncVal":
        return FuncVal(self.node, self.module, self.env, self.fi, self.defcls, obj, True, self.genv)

    def __repr__(self) -> str:
        return f"<func {self.name}>"


class SuperVal:
    def __init__(self, defcls: ClassInfo, obj: t.Any):
        self.defcls = defcls
        self.obj = obj


class CodeVal:
    def __init__(self, tree: ast.AST):
        self.tree = tree


class PartialVal:
    """functools.partial(f, *args, **kwargs) over a real or an interpreted callable: applied by World.call."""

    def __init__(self, func: t.Any, args: tuple, kwargs: dict):
        self.func = func
        self.args = tuple(args)
        self.kwargs = dict(kwargs)

    def __repr__(self) -> str:
        return f"<partial of {self.func!r}>"


class SuppressVal:
    """contextlib.suppress(*exceptions): a with-block that swallows the listed (real or interpreted) exception classes."""

    def __init__(self, excs: tuple):
        self.excs = tuple(excs)


class GenVal:
    """a running generator of interpreted code (lazy, like the real thing)."""

    def __init__(self, it: t.Iterator[t.Any]):
        self.it = it

    def __iter__(self):
        return self.it


class PropVal:
    def __init__(self, fget: FuncVal, fset: FuncVal | None):
        self.fget = fget
        self.fset = fset


class Raised(Exception):
    """an exception travelling through interpreted code."""

    def __init__(self, exc: ExcObj):
        super().__init__(repr(exc))
        self.exc = exc


class _Return(Exception):
    def __init__(self, value: t.Any):
        self.value = value


class _Break(Exception):
    pass


class _Continue(Exception):
    pass


# callables the interpreter itself has to apply to interpreted values (sort keys ...)
_INTERPRETED_KEYS = (FuncVal, ClsVal, PartialVal, _operator.attrgetter, _operator.methodcaller, _operator.itemgetter)


class Env:
    def __init__(self, parent: "Env | None" = None):
        self.vars: dict[str, t.Any] = {}
        self.parent = parent
        self.nonlocals: set[str] = set()
        self.globals_: set[str] = set()


_DENY_MODULES = {"os", "sys", "subprocess", "socket", "shutil", "pathlib", "io", "importlib", "ctypes", "multiprocessing", "tempfile", "signal", "pickle", "marshal", "runpy", "code", "codeop", "pty", "select", "selectors", "ssl", "http", "urllib.request", "webbrowser", "atexit", "gc", "inspect"}
_DENY_BUILTINS = {"open", "eval", "__import__", "input", "print", "breakpoint", "exit", "quit", "globals", "locals", "vars", "memoryview", "help"}

# real callables that only look at the *structure* of their arguments (never compare / hash / format the elements), so
# they may be applied to containers that hold symbols
_STRUCT_SAFE = {
    list, tuple, dict, iter, len, enumerate, zip, reversed, range, isinstance, id, type, bool,
    list.append, list.extend, list.insert, list.pop, list.copy, list.reverse, list.clear,
    dict.items, dict.keys, dict.values, dict.copy, dict.clear,
}
_STRUCT_SAFE_METHODS = {
    list: {"append", "extend", "insert", "pop", "copy", "reverse", "clear", "__len__", "__iter__"},
    tuple: {"__len__", "__iter__"},
    dict: {"items", "keys", "values", "copy", "clear", "get", "pop", "setdefault", "update", "__len__", "__iter__"},
    _collections.deque: {"append", "appendleft", "pop", "popleft", "extend", "extendleft", "clear", "copy", "rotate", "reverse", "__len__", "__iter__"},
}

_STR_RETURNING = {"builtins.str", "urllib.parse.quote", "urllib.parse.quote_plus", "urllib.parse.quote_from_bytes", "urllib.parse.urlencode", "builtins.repr", "builtins.format", "builtins.chr"}
_RET_TYPES: dict[str, t.Any] = {"builtins.int": int, "builtins.float": float, "builtins.len": int, "builtins.bool": bool}


def deep_concrete(v: t.Any, _d: int = 0) -> bool:
    if isinstance(v, (Sym, Obj, FuncVal, ClsVal, GenVal, SuperVal, ExcObj, CodeVal, PartialVal, SuppressVal)):
        return False
    if _d > 6:
        return True
    if isinstance(v, (list, tuple, set, frozenset, _collections.deque)):
        return all(deep_concrete(x, _d + 1) for x in v)
    if isinstance(v, (dict, _collections.ChainMap)):
        return all(deep_concrete(k, _d + 1) and deep_concrete(x, _d + 1) for k, x in v.items())
    return True


def is_str_term(v: t.Any) -> bool:
    return isinstance(v, str) or (isinstance(v, Sym) and v.styp is str)


def concat(*pieces: t.Any) -> t.Any:
    """normal form of a string concatenation: flat, adjacent constants merged, empty strings dropped."""
    out: list[t.Any] = []
    for p in pieces:
        ps = list(p.args) if isinstance(p, Sym) and p.op == "concat" else [p]
        for q in ps:
            if isinstance(q, str):
                if q == "":
                    continue
                if out and isinstance(out[-1], str):
                    out[-1] += q
                    continue
            elif not is_str_term(q):
                raise NotUnderstood(f"concatenation of a non-string term {q!r}")
            out.append(q)
    if not out:
        return ""
    if len(out) == 1:
        return out[0]
    return Sym("concat", *out, styp=str)


def pieces_of(v: t.Any) -> list[t.Any]:
    if isinstance(v, Sym) and v.op == "concat":
        return list(v.args)
    if isinstance(v, str) and v == "":
        return []
    return [v]


class Oracle:
    """decisions for conditions on symbols: a fixed prefix, then True; everything is recorded."""

    def __init__(self, prefix: list[bool], assume: t.Callable[[Sym], bool | None] | None = None):
        self.prefix = prefix
        self.trace: list[tuple[str, bool, Sym]] = []
        self.assume = assume
        self.assumed: list[tuple[str, bool]] = []

    def decide(self, term: Sym) -> bool:
        if self.assume is not None:
            a = self.assume(term)
            if a is not None:
                self.assumed.append((term.key(), a))
                return a
        k = term.key()
        if _identity_free(term):
            # the same condition on the same opaque values was decided earlier on this path (a test evaluated twice,
            # once by a lazy filter and once by the loop body, ...): it has the same answer, and is not a new fork
            for k0, v0, _ in self.trace:
                if k0 == k:
                    return v0
        i = len(self.trace)
        v = self.prefix[i] if i < len(self.prefix) else True
        self.trace.append((k, v, term))
        return v


class Outcome(t.NamedTuple):
    kind: str  # 'return' | 'raise'
    value: t.Any  # returned value / ExcObj
    conds: list[tuple[str, bool, Sym]]
    world: "World"


def explore(run: t.Callable[["World"], t.Any], repo: Repo, assume=None, limit: int = 64) -> list[Outcome]:
    """all paths of run(world); run builds its objects from scratch inside the given world."""
    results: list[Outcome] = []
    stack: list[list[bool]] = [[]]
    n = 0
    while stack:
        prefix = stack.pop()
        n += 1
        if n > limit:
            raise NotUnderstood("too many symbolic paths")
        oracle = Oracle(prefix, assume)
        world = World(repo, oracle)
        try:
            v = run(world)
            out = Outcome("return", v, oracle.trace, world)
        except Raised as r:
            out = Outcome("raise", r.exc, oracle.trace, world)
        results.append(out)
        for i in range(len(prefix), len(oracle.trace)):
            stack.append([c for _, c, _ in oracle.trace[:i]] + [not oracle.trace[i][1]])
    return results


# ---------------------------------------------------------------------------------------------------------------
# the interpreter


class World:
    def __init__(self, repo: Repo, oracle: Oracle | None = None):
        self.repo = repo
        self.oracle = oracle or Oracle([])
        self.globals_memo: dict[tuple[str, str], t.Any] = {}
        self.globals_busy: set[tuple[str, str]] = set()
        self.class_over: dict[str, dict[str, t.Any]] = {}  # class fq -> attributes set at run time (cls.x = ..)
        self.class_memo: dict[tuple[str, str], t.Any] = {}
        self.class_ready: set[str] = set()
        self.calls: list[tuple[str, tuple, dict, t.Any, t.Any]] = []  # log of stdlib calls of interest: (fq, args, kwargs, site, result)
        self.steps = 0
        self.frames: list[tuple[FuncVal | None, ast.AST | None]] = []
        self.log_fqs = {"urllib.parse.quote", "urllib.parse.quote_plus", "urllib.parse.urlencode", "urllib.parse.quote_from_bytes"}
        self.best_effort_modules: set[str] = set()
        self.skipped: list[str] = []

    # -- errors ------------------------------------------------------------------------------------------------
    def nu(self, msg: str, node: ast.AST | None = None) -> NotUnderstood:
        where = ""
        for fv, nd in reversed(self.frames):
            if fv is not None and fv.module is not None:
                where = f" [in {fv.module.relpath}:{getattr(node or nd, 'lineno', '?')} {fv.name}]"
                break
        return NotUnderstood(msg + where)

    def tick(self, node: ast.AST | None = None) -> None:
        self.steps += 1
        if self.steps > 400000:
            raise self.nu("step budget exhausted", node)

    # -- names -------------------------------------------------------------------------------------------------
    def stdlib(self, fq: str) -> t.Any:
        """real object for a dotted stdlib name; NotUnderstood for anything else."""
        parts = fq.split(".")
        if parts[0] == "builtins":
            if len(parts) >= 2 and parts[1] in _DENY_BUILTINS:
                raise self.nu(f"builtin {parts[1]} is not modelled")
            obj: t.Any = builtins
            rest = parts[1:]
        else:
            obj = None
            rest = []
            for i in range(len(parts), 0, -1):
                mn = ".".join(parts[:i])
                top = parts[0]
                if top not in sys.stdlib_module_names or mn in _DENY_MODULES or top in _DENY_MODULES:
                    continue
                try:
                    obj = importlib.import_module(mn)
                    rest = parts[i:]
                    break
                except ImportError:
                    continue
            if obj is None:
                raise self.nu(f"name {fq} is outside the modelled libraries")
        for p in rest:
            try:
                obj = getattr(obj, p)
            except AttributeError:
                raise self.nu(f"{fq} not found")
        return obj

    def global_name(self, module: Module, name: str, node: ast.AST | None = None) -> t.Any:
        key = (module.name, name)
        if key in self.globals_memo:
            return self.globals_memo[key]
        if key in self.globals_busy:
            raise self.nu(f"cyclic module-level name {module.name}.{name}", node)
        self.globals_busy.add(key)
        try:
            v = self._global_name(module, name, node)
        finally:
            self.globals_busy.discard(key)
        self.globals_memo[key] = v
        return v

    def _global_name(self, module: Module, name: str, node: ast.AST | None) -> t.Any:
        if (name in module.classes or name in module.functions) and name in module.assigns:
            raise self.nu(f"{module.name}.{name} is defined and re-bound at module level", node)
        if name in module.classes:
            return ClsVal(module.classes[name])
        if name in module.functions:
            fi = module.functions[name]
            self.check_decorators(fi, node)
            return FuncVal(fi.node, module, None, fi)
        if name in module.assigns:
            return self.eval_module_assign(module, name)
        if name in module.imports:
            return self.resolve_fq(module.imports[name], node)
        if hasattr(builtins, name):
            if name in _DENY_BUILTINS:
                raise self.nu(f"builtin {name} is not modelled", node)
            return getattr(builtins, name)
        raise self.nu(f"unknown name {name} in {module.name}", node)

    def resolve_fq(self, fq: str, node: ast.AST | None = None) -> t.Any:
        if fq == PKG or fq.startswith(PKG + "."):
            fq = self.repo.canonical(fq)
            if fq in self.repo.modules:
                return ("module", self.repo.modules[fq])
            mn, _, nm = fq.rpartition(".")
            if mn in self.repo.modules:
                return self.global_name(self.repo.modules[mn], nm, node)
            raise self.nu(f"cannot resolve {fq}", node)
        return self.stdlib(fq)

    def eval_module_assign(self, module: Module, name: str) -> t.Any:
        """value of a module-level name: the top-level statements that bind or mutate it are executed in order."""
        env = Env()
        found = False
        fv = FuncVal(ast.parse("def _module_(): pass").body[0], module, None)
        for st in module.tree.body:
            kind = _touches(st, name)
            if kind is None:
                continue
            if kind == "complex":
                raise self.nu(f"module-level {module.name}.{name} is bound or changed inside a compound statement", st)
            self.frames.append((fv, st))
            try:
                mf = Frame(self, fv, env, module)
                for _ in mf.exec_stmt(st):
                    raise self.nu("yield at module level", st)
            finally:
                self.frames.pop()
            if name in env.vars:
                found = True
        if not found:
            raise self.nu(f"module-level {module.name}.{name} could not be evaluated")
        return env.vars[name]

    # -- classes -----------------------------------------------------------------------------------------------
    def mro(self, cls: ClassInfo) -> list[t.Any]:
        return self.repo.mro(cls)

    def builtin_bases(self, cls: ClassInfo) -> list[t.Any]:
        out = []
        for k in self.mro(cls):
            if isinstance(k, BuiltinClass):
                try:
                    out.append(self.stdlib(k.fq if "." in k.fq else f"builtins.{k.fq}"))
                except NotUnderstood:
                    pass
        return out

    def prepare_class(self, cls: ClassInfo) -> None:
        """run the __init_subclass__ hooks a class statement would have run (base classes first)."""
        if cls.fq in self.class_ready:
            return
        self.class_ready.add(cls.fq)
        for k in self.mro(cls)[1:]:
            if isinstance(k, ClassInfo):
                self.prepare_class(k)
        for k in self.mro(cls)[1:]:
            if isinstance(k, ClassInfo) and "__init_subclass__" in k.methods:
                fi = k.methods["__init_subclass__"]
                fv = FuncVal(fi.node, fi.module, None, fi, k, ClsVal(cls), True)
                self.call(fv, [], {}, fi.node)
                break

    def class_attr(self, cls: ClassInfo, name: str, node: ast.AST | None = None) -> tuple[bool, t.Any]:
        """(found, raw value) of a class-level attribute through the MRO (functions are returned as FuncVal, unbound)."""
        self.prepare_class(cls)
        for k in self.mro(cls):
            if isinstance(k, BuiltinClass):
                continue
            over = self.class_over.get(k.fq, {})
            if name in over:
                return True, over[name]
            if name in k.methods:
                fi = k.methods[name]
                decs = fi.decorators
                self.check_decorators(fi, node)
                fv = FuncVal(fi.node, fi.module, None, fi, k)
                if any(d in ("property", "cached_property") or d.endswith(".cached_property") for d in decs):
                    fs = k.methods.get(f"{name}.setter")
                    return True, PropVal(fv, FuncVal(fs.node, fs.module, None, fs, k) if fs else None)
                if "staticmethod" in decs:
                    return True, ("static", fv)
                if "classmethod" in decs:
                    return True, ("classmethod", fv)
                return True, fv
            if name in k.attrs:
                mk = (k.fq, name)
                if mk not in self.class_memo:
                    direct = [st for st in k.node.body if (isinstance(st, ast.Assign) and any(isinstance(tg, ast.Name) and tg.id == name for tg in st.targets)) or (isinstance(st, ast.AnnAssign) and isinstance(st.target, ast.Name) and st.target.id == name and st.value is not None)]
                    if len(direct) != 1 or (isinstance(direct[0], ast.Assign) and direct[0].value is not k.attrs[name]) or (isinstance(direct[0], ast.AnnAssign) and direct[0].value is not k.attrs[name]):
                        raise self.nu(f"class attribute {k.name}.{name} is not a single plain assignment of the class body", node)
                    fv0 = FuncVal(ast.parse("def _class_(): pass").body[0], k.module, None)
                    self.frames.append((fv0, k.attrs[name]))
                    try:
                        fr = Frame(self, fv0, Env(), k.module, clsns=k)
                        self.class_memo[mk] = fr.ev(k.attrs[name])
                    finally:
                        self.frames.pop()
                return True, self.class_memo[mk]
            # `a, b = x, y` in the class body: the element standing at the name's position
            packed = [(st, i) for st in k.node.body if isinstance(st, ast.Assign) and len(st.targets) == 1 and isinstance(st.targets[0], (ast.Tuple, ast.List))
                      for i, tg in enumerate(st.targets[0].elts) if isinstance(tg, ast.Name) and tg.id == name]
            if packed:
                mk = (k.fq, name)
                if mk not in self.class_memo:
                    st, i = packed[0]
                    tgs = st.targets[0].elts  # type: ignore[attr-defined]
                    if len(packed) != 1 or not isinstance(st.value, (ast.Tuple, ast.List)) or len(st.value.elts) != len(tgs) or any(isinstance(x, ast.Starred) for x in [*tgs, *st.value.elts]):
                        raise self.nu(f"class attribute {k.name}.{name} is bound by an unpacking assignment that is not written out element by element", node)
                    fv0 = FuncVal(ast.parse("def _class_(): pass").body[0], k.module, None)
                    self.frames.append((fv0, st.value.elts[i]))
                    try:
                        fr = Frame(self, fv0, Env(), k.module, clsns=k)
                        self.class_memo[mk] = fr.ev(st.value.elts[i])
                    finally:
                        self.frames.pop()
                return True, self.class_memo[mk]
        return False, None

    _TRANSPARENT_DECORATORS = ("property", "staticmethod", "classmethod", "cached_property", "lru_cache", "cache", "wraps", "final", "override", "no_type_check", "setter", "deleter")

    def check_decorators(self, fi: FuncInfo, node: ast.AST | None) -> None:
        for d in fi.decorators:
            if d.rsplit(".", 1)[-1] not in self._TRANSPARENT_DECORATORS:
                raise self.nu(f"function {fi.qualname} is wrapped by decorator {d}, which is not modelled", node)

    def is_dataclass(self, cls: ClassInfo) -> bool:
        return any((dotted(d.func if isinstance(d, ast.Call) else d) or "").endswith("dataclass") for d in cls.node.decorator_list)

    def dataclass_fields(self, cls: ClassInfo) -> list[tuple[str, ast.AST | None, Module]]:
        out: list[tuple[str, ast.AST | None, Module]] = []
        for k in reversed([k for k in self.mro(cls) if isinstance(k, ClassInfo)]):
            for st in k.node.body:
                if isinstance(st, ast.AnnAssign) and isinstance(st.target, ast.Name):
                    if "ClassVar" in ast.unparse(st.annotation):
                        continue
                    out = [f for f in out if f[0] != st.target.id]
                    out.append((st.target.id, st.value, k.module))
        return out

    def instantiate(self, cv: ClsVal, args: list, kwargs: dict, node: ast.AST | None) -> t.Any:
        cls = cv.cls
        self.prepare_class(cls)
        bb = self.builtin_bases(cls)
        if any(isinstance(b, type) and issubclass(b, BaseException) for b in bb):
            exc = ExcObj(cv, tuple(args))
            found, init = self.class_attr(cls, "__init__", node)
            if found and isinstance(init, FuncVal):
                self.call(init.bind(exc), args, kwargs, node)
            return exc
        base_names = [k.fq for k in self.mro(cls) if isinstance(k, BuiltinClass)]
        if any(b.endswith("NamedTuple") for b in base_names) or any((dotted(be) or "").endswith("NamedTuple") for be in cls.base_exprs):
            fields = [st.target.id for st in cls.node.body if isinstance(st, ast.AnnAssign) and isinstance(st.target, ast.Name)]
            vals = list(args)
            for f in fields[len(vals):]:
                if f not in kwargs:
                    raise self.nu(f"NamedTuple {cls.name}: missing field {f}", node)
                vals.append(kwargs[f])
            return tuple(vals)
        for b in bb:
            if b in (dict, list, set, frozenset, tuple):
                # a container subclass: modelled by the plain container (reads only)
                return b(*args, **kwargs)
        obj = Obj(cls)
        found, init = self.class_attr(cls, "__init__", node)
        if found and isinstance(init, FuncVal):
            self.call(init.bind(obj), args, kwargs, node)
        elif self.is_dataclass(cls):
            fields = self.dataclass_fields(cls)
            names = [f[0] for f in fields]
            given = dict(zip(names, args))
            if len(args) > len(names):
                raise self.nu(f"dataclass {cls.name}: too many arguments", node)
            for k_, v_ in kwargs.items():
                if k_ not in names or k_ in given:
                    raise self.nu(f"dataclass {cls.name}: bad argument {k_}", node)
                given[k_] = v_
            for fname, default, mod in fields:
                if fname in given:
                    obj.attrs[fname] = given[fname]
                elif default is None:
                    raise self.nu(f"dataclass {cls.name}: missing {fname}", node)
                else:
                    fr = Frame(self, FuncVal(ast.parse("def _dc_(): pass").body[0], mod, None), Env(), mod)
                    if isinstance(default, ast.Call) and (dotted(default.func) or "").endswith("field"):
                        fac = next((kw.value for kw in default.keywords if kw.arg == "default_factory"), None)
                        dflt = next((kw.value for kw in default.keywords if kw.arg == "default"), None)
                        if fac is not None:
                            obj.attrs[fname] = self.call(fr.ev(fac), [], {}, node)
                        elif dflt is not None:
                            obj.attrs[fname] = fr.ev(dflt)
                        else:
                            raise self.nu(f"dataclass {cls.name}: field() without default for {fname}", node)
                    else:
                        obj.attrs[fname] = fr.ev(default)
        elif args or kwargs:
            raise self.nu(f"{cls.name}() takes no arguments", node)
        return obj

    # -- attribute access --------------------------------------------------------------------------------------
    def getattr(self, obj: t.Any, name: str, node: ast.AST | None = None) -> t.Any:
        if isinstance(obj, Obj):
            found, raw = self.class_attr(obj.cls, name, node)
            if found and isinstance(raw, PropVal):
                return self.call(raw.fget.bind(obj), [], {}, node)
            if name in obj.attrs:
                return obj.attrs[name]
            if name == "__class__":
                return ClsVal(obj.cls)
            if name == "__dict__":
                return obj.attrs
            if found:
                return self._bind_class_value(raw, obj, ClsVal(obj.cls))
            if self.is_dataclass(obj.cls) and name == "__eq__":
                raise self.nu("dataclass __eq__ as a value", node)
            raise Raised(ExcObj(AttributeError, (f"{obj.cls.name} object has no attribute {name}",)))
        if isinstance(obj, ClsVal):
            if name == "__name__":
                return obj.cls.name
            if name == "__dict__":
                self.prepare_class(obj.cls)
                d = {k: True for k in list(obj.cls.attrs) + list(obj.cls.methods)}
                d.update(self.class_over.get(obj.cls.fq, {}))
                return d
            found, raw = self.class_attr(obj.cls, name, node)
            if found:
                return self._bind_class_value(raw, None, obj)
            raise Raised(ExcObj(AttributeError, (f"class {obj.cls.name} has no attribute {name}",)))
        if isinstance(obj, SuperVal):
            target = obj.obj
            cls = target.cls if isinstance(target, (Obj, ClsVal)) else (target.cls.cls if isinstance(target, ExcObj) and isinstance(target.cls, ClsVal) else None)
            if cls is None:
                raise self.nu("super() on an unmodelled object", node)
            m = self.mro(cls)
            start = next((i for i, k in enumerate(m) if k.fq == obj.defcls.fq), None)
            if start is None:
                raise self.nu("super(): class not in the MRO", node)
            for k in m[start + 1:]:
                if isinstance(k, BuiltinClass):
                    continue
                if name in k.methods:
                    fi = k.methods[name]
                    fv = FuncVal(fi.node, fi.module, None, fi, k)
                    if "staticmethod" in fi.decorators:
                        return fv
                    return fv.bind(target)
            if name in ("__init__", "__init_subclass__", "__post_init__"):
                return _noop
            raise self.nu(f"super().{name} resolves outside the package", node)
        if isinstance(obj, ExcObj):
            if name in obj.attrs:
                return obj.attrs[name]
            if name == "args":
                return obj.args
            if isinstance(obj.cls, ClsVal):
                found, raw = self.class_attr(obj.cls.cls, name, node)
                if found and isinstance(raw, PropVal):
                    return self.call(raw.fget.bind(obj), [], {}, node)
                if found:
                    return self._bind_class_value(raw, obj, obj.cls)
            raise self.nu(f"attribute {name} of an exception object", node)
        if isinstance(obj, FuncVal):
            if name == "__get__":
                return ("fn_get", obj)
            if name == "__name__":
                return obj.name
            raise self.nu(f"attribute {name} of a function", node)
        if isinstance(obj, tuple) and len(obj) == 2 and obj[0] == "module" and isinstance(obj[1], Module):
            return self.global_name(obj[1], name, node)
        if isinstance(obj, Sym):
            if obj.styp is str:
                return ("symmethod", obj, name)
            raise self.nu(f"attribute {name} of symbolic value {obj!r}", node)
        if isinstance(obj, (GenVal, CodeVal)):
            raise self.nu(f"attribute {name} of {type(obj).__name__}", node)
        # a real (stdlib / builtin) object
        try:
            return getattr(obj, name)
        except AttributeError:
            raise Raised(ExcObj(AttributeError, (f"{type(obj).__name__} object has no attribute {name}",)))

    def _bind_class_value(self, raw: t.Any, inst: t.Any, cv: ClsVal) -> t.Any:
        if isinstance(raw, FuncVal):
            return raw.bind(inst) if inst is not None else raw
        if isinstance(raw, tuple) and len(raw) == 2 and raw[0] == "static":
            return raw[1]
        if isinstance(raw, tuple) and len(raw) == 2 and raw[0] == "classmethod":
            return raw[1].bind(cv)
        return raw

    def setattr(self, obj: t.Any, name: str, value: t.Any, node: ast.AST | None = None) -> None:
        if isinstance(obj, Obj):
            found, raw = self.class_attr(obj.cls, name, node)
            if found and isinstance(raw, PropVal):
                if raw.fset is None:
                    raise Raised(ExcObj(AttributeError, (f"can't set attribute {name}",)))
                self.call(raw.fset.bind(obj), [value], {}, node)
                return
            obj.attrs[name] = value
            return
        if isinstance(obj, ClsVal):
            self.class_over.setdefault(obj.cls.fq, {})[name] = value
            return
        if isinstance(obj, ExcObj):
            obj.attrs[name] = value
            return
        if isinstance(obj, (Sym, FuncVal, SuperVal, GenVal, CodeVal)):
            raise self.nu(f"assignment to attribute {name} of {obj!r}", node)
        if isinstance(obj, ast.AST):
            setattr(obj, name, value)
            return
        raise self.nu(f"assignment to attribute {name} of a {type(obj).__name__}", node)

    # -- calls -------------------------------------------------------------------------------------------------
    def call(self, fn: t.Any, args: list, kwargs: dict, node: ast.AST | None = None) -> t.Any:
        self.tick(node)
        if fn is _noop:
            return None
        if isinstance(fn, FuncVal):
            return self.call_func(fn, args, kwargs, node)
        if isinstance(fn, ClsVal):
            return self.instantiate(fn, args, kwargs, node)
        if isinstance(fn, PartialVal):
            return self.call(fn.func, [*fn.args, *args], {**fn.kwargs, **kwargs}, node)
        if isinstance(fn, tuple) and fn and fn[0] == "fn_get":
            if not args:
                raise self.nu("__get__ without instance", node)
            return fn[1].bind(args[0]) if args[0] is not None else fn[1]
        if isinstance(fn, tuple) and fn and fn[0] == "symmethod":
            return self.sym_method(fn[1], fn[2], args, kwargs, node)
        if isinstance(fn, Obj):
            found, raw = self.class_attr(fn.cls, "__call__", node)
            if found and isinstance(raw, FuncVal):
                return self.call_func(raw.bind(fn), args, kwargs, node)
            raise self.nu(f"{fn!r} is not callable", node)
        if isinstance(fn, (Sym, GenVal, ExcObj, CodeVal, SuperVal)) or fn is None:
            raise self.nu(f"call of {fn!r}", node)
        return self.call_real(fn, args, kwargs, node)

    def real_fq(self, fn: t.Any) -> str:
        mod = getattr(fn, "__module__", None)
        qn = getattr(fn, "__qualname__", None) or getattr(fn, "__name__", None)
        if mod is None and hasattr(fn, "__self__"):
            s = fn.__self__
            if isinstance(s, type):
                return f"{s.__module__}.{s.__qualname__}.{fn.__name__}"
            return f"{type(s).__module__}.{type(s).__qualname__}.{fn.__name__}"
        if hasattr(fn, "__self__") and not isinstance(fn.__self__, type(sys)) and fn.__self__ is not None and not isinstance(fn, type):
            s = fn.__self__
            return f"{type(s).__module__}.{type(s).__qualname__}.{getattr(fn, '__name__', '?')}"
        return f"{mod}.{qn}"

    def call_real(self, fn: t.Any, args: list, kwargs: dict, node: ast.AST | None) -> t.Any:
        if not callable(fn):
            raise self.nu(f"call of non-callable {fn!r}", node)
        fq = self.real_fq(fn)
        site = (self.frames[-1][0] if self.frames else None, node)
        # --- intercepted builtins
        if isinstance(fn, type) and issubclass(fn, BaseException):
            return ExcObj(fn, tuple(args))
        if fq == "typing.cast" and len(args) == 2:
            return args[1]
        if fq == "contextlib.suppress" and not kwargs and all(isinstance(a, ClsVal) or (isinstance(a, type) and issubclass(a, BaseException)) for a in args):
            return SuppressVal(tuple(args))
        if fq == "builtins.method" and len(args) == 2 and not kwargs and isinstance(args[0], (FuncVal, PartialVal, ClsVal, Obj)):
            # types.MethodType(function, instance) is function.__get__(instance): the bound method
            if isinstance(args[0], FuncVal) and not args[0].has_bound:
                return args[0].bind(args[1])
            return PartialVal(args[0], (args[1],), {})
        if fq == "functools.partial" and args and not isinstance(args[0], (Sym, GenVal, ExcObj, CodeVal, SuperVal)) and (isinstance(args[0], (FuncVal, ClsVal, Obj, PartialVal)) or callable(args[0])):
            return PartialVal(args[0], tuple(args[1:]), kwargs)
        if fn in (builtins.set, builtins.frozenset, builtins.sorted, builtins.min, builtins.max, builtins.any, builtins.all) and args and isinstance(args[0], dict) and deep_concrete(list(args[0].keys())):
            # a mapping handed to a consumer of iterables: only its (concrete) keys are looked at, whatever the values are
            args = [list(args[0].keys()), *args[1:]]
        if getattr(fn, "__name__", "") == "get" and isinstance(getattr(fn, "__self__", None), dict) and args and isinstance(args[0], Sym) and not kwargs:
            # <dict>.get(<symbolic key>): decided like `key in dict`; only the miss is modelled
            cond = Sym("in", args[0], tuple(fn.__self__.keys()), styp=bool)
            if not fn.__self__ or not self.oracle.decide(cond):
                return args[1] if len(args) > 1 else None
            raise self.nu("lookup of a symbolic key that is assumed present", node)
        if fn is builtins.compile:
            if args and isinstance(args[0], ast.AST):
                return CodeVal(args[0])
            raise self.nu("compile() of something that is not an ast", node)
        if fn is builtins.exec:
            return self.do_exec(args, kwargs, node)
        if fn is builtins.isinstance:
            return self.do_isinstance(args[0], args[1], node)
        if fn is builtins.issubclass:
            return self.do_issubclass(args[0], args[1], node)
        if fn is builtins.type and len(args) == 1:
            a = args[0]
            if isinstance(a, Obj):
                return ClsVal(a.cls)
            if isinstance(a, ExcObj):
                return a.cls
            if isinstance(a, Sym):
                if a.styp is not None:
                    return a.styp
                raise self.nu("type() of a symbolic value", node)
            return type(a)
        if fn is builtins.super:
            if args:
                raise self.nu("super() with arguments", node)
            return self.zero_arg_super(node)
        if fn is builtins.getattr:
            if len(args) >= 2 and isinstance(args[1], str):
                try:
                    return self.getattr(args[0], args[1], node)
                except Raised as r:
                    if len(args) == 3 and r.exc.cls is AttributeError:
                        return args[2]
                    raise
            raise self.nu("getattr with a non-constant name", node)
        if fn is builtins.setattr:
            self.setattr(args[0], args[1], args[2], node)
            return None
        if fn is builtins.hasattr:
            try:
                self.getattr(args[0], args[1], node)
                return True
            except Raised:
                return False
        if fn is builtins.callable and len(args) == 1:
            return isinstance(args[0], (FuncVal, ClsVal, PartialVal)) or (not isinstance(args[0], (Sym, Obj)) and callable(args[0]))
        if fn is builtins.str and len(args) == 1 and not kwargs:
            a = args[0]
            if isinstance(a, Sym):
                if a.styp is str:
                    return a
                return Sym("call", "builtins.str", (a,), (), styp=str, site=site)
            if isinstance(a, (Obj, ClsVal, FuncVal, ExcObj)):
                if isinstance(a, Obj):
                    found, raw = self.class_attr(a.cls, "__str__", node)
                    if found and isinstance(raw, FuncVal):
                        return self.call_func(raw.bind(a), [], {}, node)
                raise self.nu(f"str() of {a!r}", node)
        if fn is builtins.format and args and not kwargs and (len(args) == 1 or (len(args) == 2 and isinstance(args[1], str))):
            return self.format_value(args[0], None, args[1] if len(args) == 2 else "", node)
        if type(fn).__name__ == "method_descriptor" and getattr(fn, "__objclass__", None) is str and args and isinstance(args[0], Sym) and args[0].styp is str:
            # str.zfill(text, n): the unbound spelling of text.zfill(n)
            return self.sym_method(args[0], fn.__name__, list(args[1:]), kwargs, node)
        if fn is builtins.len and len(args) == 1 and isinstance(args[0], Sym):
            if args[0].length is not None:
                return args[0].length
            return Sym("call", "builtins.len", (args[0],), (), styp=int, site=site)
        if fn is builtins.bool and len(args) == 1:
            return self.truth(args[0], node)
        if isinstance(fn, (_operator.attrgetter, _operator.methodcaller, _operator.itemgetter)) and len(args) == 1 and not kwargs and not deep_concrete(args[0]):
            # operator.attrgetter("a.b") / methodcaller("m", ...) / itemgetter(i) applied to an interpreted value
            made = fn.__reduce__()
            if made[0] is not type(fn):
                raise self.nu(f"{type(fn).__name__} with keyword arguments", node)
            if isinstance(fn, _operator.attrgetter):
                got = []
                for dotted_name in made[1]:
                    o = args[0]
                    for part in dotted_name.split("."):
                        o = self.getattr(o, part, node)
                    got.append(o)
                return got[0] if len(got) == 1 else tuple(got)
            if isinstance(fn, _operator.methodcaller):
                return self.call(self.getattr(args[0], made[1][0], node), list(made[1][1:]), {}, node)
            if isinstance(args[0], (list, tuple, dict)) and deep_concrete(list(made[1])):
                try:
                    got = [args[0][i] for i in made[1]]
                except (LookupError, TypeError) as e:
                    raise Raised(ExcObj(type(e), e.args))
                return got[0] if len(got) == 1 else tuple(got)
            raise self.nu("itemgetter on a value that is not a plain container", node)
        if fq == "builtins.dict.fromkeys" and 1 <= len(args) <= 2 and not kwargs and not isinstance(args[0], (Sym, Obj, GenVal)):
            keys = list(args[0])
            if deep_concrete(keys):
                return dict.fromkeys(keys, args[1] if len(args) == 2 else None)
        if fn in (builtins.sorted, builtins.min, builtins.max) and "key" in kwargs and isinstance(kwargs["key"], _INTERPRETED_KEYS):
            items = list(self.iterate(args[0], node))
            keys = [self.call(kwargs["key"], [x], {}, node) for x in items]
            if not deep_concrete(keys):
                raise self.nu("sort key is symbolic", node)
            order = sorted(range(len(items)), key=lambda i: keys[i], reverse=bool(kwargs.get("reverse", False)))
            if fn is builtins.sorted:
                return [items[i] for i in order]
            if not items:
                raise Raised(ExcObj(ValueError, ("empty sequence",)))
            idx = min(range(len(items)), key=lambda i: keys[i]) if fn is builtins.min else max(range(len(items)), key=lambda i: keys[i])
            return items[idx]
        if getattr(fn, "__name__", "") == "sort" and isinstance(getattr(fn, "__self__", None), list) and isinstance(kwargs.get("key"), _INTERPRETED_KEYS):
            lst = fn.__self__
            keys = [self.call(kwargs["key"], [x], {}, node) for x in lst]
            if not deep_concrete(keys):
                raise self.nu("sort key is symbolic", node)
            order = sorted(range(len(lst)), key=lambda i: keys[i], reverse=bool(kwargs.get("reverse", False)))
            lst[:] = [lst[i] for i in order]
            return None
        if fn is builtins.filter and len(args) == 2 and args[0] is None and not kwargs:
            return [x for x in self.iterate(args[1], node) if self.truth(x, node)]
        if fn in (builtins.map, builtins.filter) and len(args) >= 2 and args[0] is not None:
            f0 = args[0]
            seqs = [list(self.iterate(a, node)) for a in args[1:]]
            if fn is builtins.map:
                return [self.call(f0, list(xs), {}, node) for xs in zip(*seqs)]
            return [x for x in seqs[0] if self.truth(self.call(f0, [x], {}, node), node)]
        if fn is builtins.next and args and isinstance(args[0], GenVal):
            try:
                return next(args[0].it)
            except StopIteration:
                if len(args) > 1:
                    return args[1]
                raise Raised(ExcObj(StopIteration, ()))
        if fn is builtins.iter and len(args) == 1 and isinstance(args[0], GenVal):
            return args[0]
        if fn is builtins.iter and len(args) == 2 and not kwargs and isinstance(args[0], (FuncVal, ClsVal, Obj, PartialVal)):
            # iter(callable, sentinel): call until the result equals the sentinel, one call per element pulled
            f0, sentinel = args

            def g_sentinel() -> t.Iterator[t.Any]:
                while True:
                    v = self.call(f0, [], {}, node)
                    if v is sentinel or self.truth(self.equals(v, sentinel, node), node):
                        return
                    yield v

            return GenVal(g_sentinel())
        if _is_re_match_call(fn, fq) and not (deep_concrete(args) and deep_concrete(kwargs)):
            return self.sym_rematch(fn, fq, args, kwargs, node)
        if (fq.startswith("itertools.") or getattr(getattr(fn, "__self__", None), "__module__", None) == "itertools") and not (deep_concrete(args) and deep_concrete(kwargs)):
            lazy = self.lazy_itertools(fn, fq, args, kwargs, node)
            if lazy is not None:
                return lazy
        if fn in (builtins.list, builtins.tuple, builtins.set, builtins.frozenset, builtins.dict, builtins.enumerate, builtins.zip, builtins.iter, builtins.reversed, builtins.sorted, builtins.any, builtins.all, builtins.sum, builtins.min, builtins.max, _collections.deque) or fq in ("builtins.str.join", "builtins.list.extend", "builtins.set.update", "builtins.dict.update", "builtins.dict.fromkeys", "collections.deque.extend", "collections.deque.extendleft", "itertools.chain", "itertools.chain.from_iterable"):
            # materialise interpreted generators handed to real consumers
            args = [list(a.it) if isinstance(a, GenVal) else a for a in args]
        if fq == "re.sub" and len(args) == 3 and not kwargs and isinstance(args[0], str) and isinstance(args[1], str) and isinstance(args[2], Sym) and args[2].op == "concat":
            import re as _re

            ps = pieces_of(args[2])
            if set(_re.sub(r"[{},?+*0-9()]", "", args[0])) <= {"/"} and all(isinstance(p, str) or (isinstance(p, Sym) and p.op == "seg") for p in ps):
                # the pattern can only match runs of '/', which neither occur inside a segment symbol nor span one
                return concat(*[_re.sub(args[0], args[1], p) if isinstance(p, str) else p for p in ps])
        if fq == "builtins.str.join":
            sep = fn.__self__
            items = list(self.iterate(args[0], node))
            if all(isinstance(x, str) for x in items):
                return sep.join(items)
            out: list[t.Any] = []
            for i, x in enumerate(items):
                if i:
                    out.append(sep)
                out.append(x)
            return concat(*out)
        if fq == "builtins.str.format" and not (deep_concrete(args) and deep_concrete(kwargs)):
            return self.sym_format(fn.__self__, args, kwargs, node)
        # --- plain application
        all_c = deep_concrete(args) and deep_concrete(kwargs)
        struct_ok = False
        if not all_c:
            top_c = not any(isinstance(a, (Sym,)) for a in args) and not any(isinstance(a, Sym) for a in kwargs.values())
            slf = getattr(fn, "__self__", None)
            nm = getattr(fn, "__name__", "")
            if top_c and (fn in (builtins.list, builtins.tuple, builtins.dict, builtins.iter, builtins.len, builtins.enumerate, builtins.zip, builtins.reversed, builtins.id, builtins.next) or fq in ("collections.deque", "itertools.chain", "itertools.chain.from_iterable", "itertools.islice", "itertools.zip_longest", "builtins.type.from_iterable")):
                struct_ok = True
            elif fq == "collections.ChainMap" and not kwargs and all(isinstance(a, dict) for a in args):
                struct_ok = True  # a view over the given mappings: only their (concrete) keys are hashed
            elif slf is not None and not isinstance(slf, type(sys)):
                for ty, names in _STRUCT_SAFE_METHODS.items():
                    if type(slf) is ty and nm in names:
                        if ty is dict and nm in ("get", "pop", "setdefault") and args and not deep_concrete(args[0]):
                            break
                        if ty is dict and nm == "update" and args and isinstance(args[0], (Sym, Obj)):
                            break
                        struct_ok = True
                        break
        if all_c or struct_ok:
            try:
                res = fn(*args, **kwargs)
            except NotUnderstood:
                raise
            except Exception as e:  # the library raised on constants: that is the program's behaviour
                raise Raised(ExcObj(type(e), e.args))
            if fq in self.log_fqs:
                self.calls.append((fq, tuple(args), dict(kwargs), site, res))
            if isinstance(res, t.Iterator) and not isinstance(res, (list, tuple)) and type(res).__module__ == "builtins" and type(res).__name__ in ("map", "filter", "zip", "enumerate", "reversed", "generator", "list_iterator", "dict_keyiterator"):
                pass
            return res
        # symbolic application of a library function
        if any(isinstance(a, (Obj, FuncVal, GenVal, ClsVal, ExcObj, PartialVal)) for a in list(args) + list(kwargs.values())):
            raise self.nu(f"library call {fq} with an interpreted object argument", node)
        if not args and kwargs:
            # f(first=x) is f(x): one spelling for the terms (uuid.UUID(hex=text), quote(string=text, safe=...))
            try:
                import inspect as _inspect

                first = next(iter(_inspect.signature(fn).parameters.values()), None)
            except (TypeError, ValueError):
                first = None
            if first is not None and first.kind is first.POSITIONAL_OR_KEYWORD and first.name in kwargs:
                kwargs = dict(kwargs)
                args = [kwargs.pop(first.name)]
        styp = str if fq in _STR_RETURNING else _RET_TYPES.get(fq)
        if isinstance(fn, type) and styp is None:
            styp = fn
        res = Sym("call", fq, tuple(args), tuple(sorted(kwargs.items())), styp=styp, site=site)
        if fq in self.log_fqs:
            self.calls.append((fq, tuple(args), dict(kwargs), site, res))
        return res

    def lazy_itertools(self, fn: t.Any, fq: str, args: list, kwargs: dict, node: ast.AST | None) -> t.Any:
        """the itertools iterators over interpreted values: a GenVal that pulls from its sources and applies its
        (interpreted or real) callables one element at a time, exactly as lazily as the real ones do.  ``None`` when
        the function / argument shape is not one modelled here (the caller then goes on to the generic paths)."""
        import itertools as _it

        if any(isinstance(a, Sym) for a in list(args) + list(kwargs.values())):
            return None  # an opaque iterable / bound: stays a term as before
        it = lambda v: self.iterate(v, node)  # noqa: E731
        call = lambda f, xs: self.call(f, list(xs), {}, node)  # noqa: E731
        truth = lambda v: self.truth(v, node)  # noqa: E731

        def callable_ok(f: t.Any) -> bool:
            return isinstance(f, (FuncVal, ClsVal, Obj, PartialVal)) or (not isinstance(f, (Sym, GenVal, ExcObj, CodeVal, SuperVal)) and callable(f))

        def nxt(src: t.Iterator[t.Any]) -> tuple[bool, t.Any]:
            try:
                return True, next(src)
            except StopIteration:
                return False, None

        if fn in (_it.takewhile, _it.dropwhile, _it.filterfalse) and len(args) == 2 and not kwargs:
            pred, src = args[0], it(args[1])
            if pred is None and fn is _it.filterfalse:
                pred = builtins.bool
            if not callable_ok(pred):
                raise self.nu(f"{fq} with predicate {pred!r}", node)

            def g_pred() -> t.Iterator[t.Any]:
                if fn is _it.takewhile:
                    for x in src:
                        if not truth(call(pred, [x])):
                            return
                        yield x
                elif fn is _it.dropwhile:
                    for x in src:
                        if not truth(call(pred, [x])):
                            yield x
                            break
                    yield from src
                else:
                    for x in src:
                        if not truth(call(pred, [x])):
                            yield x

            return GenVal(g_pred())
        if fn is _it.starmap and len(args) == 2 and not kwargs and callable_ok(args[0]):
            f0, src = args[0], it(args[1])
            return GenVal(call(f0, list(it(xs))) for xs in src)
        if fn is _it.chain and not kwargs:
            srcs = list(args)
            return GenVal(x for s in srcs for x in it(s))
        if getattr(fn, "__self__", None) is _it.chain and getattr(fn, "__name__", "") == "from_iterable" and len(args) == 1 and not kwargs:
            outer = it(args[0])
            return GenVal(x for s in outer for x in it(s))
        if fn is _it.islice and 2 <= len(args) <= 4 and not kwargs and deep_concrete(args[1:]):
            try:
                return GenVal(_it.islice(it(args[0]), *args[1:]))
            except (TypeError, ValueError) as e:
                raise Raised(ExcObj(type(e), e.args))
        if fn is _it.zip_longest and set(kwargs) <= {"fillvalue"}:
            srcs2 = [it(a) for a in args]
            fill = kwargs.get("fillvalue")

            def g_zl() -> t.Iterator[t.Any]:
                live = [True] * len(srcs2)
                while srcs2:
                    row = []
                    for i, s in enumerate(srcs2):
                        ok, v = nxt(s) if live[i] else (False, None)
                        if not ok:
                            live[i] = False
                            v = fill
                        row.append(v)
                    if not any(live):
                        return
                    yield tuple(row)

            return GenVal(g_zl())
        if fn is _it.accumulate and len(args) in (1, 2) and set(kwargs) <= {"func", "initial"} and not (len(args) == 2 and "func" in kwargs):
            f1 = args[1] if len(args) == 2 else kwargs.get("func")
            if f1 is None or not callable_ok(f1):
                return None
            src1 = it(args[0])
            initial = kwargs.get("initial")

            def g_acc() -> t.Iterator[t.Any]:
                total = initial
                if total is None:
                    ok, total = nxt(src1)
                    if not ok:
                        return
                yield total
                for x in src1:
                    total = call(f1, [total, x])
                    yield total

            return GenVal(g_acc())
        if fn is _it.pairwise and len(args) == 1 and not kwargs:
            src3 = it(args[0])

            def g_pw() -> t.Iterator[t.Any]:
                ok, a = nxt(src3)
                if not ok:
                    return
                for b in src3:
                    yield (a, b)
                    a = b

            return GenVal(g_pw())
        if fn is _it.compress and len(args) == 2 and not kwargs:
            data, sel = it(args[0]), it(args[1])
            return GenVal(d for d, s in zip(data, sel) if truth(s))
        if fn is _it.groupby and len(args) in (1, 2) and set(kwargs) <= {"key"} and not (len(args) == 2 and "key" in kwargs):
            keyf = args[1] if len(args) == 2 else kwargs.get("key")
            if keyf is not None and not callable_ok(keyf):
                raise self.nu(f"{fq} with key {keyf!r}", node)
            src4 = it(args[0])

            def g_gb() -> t.Iterator[t.Any]:
                # the groups are collected run by run (one run ahead of the real, fully lazy object: the same values
                # in the same order; a key function with side effects is outside the model anyway)
                ok, x = nxt(src4)
                while ok:
                    k = x if keyf is None else call(keyf, [x])
                    run = [x]
                    while True:
                        ok, x = nxt(src4)
                        if not ok:
                            break
                        k2 = x if keyf is None else call(keyf, [x])
                        if not truth(self.equals(k, k2, node)):
                            break
                        run.append(x)
                    yield (k, GenVal(iter(run)))

            return GenVal(g_gb())
        return None

    def sym_format(self, fmt: str, args: list, kwargs: dict, node: ast.AST | None) -> t.Any:
        out: list[t.Any] = []
        auto = 0
        for lit, field, spec, conv in _string.Formatter().parse(fmt):
            if lit:
                out.append(lit)
            if field is None:
                continue
            if field == "":
                val = args[auto]
                auto += 1
            elif field.isdigit():
                val = args[int(field)]
            elif field.isidentifier():
                val = kwargs[field]
            else:
                raise self.nu(f"format field {field!r}", node)
            out.append(self.format_value(val, conv, spec or "", node))
        return concat(*out)

    def format_value(self, val: t.Any, conv: str | None, spec: str, node: ast.AST | None) -> t.Any:
        if isinstance(val, Sym):
            if conv in (None, "s") and spec == "":
                if val.styp is str:
                    return val
                return Sym("call", "builtins.str", (val,), (), styp=str, site=val.site)
            raise self.nu(f"formatting a symbolic value with !{conv} :{spec}", node)
        if isinstance(val, (Obj, ClsVal, FuncVal, ExcObj)):
            if conv in (None, "s") and spec == "":
                return self.call_real(builtins.str, [val], {}, node)
            raise self.nu(f"formatting {val!r}", node)
        if conv == "r":
            val = repr(val)
        elif conv == "s":
            val = str(val)
        elif conv == "a":
            val = ascii(val)
        return format(val, spec)

    def sym_method(self, recv: Sym, name: str, args: list, kwargs: dict, node: ast.AST | None) -> t.Any:
        """method of a symbolic *string*."""
        ps = pieces_of(recv)
        if name in ("lstrip", "rstrip", "strip") and len(args) <= 1 and not kwargs and (not args or isinstance(args[0], str)):
            chars = args[0] if args else None
            done_l = name == "rstrip"
            done_r = name == "lstrip"
            ps = list(ps)
            if not done_l:
                if ps and isinstance(ps[0], str):
                    s = ps[0].lstrip(chars)
                    if s != "" or len(ps) == 1:
                        ps[0] = s
                        done_l = True
            if not done_r:
                if ps and isinstance(ps[-1], str):
                    s = ps[-1].rstrip(chars)
                    if s != "" or len(ps) == 1:
                        ps[-1] = s
                        done_r = True
            if done_l and done_r:
                return concat(*ps)
        if name in ("removeprefix", "removesuffix") and len(args) == 1 and isinstance(args[0], str) and ps:
            edge = ps[0] if name == "removeprefix" else ps[-1]
            if isinstance(edge, str) and len(edge) >= len(args[0]):
                new = getattr(edge, name)(args[0])
                return concat(new, *ps[1:]) if name == "removeprefix" else concat(*ps[:-1], new)
        if name in ("startswith", "endswith") and len(args) == 1 and isinstance(args[0], str) and ps:
            edge = ps[0] if name == "startswith" else ps[-1]
            if isinstance(edge, str) and len(edge) >= len(args[0]):
                return getattr(edge, name)(args[0])
        if name in ("split", "rsplit") and len(args) == 1 and not kwargs and isinstance(args[0], str) and args[0] and all(isinstance(p, str) or (isinstance(p, Sym) and p.op == "seg") for p in ps):
            # a 'seg' symbol stands for text that does not contain the separator '/' (scenario assumption)
            sep = args[0]
            if sep == "/":
                segs: list[list[t.Any]] = [[]]
                for p in ps:
                    if isinstance(p, str):
                        bits = p.split(sep)
                        segs[-1].append(bits[0])
                        for b in bits[1:]:
                            segs.append([b])
                    else:
                        segs[-1].append(p)
                return [concat(*sg) for sg in segs]
        if name == "format":
            raise self.nu("format() on a symbolic template", node)
        site = (self.frames[-1][0] if self.frames else None, node)
        styp = str if name in ("lstrip", "rstrip", "strip", "zfill", "lower", "upper", "replace", "rjust", "ljust", "center", "title", "casefold", "removeprefix", "removesuffix", "format", "join") else (bytes if name == "encode" else (bool if name.startswith("is") or name in ("startswith", "endswith") else None))
        return Sym("method", recv, name, tuple(args), tuple(sorted(kwargs.items())), styp=styp, site=site)

    def sym_rematch(self, fn: t.Any, fq: str, args: list, kwargs: dict, node: ast.AST | None) -> t.Any:
        """<pattern>.match(<symbolic text>): whether the text is in the pattern's language is NOT decided here - the
        oracle is asked (scenarios assume acceptance); the match object hands out one symbol per capture group."""
        import re as _re

        slf = getattr(fn, "__self__", None)
        if isinstance(slf, _re.Pattern):
            pat, rest = slf, args
        else:
            if not args or not isinstance(args[0], (str, _re.Pattern)):
                raise self.nu("regex match with a symbolic pattern", node)
            pat = _re.compile(args[0]) if isinstance(args[0], str) else args[0]
            rest = args[1:]
        if len(rest) != 1 or kwargs or not is_str_term(rest[0]):
            raise self.nu("regex match on a symbolic text with extra arguments", node)
        text = rest[0]
        cond = Sym("rematch", pat.pattern, text, styp=bool)
        if not self.oracle.decide(cond):
            return None
        return SymMatch(pat, text)

    def zero_arg_super(self, node: ast.AST | None) -> SuperVal:
        for fv, _ in reversed(self.frames):
            if fv is not None and fv.defcls is not None and fv.has_bound:
                return SuperVal(fv.defcls, fv.bound)
            if fv is not None and fv.env is None:
                break
        raise self.nu("super() outside a method", node)

    def do_exec(self, args: list, kwargs: dict, node: ast.AST | None) -> None:
        if not args or not isinstance(args[0], CodeVal):
            raise self.nu("exec of something that was not compiled from an ast in the analysed code", node)
        globs = args[1] if len(args) > 1 else kwargs.get("globals")
        locs = args[2] if len(args) > 2 else kwargs.get("locals", globs)
        if not isinstance(globs, dict) or not isinstance(locs, dict):
            raise self.nu("exec without explicit namespaces", node)
        tree = args[0].tree
        body = getattr(tree, "body", None)
        if not isinstance(body, list):
            raise self.nu("exec of a non-module", node)
        for st in body:
            if isinstance(st, ast.FunctionDef):
                locs[st.name] = FuncVal(st, None, None, genv=globs)
            else:
                raise self.nu(f"exec'd code contains a {type(st).__name__}", node)
        return None

    def cls_is_sub(self, c: t.Any, k: t.Any, node: ast.AST | None) -> bool:
        """issubclass over the mixed (package / real) class domain; k is a single class."""
        if isinstance(k, tuple):
            return any(self.cls_is_sub(c, x, node) for x in k)
        if isinstance(c, ClsVal):
            if isinstance(k, ClsVal):
                return any(isinstance(m, ClassInfo) and m.fq == k.cls.fq for m in self.mro(c.cls))
            if isinstance(k, type):
                if k is object:
                    return True
                return any(isinstance(b, type) and issubclass(b, k) for b in self.builtin_bases(c.cls))
            raise self.nu(f"issubclass against {k!r}", node)
        if isinstance(c, type):
            if isinstance(k, ClsVal):
                return False
            if isinstance(k, type):
                return issubclass(c, k)
            try:
                return issubclass(c, k)
            except TypeError:
                raise self.nu(f"issubclass against {k!r}", node)
        raise self.nu(f"issubclass of {c!r}", node)

    def do_issubclass(self, c: t.Any, k: t.Any, node: ast.AST | None) -> bool:
        return self.cls_is_sub(c, k, node)

    def do_isinstance(self, v: t.Any, k: t.Any, node: ast.AST | None) -> bool:
        if isinstance(k, tuple):
            return any(self.do_isinstance(v, x, node) for x in k)
        if isinstance(v, Obj):
            return self.cls_is_sub(ClsVal(v.cls), k, node)
        if isinstance(v, ExcObj):
            return self.cls_is_sub(v.cls, k, node)
        if isinstance(v, Sym):
            if v.styp is None:
                raise self.nu(f"isinstance of an untyped symbolic value {v!r}", node)
            return self.cls_is_sub(v.styp, k, node)
        if isinstance(v, (FuncVal, ClsVal, GenVal, SuperVal, CodeVal)):
            if isinstance(v, ClsVal) and k is type:
                return True
            if isinstance(k, ClsVal):
                return False
            if isinstance(v, GenVal) and isinstance(k, type):
                import collections.abc as cabc

                return k in (cabc.Iterable, cabc.Iterator, cabc.Generator, object)
            if isinstance(v, FuncVal) and isinstance(k, type):
                return k is object
            raise self.nu(f"isinstance({v!r}, {k!r})", node)
        if isinstance(k, ClsVal):
            return False
        try:
            return isinstance(v, k)
        except TypeError:
            raise self.nu(f"isinstance against {k!r}", node)

    def call_func(self, fv: FuncVal, args: list, kwargs: dict, node: ast.AST | None) -> t.Any:
        if fv.module is not None and fv.module.name in self.best_effort_modules:
            caller = self.frames[-1][0] if self.frames else None
            if caller is None or caller.module is None or caller.module.name not in self.best_effort_modules:
                depth = len(self.frames)
                try:
                    return self._call_func(fv, args, kwargs, node)
                except NotUnderstood as e:
                    del self.frames[depth:]
                    self.skipped.append(f"{fv.module.name}.{fv.name}: {e}")
                    return Sym("opaque", f"{fv.module.name}.{fv.name}")
        return self._call_func(fv, args, kwargs, node)

    def _call_func(self, fv: FuncVal, args: list, kwargs: dict, node: ast.AST | None) -> t.Any:
        fnode = fv.node
        if not fv.has_bound and fv.defcls is not None and args and isinstance(args[0], Obj) and not isinstance(fnode, ast.Lambda):
            # `Base.method(self, ...)`: the plain function called with the instance first - zero-argument super() inside
            # it refers to that first argument, exactly as in a bound call
            fv, args = fv.bind(args[0]), list(args[1:])
        if fv.has_bound:
            args = [fv.bound] + list(args)
        module = fv.module
        env = Env(fv.env)
        fr = Frame(self, fv, env, module)
        fr.bind_params(fnode, args, kwargs, node)
        if len(self.frames) > 80:
            raise self.nu("interpreted call stack too deep", node)
        is_gen = not isinstance(fnode, ast.Lambda) and _has_yield(fnode)
        if isinstance(fnode, ast.Lambda):
            self.frames.append((fv, fnode))
            try:
                return fr.ev(fnode.body)
            finally:
                self.frames.pop()
        if is_gen:
            return GenVal(self._run_gen(fv, fr, fnode))
        self.frames.append((fv, fnode))
        try:
            try:
                for _ in fr.exec_block(fnode.body):
                    raise self.nu("yield in a non-generator", fnode)
            except _Return as r:
                return r.value
            return None
        finally:
            self.frames.pop()

    def _run_gen(self, fv: FuncVal, fr: "Frame", fnode: ast.AST) -> t.Iterator[t.Any]:
        gen = fr.exec_block(fnode.body)  # type: ignore[attr-defined]
        while True:
            self.frames.append((fv, fnode))
            try:
                try:
                    v = next(gen)
                except StopIteration:
                    return
                except _Return:
                    return
            finally:
                self.frames.pop()
            yield v

    # -- protocol helpers ----------------------------------------------------------------------------------------
    def iterate(self, v: t.Any, node: ast.AST | None = None) -> t.Iterator[t.Any]:
        if isinstance(v, GenVal):
            return v.it
        if isinstance(v, (Sym, FuncVal, ClsVal, ExcObj, CodeVal, SuperVal)) or v is None:
            raise self.nu(f"iteration over {v!r}", node)
        if isinstance(v, Obj):
            found, raw = self.class_attr(v.cls, "__iter__", node)
            if found and isinstance(raw, FuncVal):
                return self.iterate(self.call_func(raw.bind(v), [], {}, node), node)
            raise self.nu(f"iteration over {v!r}", node)
        try:
            return iter(v)
        except TypeError:
            raise Raised(ExcObj(TypeError, (f"{type(v).__name__} object is not iterable",)))

    def truth(self, v: t.Any, node: ast.AST | None = None) -> bool:
        if isinstance(v, Sym):
            if v.op == "concat" and any(isinstance(p, str) and p for p in v.args):
                return True
            if v.op == "not":
                return not self.truth(v.args[0], node)
            return self.oracle.decide(v)
        if isinstance(v, Obj):
            for nm in ("__bool__", "__len__"):
                found, raw = self.class_attr(v.cls, nm, node)
                if found and isinstance(raw, FuncVal):
                    return bool(self.call_func(raw.bind(v), [], {}, node))
            return True
        if isinstance(v, (FuncVal, ClsVal, ExcObj, GenVal, CodeVal)):
            return True
        return bool(v)

    def equals(self, a: t.Any, b: t.Any, node: ast.AST | None = None) -> t.Any:
        """a == b (a bool, or a term when it cannot be decided)."""
        if isinstance(a, Obj) or isinstance(b, Obj):
            if a is b:
                return True
            for x, y in ((a, b), (b, a)):
                if isinstance(x, Obj):
                    found, raw = self.class_attr(x.cls, "__eq__", node)
                    if found and isinstance(raw, FuncVal):
                        r = self.call_func(raw.bind(x), [y], {}, node)
                        if r is not NotImplemented:
                            return r
                    elif self.is_dataclass(x.cls):
                        if not (isinstance(y, Obj) and y.cls is x.cls):
                            return False
                        for f, _, _ in self.dataclass_fields(x.cls):
                            r = self.equals(x.attrs.get(f), y.attrs.get(f), node)
                            if r is not True:
                                if r is False:
                                    return False
                                raise self.nu("symbolic dataclass comparison", node)
                        return True
            return False
        if isinstance(a, (ClsVal, FuncVal)) or isinstance(b, (ClsVal, FuncVal)):
            if isinstance(a, ClsVal) and isinstance(b, ClsVal):
                return a == b
            return a is b
        if deep_concrete(a) and deep_concrete(b):
            return a == b
        if a is b:
            return True
        # strings with symbolic parts
        if (is_str_term(a) and is_str_term(b)):
            pa, pb = pieces_of(a), pieces_of(b)
            if all(isinstance(p, str) for p in pb):
                pa, pb = pb, pa
            if all(isinstance(p, str) for p in pa):
                const = "".join(pa)
                lits = "".join(p for p in pb if isinstance(p, str))
                if len(lits) > len(const):
                    return False
                if pb and isinstance(pb[0], str) and not const.startswith(pb[0]):
                    return False
                if pb and isinstance(pb[-1], str) and not const.endswith(pb[-1]):
                    return False
            if _key(a) == _key(b):
                return True
        if isinstance(a, (list, tuple)) and isinstance(b, (list, tuple)) and type(a) is type(b):
            if len(a) != len(b):
                return False
            res: t.Any = True
            for x, y in zip(a, b):
                r = self.equals(x, y, node)
                if r is False:
                    return False
                if r is not True:
                    res = r
            if res is True:
                return True
        if (a is None) != (b is None):
            return False
        if isinstance(a, Sym) and not isinstance(b, Sym) and a.styp is not None and b is not None and not _type_compatible(a.styp, b):
            return False
        if isinstance(b, Sym) and not isinstance(a, Sym) and b.styp is not None and a is not None and not _type_compatible(b.styp, a):
            return False
        x, y = sorted([a, b], key=_key)
        return Sym("cmp", "==", x, y, styp=bool)


def _type_compatible(styp: t.Any, v: t.Any) -> bool:
    if styp in (int, float, bool):
        return isinstance(v, (int, float, bool))
    try:
        return isinstance(v, styp)
    except TypeError:
        return True


def _is_re_match_call(fn: t.Any, fq: str) -> bool:
    import re as _re

    slf = getattr(fn, "__self__", None)
    if isinstance(slf, _re.Pattern) and getattr(fn, "__name__", "") in ("match", "fullmatch"):
        return True
    return fn in (_re.match, _re.fullmatch)


class SymMatch:
    """match object of a pattern on a symbolic text (acceptance was assumed by the oracle)."""

    def __init__(self, pat: t.Any, text: t.Any):
        self.pat = pat
        self.text = text
        self._groups = [Sym("group", text, i, styp=str) for i in range(1, pat.groups + 1)]
        for name, i in pat.groupindex.items():
            self._groups[i - 1] = Sym("group", text, name, styp=str)
        self.re = pat
        self.string = text

    def groupdict(self, default: t.Any = None) -> dict:
        return {name: self._groups[i - 1] for name, i in self.pat.groupindex.items()}

    def groups(self, default: t.Any = None) -> tuple:
        return tuple(self._groups)

    def group(self, *idx: t.Any) -> t.Any:
        def one(i: t.Any) -> t.Any:
            if i == 0:
                return self.text
            if isinstance(i, str):
                return self._groups[self.pat.groupindex[i] - 1]
            return self._groups[i - 1]

        if not idx:
            return self.text
        if len(idx) == 1:
            return one(idx[0])
        return tuple(one(i) for i in idx)

    def __getitem__(self, i: t.Any) -> t.Any:
        return self.group(i)


def _touches(st: ast.stmt, name: str) -> str | None:
    """does a top-level statement bind / mutate module-level ``name``?  'simple' | 'complex' | None"""
    def root(x: ast.AST) -> ast.AST:
        while isinstance(x, (ast.Subscript, ast.Attribute)):
            x = x.value
        return x

    def is_name(x: ast.AST) -> bool:
        return isinstance(x, ast.Name) and x.id == name

    if isinstance(st, (ast.FunctionDef, ast.AsyncFunctionDef, ast.ClassDef, ast.Import, ast.ImportFrom)):
        return None
    if isinstance(st, ast.Assign):
        tgs: list[ast.AST] = []
        for tg in st.targets:
            tgs.extend(tg.elts if isinstance(tg, (ast.Tuple, ast.List)) else [tg])
        return "simple" if any(is_name(root(tg)) for tg in tgs) else None
    if isinstance(st, (ast.AnnAssign, ast.AugAssign)):
        return "simple" if is_name(root(st.target)) and getattr(st, "value", None) is not None else None
    if isinstance(st, ast.Delete):
        return "simple" if any(is_name(root(tg)) for tg in st.targets) else None
    if isinstance(st, ast.Expr):
        v = st.value
        if isinstance(v, ast.Call) and isinstance(v.func, ast.Attribute) and is_name(root(v.func.value)):
            return "simple"
        return None
    # compound statement: only a problem when the name is stored / mutated inside
    for n in ast.walk(st):
        if isinstance(n, ast.Name) and n.id == name and isinstance(n.ctx, (ast.Store, ast.Del)):
            return "complex"
        if isinstance(n, (ast.Subscript, ast.Attribute)) and isinstance(n.ctx, (ast.Store, ast.Del)) and is_name(root(n)):
            return "complex"
        if isinstance(n, ast.Call) and isinstance(n.func, ast.Attribute) and is_name(root(n.func.value)) and n.func.attr in ("update", "add", "append", "extend", "pop", "clear", "remove", "discard", "setdefault", "insert", "sort", "reverse"):
            return "complex"
    return None


def _noop(*a: t.Any, **k: t.Any) -> None:
    return None


def _has_yield(fnode: ast.AST) -> bool:
    stack = list(ast.iter_child_nodes(fnode))
    while stack:
        n = stack.pop()
        if isinstance(n, (ast.Yield, ast.YieldFrom)):
            return True
        if isinstance(n, (ast.FunctionDef, ast.AsyncFunctionDef, ast.Lambda, ast.ClassDef)):
            continue
        stack.extend(ast.iter_child_nodes(n))
    return False


# ---------------------------------------------------------------------------------------------------------------
# frames: statements and expressions


class Frame:
    def __init__(self, world: World, fv: FuncVal, env: Env, module: Module | None, clsns: ClassInfo | None = None):
        self.w = world
        self.fv = fv
        self.env = env
        self.module = module
        self.clsns = clsns
        self.local_imports: dict[str, str] | None = None

    def nu(self, msg: str, node: ast.AST | None = None) -> NotUnderstood:
        where = ""
        if self.module is not None:
            where = f" [{self.module.relpath}:{getattr(node, 'lineno', '?')} in {self.fv.name}]"
        elif node is not None:
            where = f" [generated code in {self.fv.name}]"
        return NotUnderstood(msg + where)

    # -- parameters --------------------------------------------------------------------------------------------
    def bind_params(self, fnode: ast.AST, args: list, kwargs: dict, callnode: ast.AST | None) -> None:
        a = fnode.args  # type: ignore[attr-defined]
        pos = list(a.posonlyargs) + list(a.args)
        vars_ = self.env.vars
        kwargs = dict(kwargs)
        defaults = list(a.defaults)
        first_default = len(pos) - len(defaults)
        if len(args) > len(pos) and a.vararg is None:
            raise Raised(ExcObj(TypeError, (f"{self.fv.name}() takes {len(pos)} positional arguments but {len(args)} were given",)))
        for i, p in enumerate(pos):
            if i < len(args):
                if p.arg in kwargs and p not in a.posonlyargs:
                    raise Raised(ExcObj(TypeError, (f"{self.fv.name}() got multiple values for argument {p.arg!r}",)))
                vars_[p.arg] = args[i]
            elif p.arg in kwargs and p not in a.posonlyargs:
                vars_[p.arg] = kwargs.pop(p.arg)
            elif i >= first_default:
                vars_[p.arg] = self.ev_default(defaults[i - first_default])
            else:
                raise Raised(ExcObj(TypeError, (f"{self.fv.name}() missing required argument {p.arg!r}",)))
        if a.vararg is not None:
            vars_[a.vararg.arg] = tuple(args[len(pos):])
        for p, d in zip(a.kwonlyargs, a.kw_defaults):
            if p.arg in kwargs:
                vars_[p.arg] = kwargs.pop(p.arg)
            elif d is not None:
                vars_[p.arg] = self.ev_default(d)
            else:
                raise Raised(ExcObj(TypeError, (f"{self.fv.name}() missing keyword argument {p.arg!r}",)))
        if a.kwarg is not None:
            vars_[a.kwarg.arg] = kwargs
        elif kwargs:
            raise Raised(ExcObj(TypeError, (f"{self.fv.name}() got an unexpected keyword argument {sorted(kwargs)[0]!r}",)))

    def ev_default(self, d: ast.AST) -> t.Any:
        # defaults are evaluated in the defining scope
        outer = Frame(self.w, self.fv, self.env.parent or Env(), self.module)
        outer.fv = self.fv
        return outer.ev(d)

    # -- names -------------------------------------------------------------------------------------------------
    def lookup(self, name: str, node: ast.AST | None = None) -> t.Any:
        e: Env | None = self.env
        if name not in self.env.globals_:
            while e is not None:
                if name in e.vars:
                    return e.vars[name]
                e = e.parent
        if self.fv.genv is not None and name in self.fv.genv:
            return self.fv.genv[name]
        if self.module is None:
            if hasattr(builtins, name) and name not in _DENY_BUILTINS:
                return getattr(builtins, name)
            raise Raised(ExcObj(NameError, (f"name {name!r} is not defined",)))
        if self.clsns is not None and (name in self.clsns.attrs or name in self.clsns.methods):
            found, raw = self.w.class_attr(self.clsns, name, node)
            if found:
                return raw
        if self.local_imports is None:
            fn = self.fv.fi.node if self.fv.fi is not None else self.fv.node
            top = fn
            try:
                self.local_imports = self.module.local_imports(top) if not isinstance(top, ast.Lambda) else {}
            except Exception:
                self.local_imports = {}
        if name in self.local_imports:
            return self.w.resolve_fq(self.local_imports[name], node)
        return self.w.global_name(self.module, name, node)

    def store(self, name: str, value: t.Any) -> None:
        if name in self.env.nonlocals:
            e = self.env.parent
            while e is not None:
                if name in e.vars:
                    e.vars[name] = value
                    return
                e = e.parent
            raise self.nu(f"nonlocal {name} not found")
        if name in self.env.globals_:
            raise self.nu(f"assignment to global {name}")
        self.env.vars[name] = value

    # -- statements --------------------------------------------------------------------------------------------
    def exec_block(self, stmts: list[ast.stmt]) -> t.Iterator[t.Any]:
        for st in stmts:
            yield from self.exec_stmt(st)

    def exec_stmt(self, st: ast.stmt) -> t.Iterator[t.Any]:
        w = self.w
        w.tick(st)
        if w.frames:
            w.frames[-1] = (w.frames[-1][0], st)
        if isinstance(st, ast.Expr):
            v = st.value
            if isinstance(v, ast.Yield):
                yield (self.ev(v.value) if v.value is not None else None)
                return
            if isinstance(v, ast.YieldFrom):
                for x in w.iterate(self.ev(v.value), st):
                    yield x
                return
            self.ev(v)
            return
        if isinstance(st, ast.Assign):
            if isinstance(st.value, (ast.Yield, ast.YieldFrom)):
                raise self.nu("value of a yield expression", st)
            val = self.ev(st.value)
            for tg in st.targets:
                self.assign(tg, val)
            return
        if isinstance(st, ast.AnnAssign):
            if st.value is not None:
                self.assign(st.target, self.ev(st.value))
            return
        if isinstance(st, ast.AugAssign):
            cur = self.ev(_as_load(st.target))
            rhs = self.ev(st.value)
            if isinstance(cur, list) and isinstance(st.op, ast.Add) and not isinstance(rhs, (Sym, Obj, str, bytes)):
                # `xs += iterable` extends the list object in place (any iterable, not only a list)
                cur.extend(list(w.iterate(rhs, st)))
                val = cur
            elif isinstance(cur, dict) and isinstance(st.op, ast.BitOr) and isinstance(rhs, dict):
                cur.update(rhs)
                val = cur
            elif isinstance(cur, set) and isinstance(st.op, ast.BitOr) and isinstance(rhs, (set, frozenset)):
                cur.update(rhs)
                val = cur
            else:
                val = self.binop(st.op, cur, rhs, st)
            self.assign(st.target, val)
            return
        if isinstance(st, ast.Return):
            raise _Return(self.ev(st.value) if st.value is not None else None)
        if isinstance(st, ast.Pass):
            return
        if isinstance(st, ast.If):
            if w.truth(self.ev(st.test), st):
                yield from self.exec_block(st.body)
            else:
                yield from self.exec_block(st.orelse)
            return
        if isinstance(st, ast.For):
            broke = False
            for item in w.iterate(self.ev(st.iter), st):
                w.tick(st)
                self.assign(st.target, item)
                try:
                    yield from self.exec_block(st.body)
                except _Break:
                    broke = True
                    break
                except _Continue:
                    continue
            if not broke:
                yield from self.exec_block(st.orelse)
            return
        if isinstance(st, ast.While):
            broke = False
            while w.truth(self.ev(st.test), st):
                w.tick(st)
                try:
                    yield from self.exec_block(st.body)
                except _Break:
                    broke = True
                    break
                except _Continue:
                    continue
            if not broke:
                yield from self.exec_block(st.orelse)
            return
        if isinstance(st, ast.Break):
            raise _Break()
        if isinstance(st, ast.Continue):
            raise _Continue()
        if isinstance(st, ast.Raise):
            if st.exc is None:
                cur = getattr(self, "_handling", None)
                if cur is None:
                    raise self.nu("bare raise outside a handler", st)
                raise Raised(cur)
            e = self.ev(st.exc)
            if isinstance(e, ClsVal) or (isinstance(e, type) and issubclass(e, BaseException)):
                e = w.call(e, [], {}, st)
            if isinstance(e, BaseException):
                e = ExcObj(type(e), e.args)
            if not isinstance(e, ExcObj):
                raise self.nu(f"raise of {e!r}", st)
            raise Raised(e)
        if isinstance(st, ast.Try):
            yield from self.exec_try(st)
            return
        if isinstance(st, ast.Assert):
            if not w.truth(self.ev(st.test), st):
                raise Raised(ExcObj(AssertionError, (self.ev(st.msg),) if st.msg is not None else ()))
            return
        if isinstance(st, (ast.FunctionDef,)):
            if st.decorator_list:
                raise self.nu("decorated nested function", st)
            self.store(st.name, FuncVal(st, self.module, self.env, None, None, genv=self.fv.genv))
            return
        if isinstance(st, ast.With):
            yield from self.exec_with(st, 0)
            return
        if isinstance(st, ast.Nonlocal):
            self.env.nonlocals.update(st.names)
            return
        if isinstance(st, ast.Global):
            self.env.globals_.update(st.names)
            return
        if isinstance(st, (ast.Import, ast.ImportFrom)):
            return  # resolved lazily through Module.local_imports
        if isinstance(st, ast.Delete):
            for tg in st.targets:
                if isinstance(tg, ast.Name):
                    self.env.vars.pop(tg.id, None)
                elif isinstance(tg, ast.Subscript):
                    c = self.ev(tg.value)
                    k = self.ev_slice(tg.slice)
                    if isinstance(c, (dict, list)) and deep_concrete(k):
                        try:
                            del c[k]
                        except (KeyError, IndexError) as e:
                            raise Raised(ExcObj(type(e), e.args))
                    else:
                        raise self.nu("del on an unmodelled container", st)
                else:
                    raise self.nu("del target", st)
            return
        raise self.nu(f"statement {type(st).__name__} is not modelled", st)

    def exec_with(self, st: ast.With, i: int) -> t.Iterator[t.Any]:
        if i == len(st.items):
            yield from self.exec_block(st.body)
            return
        item = st.items[i]
        cm = self.ev(item.context_expr)
        w = self.w
        if isinstance(cm, SuppressVal):
            if item.optional_vars is not None:
                self.assign(item.optional_vars, None)
            try:
                yield from self.exec_with(st, i + 1)
            except Raised as r:
                if not any(self.exc_matches(r.exc, k, st) for k in cm.excs):
                    raise
            return
        if isinstance(cm, (Sym, FuncVal, ClsVal, GenVal, PartialVal)):
            raise self.nu("with over an unmodelled context manager", st)
        if isinstance(cm, Obj):
            val = w.call(w.getattr(cm, "__enter__", st), [], {}, st)
        else:
            val = cm.__enter__()
        if item.optional_vars is not None:
            self.assign(item.optional_vars, val)
        try:
            yield from self.exec_with(st, i + 1)
        finally:
            if isinstance(cm, Obj):
                w.call(w.getattr(cm, "__exit__", st), [None, None, None], {}, st)
            else:
                cm.__exit__(None, None, None)

    def exec_try(self, st: ast.Try) -> t.Iterator[t.Any]:
        w = self.w
        try:
            try:
                yield from self.exec_block(st.body)
            except Raised as r:
                depth = len(w.frames)
                for h in st.handlers:
                    if h.type is None or self.exc_matches(r.exc, self.ev(h.type), h):
                        if h.name:
                            self.store(h.name, r.exc)
                        saved = getattr(self, "_handling", None)
                        self._handling = r.exc
                        try:
                            yield from self.exec_block(h.body)
                        finally:
                            self._handling = saved
                        break
                else:
                    raise
                del depth
            else:
                yield from self.exec_block(st.orelse)
        finally:
            if st.finalbody:
                for _ in self.exec_block(st.finalbody):
                    raise self.nu("yield in finally", st)

    def exc_matches(self, exc: ExcObj, handler: t.Any, node: ast.AST) -> bool:
        return self.w.cls_is_sub(exc.cls, handler, node)

    def assign(self, tg: ast.AST, val: t.Any) -> None:
        w = self.w
        if isinstance(tg, ast.Name):
            self.store(tg.id, val)
        elif isinstance(tg, ast.Attribute):
            w.setattr(self.ev(tg.value), tg.attr, val, tg)
        elif isinstance(tg, ast.Subscript):
            c = self.ev(tg.value)
            k = self.ev_slice(tg.slice)
            if isinstance(c, (dict, list)) and deep_concrete(k):
                try:
                    c[k] = val
                except (IndexError, TypeError) as e:
                    raise Raised(ExcObj(type(e), e.args))
            else:
                raise self.nu(f"item assignment on {type(c).__name__}", tg)
        elif isinstance(tg, (ast.Tuple, ast.List)):
            if isinstance(val, Sym):
                raise self.nu("unpacking a symbolic value", tg)
            vals = list(w.iterate(val, tg))
            star = [i for i, e in enumerate(tg.elts) if isinstance(e, ast.Starred)]
            if star:
                i = star[0]
                after = len(tg.elts) - i - 1
                if len(vals) < len(tg.elts) - 1:
                    raise Raised(ExcObj(ValueError, ("not enough values to unpack",)))
                for e, v in zip(tg.elts[:i], vals[:i]):
                    self.assign(e, v)
                self.assign(tg.elts[i].value, vals[i:len(vals) - after])  # type: ignore[attr-defined]
                for e, v in zip(tg.elts[i + 1:], vals[len(vals) - after:]):
                    self.assign(e, v)
            else:
                if len(vals) != len(tg.elts):
                    raise Raised(ExcObj(ValueError, (f"expected {len(tg.elts)} values to unpack, got {len(vals)}",)))
                for e, v in zip(tg.elts, vals):
                    self.assign(e, v)
        elif isinstance(tg, ast.Starred):
            self.assign(tg.value, val)
        else:
            raise self.nu("assignment target", tg)

    # -- expressions -------------------------------------------------------------------------------------------
    def ev(self, n: ast.AST | None) -> t.Any:
        w = self.w
        w.tick(n)
        if n is None:
            return None
        if isinstance(n, ast.Constant):
            return n.value
        if isinstance(n, ast.Name):
            return self.lookup(n.id, n)
        if isinstance(n, ast.Attribute):
            return w.getattr(self.ev(n.value), n.attr, n)
        if isinstance(n, ast.Call):
            return self.ev_call(n)
        if isinstance(n, ast.JoinedStr):
            out: list[t.Any] = []
            for v in n.values:
                if isinstance(v, ast.Constant):
                    out.append(str(v.value))
                elif isinstance(v, ast.FormattedValue):
                    val = self.ev(v.value)
                    conv = {-1: None, 115: "s", 114: "r", 97: "a"}[v.conversion]
                    spec = self.ev(v.format_spec) if v.format_spec is not None else ""
                    if not isinstance(spec, str):
                        raise self.nu("symbolic format spec", n)
                    out.append(w.format_value(val, conv, spec, n))
                else:
                    # a bare expression inside JoinedStr (generated code): it must already be a string
                    val = self.ev(v)
                    if not is_str_term(val):
                        if (isinstance(val, Sym) and val.styp is not None) or (deep_concrete(val) and not isinstance(val, Sym)):
                            raise Raised(ExcObj(TypeError, ("sequence item: expected str instance",)))
                        raise self.nu(f"non-string piece {val!r} in a generated JoinedStr", n)
                    out.append(val)
            return concat(*out)
        if isinstance(n, (ast.Tuple, ast.List, ast.Set)):
            items: list[t.Any] = []
            for e in n.elts:
                if isinstance(e, ast.Starred):
                    items.extend(w.iterate(self.ev(e.value), e))
                else:
                    items.append(self.ev(e))
            if isinstance(n, ast.Tuple):
                return tuple(items)
            if isinstance(n, ast.List):
                return items
            if not deep_concrete(items):
                raise self.nu("set display with symbolic elements", n)
            return set(items)
        if isinstance(n, ast.Dict):
            d: dict[t.Any, t.Any] = {}
            for k, v in zip(n.keys, n.values):
                if k is None:
                    m = self.ev(v)
                    if not isinstance(m, dict):
                        raise self.nu("** of a non-dict in a dict display", n)
                    d.update(m)
                else:
                    kk = self.ev(k)
                    if not deep_concrete(kk):
                        raise self.nu("symbolic dict key", n)
                    d[kk] = self.ev(v)
            return d
        if isinstance(n, ast.BoolOp):
            val: t.Any = None
            for i, e in enumerate(n.values):
                val = self.ev(e)
                if i == len(n.values) - 1:
                    return val
                tv = w.truth(val, n)
                if isinstance(n.op, ast.And) and not tv:
                    return val
                if isinstance(n.op, ast.Or) and tv:
                    return val
            return val
        if isinstance(n, ast.UnaryOp):
            v = self.ev(n.operand)
            if isinstance(n.op, ast.Not):
                return not w.truth(v, n)
            if isinstance(v, Sym):
                raise self.nu("arithmetic on a symbolic value", n)
            try:
                if isinstance(n.op, ast.USub):
                    return -v
                if isinstance(n.op, ast.UAdd):
                    return +v
                return ~v
            except TypeError as e:
                raise Raised(ExcObj(TypeError, e.args))
        if isinstance(n, ast.BinOp):
            return self.binop(n.op, self.ev(n.left), self.ev(n.right), n)
        if isinstance(n, ast.Compare):
            left = self.ev(n.left)
            for op, c in zip(n.ops, n.comparators):
                right = self.ev(c)
                r = self.compare(op, left, right, n)
                if not w.truth(r, n):
                    return False
                left = right
            return True
        if isinstance(n, ast.IfExp):
            return self.ev(n.body) if w.truth(self.ev(n.test), n) else self.ev(n.orelse)
        if isinstance(n, ast.Subscript):
            return self.subscript(self.ev(n.value), self.ev_slice(n.slice), n)
        if isinstance(n, ast.Lambda):
            return FuncVal(n, self.module, self.env, None, None, genv=self.fv.genv)
        if isinstance(n, (ast.ListComp, ast.SetComp, ast.DictComp)):
            res = list(self.comp(n, 0, Env(self.env)))
            if isinstance(n, ast.ListComp):
                return res
            if isinstance(n, ast.SetComp):
                if not deep_concrete(res):
                    raise self.nu("set comprehension with symbolic elements", n)
                return set(res)
            out_d: dict[t.Any, t.Any] = {}
            for k, v in res:
                if not deep_concrete(k):
                    raise self.nu("symbolic dict key", n)
                out_d[k] = v
            return out_d
        if isinstance(n, ast.GeneratorExp):
            return GenVal(self.comp(n, 0, Env(self.env)))
        if isinstance(n, ast.NamedExpr):
            v = self.ev(n.value)
            self.store(n.target.id, v)
            return v
        if isinstance(n, ast.Starred):
            raise self.nu("starred expression", n)
        if isinstance(n, ast.Slice):
            return self.ev_slice(n)
        raise self.nu(f"expression {type(n).__name__} is not modelled", n)

    def comp(self, n: ast.AST, i: int, env: Env) -> t.Iterator[t.Any]:
        gens = n.generators  # type: ignore[attr-defined]
        sub = Frame(self.w, self.fv, env, self.module, self.clsns)
        sub.local_imports = self.local_imports
        if i == len(gens):
            if isinstance(n, ast.DictComp):
                yield (sub.ev(n.key), sub.ev(n.value))
            else:
                yield sub.ev(n.elt)  # type: ignore[attr-defined]
            return
        g = gens[i]
        for item in self.w.iterate(sub.ev(g.iter), g.iter):
            self.w.tick(g.iter)
            sub.assign(g.target, item)
            if all(self.w.truth(sub.ev(c), c) for c in g.ifs):
                yield from self.comp(n, i + 1, env)

    def ev_slice(self, s: ast.AST) -> t.Any:
        if isinstance(s, ast.Slice):
            parts = [self.ev(x) if x is not None else None for x in (s.lower, s.upper, s.step)]
            if not deep_concrete(parts):
                raise self.nu("symbolic slice bound", s)
            return slice(*parts)
        return self.ev(s)

    def subscript(self, c: t.Any, k: t.Any, n: ast.AST) -> t.Any:
        if isinstance(c, Sym):
            if c.styp is str and isinstance(k, slice) and (k.step in (None, 1)):
                ps = pieces_of(c)
                # s[:-1] / s[a:] when the edge is a constant long enough
                lo, hi = k.start, k.stop
                if (lo is None or lo == 0) and isinstance(hi, int) and hi < 0 and ps and isinstance(ps[-1], str) and len(ps[-1]) >= -hi:
                    return concat(*ps[:-1], ps[-1][:hi])
                if hi is None and isinstance(lo, int) and lo >= 0 and ps and isinstance(ps[0], str) and len(ps[0]) >= lo:
                    return concat(ps[0][lo:], *ps[1:])
                if lo in (None, 0) and isinstance(hi, int) and hi >= 0 and ps and isinstance(ps[0], str) and len(ps[0]) >= hi:
                    return ps[0][:hi]
            raise self.nu(f"subscript of symbolic value {c!r}", n)
        if isinstance(c, (Obj, GenVal, FuncVal, ExcObj)):
            if isinstance(c, Obj):
                found, raw = self.w.class_attr(c.cls, "__getitem__", n)
                if found and isinstance(raw, FuncVal):
                    return self.w.call_func(raw.bind(c), [k], {}, n)
            raise self.nu(f"subscript of {c!r}", n)
        if isinstance(c, ClsVal):
            return c  # generic alias
        if isinstance(c, dict) and isinstance(k, Sym):
            cond = Sym("in", k, tuple(c.keys()), styp=bool)
            if not c or not self.w.oracle.decide(cond):
                raise Raised(ExcObj(KeyError, (k,)))
            raise self.nu("lookup of a symbolic key that is assumed present", n)
        if not deep_concrete(k):
            raise self.nu("symbolic subscript", n)
        try:
            return c[k]
        except (KeyError, IndexError, TypeError) as e:
            raise Raised(ExcObj(type(e), e.args))

    def binop(self, op: ast.operator, a: t.Any, b: t.Any, n: ast.AST) -> t.Any:
        if isinstance(op, ast.Add) and (isinstance(a, Sym) or isinstance(b, Sym)):
            if is_str_term(a) and is_str_term(b):
                return concat(a, b)
            raise self.nu("addition with a symbolic non-string", n)
        if isinstance(op, ast.Add) and isinstance(a, list) and isinstance(b, list):
            return a + b
        if isinstance(op, ast.Add) and isinstance(a, tuple) and isinstance(b, tuple):
            return a + b
        if isinstance(op, ast.Mod) and isinstance(a, str) and not deep_concrete(b):
            vals = list(b) if isinstance(b, tuple) else [b]
            out: list[t.Any] = []
            i = 0
            j = 0
            while i < len(a):
                ch = a[i]
                if ch != "%":
                    out.append(ch)
                    i += 1
                    continue
                nxt = a[i + 1:i + 2]
                if nxt == "%":
                    out.append("%")
                elif nxt == "s" and j < len(vals):
                    out.append(self.w.format_value(vals[j], "s", "", n))
                    j += 1
                else:
                    raise self.nu("%-formatting with symbolic values (only %s is modelled)", n)
                i += 2
            if j != len(vals):
                raise self.nu("%-formatting: argument count", n)
            return concat(*out)
        if isinstance(op, ast.Mult) and ((isinstance(a, (list, tuple)) and isinstance(b, int)) or (isinstance(b, (list, tuple)) and isinstance(a, int))):
            return a * b
        if not (deep_concrete(a) and deep_concrete(b)):
            if isinstance(op, ast.BitOr) and isinstance(a, dict) and isinstance(b, dict):
                return {**a, **b}
            raise self.nu(f"operator {type(op).__name__} on symbolic / interpreted values", n)
        import operator as _op

        fn = {ast.Add: _op.add, ast.Sub: _op.sub, ast.Mult: _op.mul, ast.Div: _op.truediv, ast.FloorDiv: _op.floordiv, ast.Mod: _op.mod, ast.Pow: _op.pow,
              ast.BitOr: _op.or_, ast.BitAnd: _op.and_, ast.BitXor: _op.xor, ast.LShift: _op.lshift, ast.RShift: _op.rshift}.get(type(op))
        if fn is None:
            raise self.nu(f"operator {type(op).__name__}", n)
        try:
            return fn(a, b)
        except Exception as e:
            raise Raised(ExcObj(type(e), e.args))

    def compare(self, op: ast.cmpop, a: t.Any, b: t.Any, n: ast.AST) -> t.Any:
        w = self.w
        if isinstance(op, (ast.Is, ast.IsNot)):
            if isinstance(a, ClsVal) and isinstance(b, ClsVal):
                r = a == b
            elif a is None or b is None or isinstance(a, bool) or isinstance(b, bool):
                r = a is b
            elif isinstance(a, Sym) or isinstance(b, Sym):
                if a is b:
                    r = True
                elif type(a) is object or type(b) is object:
                    # a bare object() made by the analysed code is a private marker: no value of any domain is it
                    r = False
                else:
                    raise self.nu("identity test on a symbolic value", n)
            else:
                r = a is b
            return r if isinstance(op, ast.Is) else not r
        if isinstance(op, (ast.Eq, ast.NotEq)):
            r = w.equals(a, b, n)
            if isinstance(op, ast.Eq):
                return r
            if isinstance(r, Sym):
                return Sym("not", r, styp=bool)
            return not r
        if isinstance(op, (ast.In, ast.NotIn)):
            r = self.contains(b, a, n)
            if isinstance(op, ast.In):
                return r
            if isinstance(r, Sym):
                return Sym("not", r, styp=bool)
            return not r
        # ordering
        if deep_concrete(a) and deep_concrete(b):
            import operator as _op

            fn = {ast.Lt: _op.lt, ast.LtE: _op.le, ast.Gt: _op.gt, ast.GtE: _op.ge}[type(op)]
            try:
                return fn(a, b)
            except TypeError as e:
                raise Raised(ExcObj(TypeError, e.args))
        if isinstance(a, (Obj, FuncVal, ClsVal)) or isinstance(b, (Obj, FuncVal, ClsVal)):
            raise self.nu("ordering of interpreted objects", n)
        # canonical: a < b / not (b < a)
        if isinstance(op, ast.Lt):
            return Sym("cmp", "<", a, b, styp=bool)
        if isinstance(op, ast.Gt):
            return Sym("cmp", "<", b, a, styp=bool)
        if isinstance(op, ast.LtE):
            return Sym("not", Sym("cmp", "<", b, a, styp=bool), styp=bool)
        return Sym("not", Sym("cmp", "<", a, b, styp=bool), styp=bool)

    def contains(self, container: t.Any, item: t.Any, n: ast.AST) -> t.Any:
        if isinstance(container, Obj):
            found, raw = self.w.class_attr(container.cls, "__contains__", n)
            if found and isinstance(raw, FuncVal):
                return self.w.call_func(raw.bind(container), [item], {}, n)
            raise self.nu(f"membership test on {container!r}", n)
        if isinstance(container, (GenVal, FuncVal, ClsVal)) or container is None:
            raise self.nu(f"membership test on {container!r}", n)
        if isinstance(container, Sym):
            if container.styp is str and isinstance(item, str):
                ps = pieces_of(container)
                if any(isinstance(p, str) and item in p for p in ps):
                    return True
            return Sym("in", item, container, styp=bool)
        if isinstance(container, dict):
            if deep_concrete(item):
                try:
                    return item in container
                except TypeError as e:
                    raise Raised(ExcObj(TypeError, e.args))
            if isinstance(item, Sym):
                if not container:
                    return False
                return Sym("in", item, tuple(container.keys()), styp=bool)
            return False
        if deep_concrete(item) and deep_concrete(container):
            try:
                return item in container
            except TypeError as e:
                raise Raised(ExcObj(TypeError, e.args))
        if isinstance(container, (list, tuple, set, frozenset)):
            if not container:
                return False
            if isinstance(item, Sym) and deep_concrete(container):
                frozen = tuple(sorted(container, key=repr)) if isinstance(container, (set, frozenset)) else tuple(container)
                return Sym("in", item, frozen, styp=bool)
            res: t.Any = False
            for x in container:
                r = self.w.equals(x, item, n)
                if r is True:
                    return True
                if r is not False:
                    res = r
            if res is False:
                return False
            raise self.nu("membership among symbolic elements", n)
        if isinstance(container, str):
            raise self.nu("substring test with a symbolic needle", n)
        raise self.nu(f"membership test on a {type(container).__name__}", n)

    def ev_call(self, n: ast.Call) -> t.Any:
        w = self.w
        fn = self.ev(n.func)
        args: list[t.Any] = []
        for a in n.args:
            if isinstance(a, ast.Starred):
                args.extend(w.iterate(self.ev(a.value), a))
            else:
                args.append(self.ev(a))
        kwargs: dict[str, t.Any] = {}
        for kw in n.keywords:
            if kw.arg is None:
                m = self.ev(kw.value)
                if isinstance(m, Obj):
                    raise self.nu("** of an interpreted object", n)
                if not isinstance(m, dict):
                    try:
                        m = dict(m)
                    except Exception:
                        raise self.nu("** of a non-mapping", n)
                for k, v in m.items():
                    if not isinstance(k, str):
                        raise Raised(ExcObj(TypeError, ("keywords must be strings",)))
                    if k in kwargs:
                        raise Raised(ExcObj(TypeError, (f"got multiple values for keyword argument {k!r}",)))
                    kwargs[k] = v
            else:
                kwargs[kw.arg] = self.ev(kw.value)
        return w.call(fn, args, kwargs, n)


def _as_load(tg: ast.AST) -> ast.AST:
    c = ast.parse(ast.unparse(tg), mode="eval").body
    ast.copy_location(c, tg)
    return c
