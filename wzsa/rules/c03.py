"""C03 - URL matching agrees with the declarative meaning of the rules (structural clauses).

Eleven rules.  R3.1-R3.8 and R3.11 do not interpret the per-part regular expressions or the
backtracking search as a language recogniser (R3.9 / R3.10 do, on sample maps and
paths only, by symbolic execution of the source): what is decided is the priority
order, the 405 bookkeeping of the rule loops, the mapping of NoMatch onto HTTP
exceptions, that a converter's late rejection does not end the search, that
the weight of a rule part is frozen once it was built, that the retry on the
path with merged slashes happens only for maps that merge slashes, that NoMatch
is raised only behind the search (no fast reject around it), and two
writer / reader agreements between the rule parser and the matcher: how the
regex of a dynamic part ends (end anchor vs. how the matcher applies it) and
that a final part's regex leaves the rule's trailing slash optional.

Conditions are compared through canonical atoms (wzsa.guards.canon) with local
flags / aliases replaced by what they stand for.  Slots are found by role and
values are followed rather than statement shapes matched: which exception
*value* leaves the NoMatch handler is decided path by path (a raise per branch,
an exception selected into a local and raised once, a conditional expression,
a private helper that returns or raises it all mean the same); a helper called
for one candidate rule is executed as part of the rule loop's truth table; a
loop left through `break` is followed to the `return` behind it; a loop moved
into a helper that its call sites feed with candidates is executed once per call
site with the argument bound and the rule found followed back into the caller; a Weighting /
RulePart construction is followed into a helper that only hands its parameters
on; the traversal of update() is decided on the set of states it feeds itself
with (recursion or work list).  Neutral restructurings of the matcher, the
adapter and the rule parser therefore stay silent (_c03_helpers.py).
"""

from __future__ import annotations

import ast
import itertools
import typing as t

from .. import astq, guards
from ..cfg import CFG, Node, cfg_of
from ..dataflow import ReachingDefs
from ..fold import Folder, RegexConst, Unfoldable, matches_const
from ..loader import AnalysisError, ClassInfo, FuncInfo, dotted, norm, walk_no_nested
from ..report import Ctx
from . import _c04_helpers as _I
from ._c03_helpers import DATA, HelperResolver, PartSite, StateFlow, TailFlow, Walker, bind_call, flat, is_opaque, is_s, re_function, show, subst, truthy_polarity

LEVEL_TEXT = (
    "Static decision of structural clauses of C03 on /repo's current source: (R3.1) priority order - in the matcher's "
    "recursive search the static transition is tried, and its result returned, before the loop over the dynamic "
    "transitions, which visits State.dynamic in list order; StateMachineMatcher.update sorts every state's dynamic transitions ascending by the rule part's weight "
    "(stable list sort; every state visited: the traversal - recursion, generator or work list - starts at the root, feeds itself with the static and the "
    "dynamic successors - directly or through a local container that is bound and then filled statement by statement, each such statement lying on every path of a "
    "traversal step - and skips none that has transitions below it, a filtered iteration included); MapAdapter.match calls Map.update before the matcher on every path, Map.update "
    "reaches the matcher's update whenever _remap is set and Map.add sets _remap after adding (the adding may sit in private methods; the mark then follows it there or behind their call); the converters' class-level "
    "weights, resolved through the MRO, satisfy int/float < string/default < path; the Weighting of a part counts its literal "
    "pieces negatively and carries the weights of the converters obtained from get_converter; (R3.2) 405 bookkeeping - the "
    "loops over candidate rules in the search are evaluated as truth tables over their condition atoms: methods are recorded "
    "(and websocket_mismatch set) only for rules that pass the same path-admission tests that guard `return rule, values`, an "
    "admitted rule that is discarded only because of its methods is recorded, and sibling loops agree; a loop that sits in a helper nested in match() and runs over a "
    "parameter counts as one loop per call site - over the candidates that site hands in (`state.rules`, a filtered iteration of it = a filtered loop, constant flags bound) - "
    "and the rule it returns is followed through the calling function to the `return` that hands it on; no statement that records methods or sets the flag may lie outside the loops followed; (R3.3) in "
    "MapAdapter.match MethodNotAllowed is raised iff NoMatch.have_match_for is non-empty, with exactly that set, NotFound "
    "only on the remaining path - decided on the exception value that leaves the handler on every path under both valuations "
    "of `have_match_for is empty` (raised per branch, selected first and raised once, conditional expression, private helper "
    "returning or raising it; the same exceptions must not be raised where match() gets without a NoMatch) - and the matcher "
    "hands NoMatch the one set its loops update; (R3.4) a converter whose "
    "to_python raises ValidationError must not end the whole match: the handler around the to_python call has to resume "
    "the search; (R3.5) a list stored into a Weighting / RulePart is never mutated afterwards (it is rebound to a fresh "
    "list first), so parts never share or lose their weights; (R3.6) in StateMachineMatcher.match the path with repeated "
    "slashes merged - and hence the retry of the search on it, its slash redirect and its 405 bookkeeping - is used only on "
    "paths on which the map-level `self.merge_slashes` is true (a statement that can also run with the flag off - a handler shared "
    "by both attempts - may see the merged path only through definitions that are executed under the flag); (R3.7) writer / reader agreement on "
    "anchoring - StateMachineMatcher.match applies a part's `content` as a regular expression from the first character of the path segment "
    "(re `match` / `fullmatch`, written out, through a local, a module-level alias or a caching helper of re.compile, or read back from a mapping the compiled patterns are kept in - every reader of that mapping in the class is followed - not `search`), and unless every "
    "application is `fullmatch`, the text of every RulePart that can be dynamic ends in the end-of-string assertion `\\Z` (`$` is not accepted: it also "
    "matches before a trailing newline) on every path through the functions of werkzeug.routing that build parts: decided by abstract execution of "
    "those functions (known flags and the known end of strings per path, through `+=`, f-strings, `%` / format with any number of fields / join, a local list of pieces that is appended to and joined, conditional expressions, "
    "slices, module constants, private helpers and closures; a dynamic part whose end is not known on some path - and on no path known to lack the anchor - is exit 2, not a violation), so a variable segment cannot admit a path segment that merely starts with "
    "something its converter accepts; (R3.8) writer / reader agreement on the trailing slash of a final (slash-consuming) part - on no path does the "
    "regex of a part built with final=True end in a mandatory '/' (the matcher tells match, slash redirect and strict_slashes apart only after "
    "the regex matched the path without the slash, so the optional-slash suffix may not depend on strict_slashes or anything else), and a "
    "part built with suffixed=True ends in a last capturing group that matches '' and '/' (the matcher reads the slash from the last group); "
    "(R3.9) a rule written without strict_slashes / merge_slashes carries, once bound, the map's setting of the same name - read back from the "
    "rules of sample maps under all four map-level combinations; (R3.10) decided on samples only, by symbolic execution of the routing source "
    "(the AST interpreter of _c04_helpers; maps, rules and request paths concrete, werkzeug never imported or run): for the sample maps listed in "
    "the module - three rules under each of the four strict_slashes x merge_slashes map settings against doubled, trailing and missing slashes; "
    "three rules (leaf, branch with a method set, one-segment leaf) under the same four settings against request paths that are several parts deeper than every "
    "rule and still denote an admitted path once runs of slashes are merged (two doubled slashes, a doubled slash plus a doubled trailing slash, with leading slashes, "
    "for an admitted and for a not admitted method); "
    "request paths with one, two and three leading slashes (all routed like the path with one); every length option of the string converter alone and "
    "combined, int, int(fixed_digits), float, any, uuid, path and a literally decorated variable at the boundaries of what the option admits; a "
    "priority map (literal / int / string / path, a rule the search has to back out of) in both insertion orders; GET / POST / PUT against rules "
    "with method sets - MapAdapter.match answers with exactly what the rule strings denote: the endpoint and converted arguments, the redirect to "
    "the merged or slash-completed path, NotFound, or MethodNotAllowed with the admitted rules' methods; "
    "(R3.11) 'no rule' is an answer of the search, not a shortcut around it - every place where StateMachineMatcher.match builds / raises NoMatch (in match() itself, in a "
    "closure nested in it or in a private method / function of the module that match() calls, followed to the call sites) is reached only on paths on which the "
    "recursive search nested in match() has been called first (directly or through a closure that calls it on every path to its normal exit; a call under a "
    "conditional expression, a later operand of and / or or a comprehension does not count; a raise that has the search in front of it on some paths only is exit 2), "
    "so no test on the request path or on bookkeeping recorded in add() (depth, length, number of parts, ...) can turn a path some rule admits - directly, after the "
    "slash redirect, or after merging repeated slashes - into a 404 / swallow the 405 bookkeeping before the rules were looked at. "
    "Not decided: a shortcut taken after the first search (between it and the merged-slashes retry) or inside the search (pruning), beyond the R3.10 samples; "
    "runs of three or more slashes (not sampled: the tree merges pairs of slashes once, /a///b becomes /a//b and is answered NotFound); anything about maps and paths outside those samples beyond R3.1-R3.8, in particular that the compiled per-part regular "
    "expressions plus backtracking accept exactly the language the rule grammar denotes (regex / state-machine "
    "semantics: the converters' own patterns, the named groups, escaping of literals, what precedes the end of a part's regex, that the empty static part "
    "follows a suffixed part), "
    "and the relative order of parts whose literal decoration differs *and* whose converters differ."
)
TRUSTED = [
    "CPython ast",
    "list.sort / sorted are stable and order ascending by the key",
    "tuple (NamedTuple) comparison is lexicographic, list comparison is lexicographic",
    "the statement-level CFG of the engine (short-circuit conditions split into atoms)",
    "re: `match` anchors a pattern at the start only, `fullmatch` at both ends, `search` at neither; `\\Z` matches only at the very end of the string",
    "R3.8: the re engine run on a suffix of a regex constant folded from the parser's source, against '' and '/'",
    "R3.9 / R3.10: the symbolic interpreter in wzsa/rules/_c04_helpers.py (Python semantics of the subset it models, the stdlib - re, uuid, urllib - called on concrete values; anything it does not model aborts with ANALYSIS-ERROR)",
]
ASSUMPTIONS = [
    "converters are the classes deriving from routing.converters.BaseConverter inside the package; user converters are outside the claim",
    "an explicit `raise ValidationError` in a to_python is reachable for some string the converter's regex accepts (it would be dead code otherwise)",
    "condition atoms of a rule loop are treated as independent booleans; infeasible combinations only add rows in which short-circuit evaluation never looks at the dependent atom",
    "the request-dependent atoms of a rule loop are those mentioning a parameter of StateMachineMatcher.match (method, websocket)",
    "a local flag / alias is replaced by its defining expression only when that is its single reaching definition, the expression is pure (names, attributes, constants, comparisons, and/or/not) and none of its names is rebound in between",
    "a helper is taken to construct a Weighting / RulePart for its caller only if it is straight-line code that neither rebinds nor mutates its parameters; every construction in it then counts as one over the call's arguments",
    "a helper called for one candidate rule (closure of match(), method through self, module function) is executed as part of the rule loop only if it has no loop / try / with; anything else is exit 2",
    "a rule loop inside a closure of match() over (an expression of) one of its parameters is judged once per call site of the closure; behind the call the rule found is followed through straight-line code and tests over it only (anything else on the way is exit 2); the number of rule loops is not prescribed",
    "R3.1: a local container between a state and the recursion is taken to hold what any of its bindings / growth statements (`+=`, append, extend, add, update, insert) may put into it; that each contributing statement is executed on every traversal step is checked separately",
    "R3.3: along a path through the NoMatch handler the attributes of the caught exception keep their values (no assignment to them in the handler: checked); a condition that mentions have_match_for in a form whose meaning is not 'is it empty' is exit 2",
    "the traversal in StateMachineMatcher.update is judged by the successor states it feeds itself with; a condition under which it skips a successor is accepted only if it fails solely for states whose .static and .dynamic are both empty (walked over the valuations of those two atoms, every other atom open)",
    "`self.merge_slashes` of the matcher is the map-level setting (it is not assigned inside match(); checked)",
    "R3.7 / R3.8: every piece appended to a part's regex is a regex fragment of its own (escaped literal text, a converter's pattern wrapped in a group, a constant), so the known end of the text decides how the whole regex ends (no alternation at top level, no class left open)",
    "R3.7 / R3.8: the abstract execution follows bool flags and strings; the known end of a string is cut to 16 characters and three repetitions of a character; an unknown callee that is handed a followed string, or a rule part changed after it was built, is exit 2; a violation that hangs on a condition over followed values the evaluator cannot read is exit 2, one that hangs on input (`self.<attr>`, parameters, match results) is a violation",
    "R3.7: the applications of a part's `content` are those in StateMachineMatcher.match (and the functions nested in it); when the matcher looks at the end position of the match object, a missing end anchor is exit 2",
    "R3.11: the search is the one recursive function nested in match(); NoMatch is recognised by its name at the construction site and judged where it is built (its arguments - the websocket flag above all - are read there); a function that receives the search or a searching closure as a value is not followed (exit 2)",
    "R3.9 / R3.10: the reference answer of a sample is written next to it and follows the documented meaning of the rule strings and of strict_slashes / merge_slashes (a doubled slash is answered with a redirect to the merged path when the map merges slashes and with NotFound when it does not; a branch rule visited without its slash redirects under strict_slashes; leading slashes of the request path do not count); the adapter is bound to server_name 'example.org', script root '/'; samples keep clear of the known R3.4 defect (a converter's late rejection is never the only thing between a path and another rule)",
]

MATCHER = "routing.matcher.StateMachineMatcher"
FRESH_CALLS = ("list", "sorted")


# ----------------------------------------------------------------------
# small helpers


def _last(d: str | None) -> str:
    return d.rsplit(".", 1)[-1] if d else ""


def _inside(node: ast.AST, anc: ast.AST) -> bool:
    cur = astq.parent(node)
    while cur is not None:
        if cur is anc:
            return True
        cur = astq.parent(cur)
    return False


def _enclosing_func(node: ast.AST) -> ast.AST | None:
    return astq.enclosing(node, (ast.FunctionDef, ast.AsyncFunctionDef, ast.Lambda))


def _polar_edges(cfg: CFG, target: str) -> tuple[list[tuple[Node, str]], list[tuple[Node, str]]]:
    """(edges taken when target is truthy, edges taken when it is falsy) over all test atoms that decide it."""
    yes: list[tuple[Node, str]] = []
    no: list[tuple[Node, str]] = []
    for tn in cfg.tests():
        if tn.kind != "test":
            continue
        p = truthy_polarity(tn.ast, target)
        if p is None:
            continue
        yes.append((tn, "T" if p else "F"))
        no.append((tn, "F" if p else "T"))
    return yes, no


def _is_fresh_list(e: ast.AST | None) -> bool:
    """evaluating e creates a new list object."""
    if isinstance(e, (ast.List, ast.ListComp)):
        return True
    if isinstance(e, ast.Call) and isinstance(e.func, ast.Name) and e.func.id in FRESH_CALLS:
        return True
    if isinstance(e, ast.Call) and isinstance(e.func, ast.Attribute) and e.func.attr == "copy" and not e.args:
        return True
    if isinstance(e, ast.Subscript) and isinstance(e.slice, ast.Slice):
        return True  # a slice of a list is a new list
    if isinstance(e, ast.BinOp) and isinstance(e.op, (ast.Add, ast.Mult)):
        # list + list / list * n build a new list (an operand that is visibly a list tells it is not str / tuple arithmetic)
        return any(isinstance(x, (ast.List, ast.ListComp)) or (isinstance(x, ast.Call) and astq.is_name(x.func, "list")) for x in (e.left, e.right))
    return False


def _returned_by(hr: HelperResolver | None, v: ast.AST | None) -> ast.AST | None:
    """when v is a call of a private helper that does nothing but `return <expression>` without using its parameters,
    that expression: every call evaluates it anew (`def _fresh(): return "", True, [], []`)."""
    if hr is None or not isinstance(v, ast.Call):
        return v
    r = hr.resolve(v)
    if r is None:
        return v
    fn = r[0]
    body = [st for st in fn.body if not (isinstance(st, ast.Expr) and isinstance(st.value, ast.Constant))]  # type: ignore[attr-defined]
    a = fn.args  # type: ignore[attr-defined]
    params = {x.arg for x in [*a.posonlyargs, *a.args, *a.kwonlyargs]}
    if len(body) == 1 and isinstance(body[0], ast.Return) and body[0].value is not None and not (astq.names_in(body[0].value) & params):
        return body[0].value
    return v


def _bindings(fn: ast.AST, hr: HelperResolver | None = None) -> list[tuple[ast.AST, str, ast.AST | None]]:
    """(statement, local name, bound value) for the plain assignments in fn; tuple assignments are taken apart
    element by element (`a, b = [], []`, also when the tuple comes out of a one-expression helper), a value that cannot
    be attributed to the name is None."""
    out: list[tuple[ast.AST, str, ast.AST | None]] = []

    def one(st: ast.AST, tg: ast.AST, v: ast.AST | None) -> None:
        v = _returned_by(hr, v)
        if isinstance(tg, ast.Name):
            out.append((st, tg.id, v))
        elif isinstance(tg, (ast.Tuple, ast.List)):
            same = isinstance(v, (ast.Tuple, ast.List)) and len(v.elts) == len(tg.elts) and not any(isinstance(x, ast.Starred) for x in [*v.elts, *tg.elts])
            for i, e in enumerate(tg.elts):
                one(st, e.value if isinstance(e, ast.Starred) else e, v.elts[i] if same else None)  # type: ignore[union-attr]

    for st in walk_no_nested(fn):
        if isinstance(st, ast.Assign):
            for tg in st.targets:
                one(st, tg, st.value)
        elif isinstance(st, ast.AnnAssign) and st.value is not None:
            one(st, st.target, st.value)
        elif isinstance(st, ast.NamedExpr):
            one(st, st.target, st.value)
    return out


Mapping = t.Mapping[str, t.Union[str, ast.AST]]


class _Rename(ast.NodeTransformer):
    """replaces local names: by another name (the loop variable becomes `$r`) or by an expression (a helper's parameter
    becomes the argument it was called with)."""

    def __init__(self, mapping: Mapping):
        self.mapping = mapping

    def visit_Name(self, n: ast.Name) -> ast.AST:  # noqa: N802
        if n.id in self.mapping:
            v = self.mapping[n.id]
            return ast.copy_location(ast.Name(id=v, ctx=n.ctx), n) if isinstance(v, str) else v
        return n


def _text(e: ast.AST, mapping: Mapping) -> str:
    # re-parse instead of deepcopy: the loader hangs `_parent` links on every node
    fresh = ast.parse(ast.unparse(e), mode="eval").body
    return norm(_Rename(mapping).visit(fresh))


def _renamed(e: ast.AST, mapping: Mapping) -> ast.AST:
    # re-parse instead of deepcopy: the loader hangs `_parent` links on every node
    return _Rename(mapping).visit(ast.parse(ast.unparse(e), mode="eval").body)


def _unwalrus(e: ast.AST, names: t.Collection[str]) -> ast.AST:
    """`(name := <value>)` read as `name`, for the names whose value the execution knows."""
    if not names or not any(isinstance(x, ast.NamedExpr) for x in ast.walk(e)):
        return e

    class T(ast.NodeTransformer):
        def visit_NamedExpr(self, n: ast.NamedExpr) -> ast.AST:  # noqa: N802
            if n.target.id in names:
                return ast.copy_location(ast.Name(id=n.target.id, ctx=ast.Load()), n)
            return self.generic_visit(n)

    return ast.fix_missing_locations(T().visit(ast.parse(ast.unparse(e), mode="eval").body))


_PURE = (ast.Name, ast.Attribute, ast.Constant, ast.Compare, ast.BoolOp, ast.UnaryOp, ast.Subscript, ast.Load, ast.cmpop, ast.boolop, ast.unaryop, ast.expr_context)


def _is_pure(e: ast.AST) -> bool:
    """names, attribute chains, constants and boolean / comparison combinations of them: evaluating the expression a
    second time, later, gives the same value as long as the names in it are not rebound."""
    return all(isinstance(x, _PURE) for x in ast.walk(e))


class _Locals:
    """copy / flag propagation inside one function: a local name whose single reaching definition is a plain
    assignment of a pure expression (`methods = rule.methods`, `method_ok = rule.methods is None or method in
    rule.methods`) is replaced by that expression, provided no name in it is rebound in between."""

    def __init__(self, cfg: CFG, params: t.Iterable[str]):
        self.cfg = cfg
        self.rd = ReachingDefs(cfg, params)

    def value_of(self, name: str, node: Node, depth: int = 0) -> ast.AST | None:
        defs = self.rd.reaching(node, name)
        if len(defs) != 1 or depth > 4:
            return None
        d = next(iter(defs))
        if d.kind != "assign" or d.index is not None or d.value is None or d.node is None or d.stmt is None:
            return None
        if not _is_pure(d.value):
            return None
        for nm in astq.names_in(d.value):
            if self.rd.reaching(d.node, nm) != self.rd.reaching(node, nm):
                return None
        return self.expand(d.value, d.node, depth + 1)

    def expand(self, e: ast.AST, node: Node, depth: int = 0) -> ast.AST:
        fresh = ast.parse(ast.unparse(e), mode="eval").body
        outer = self

        class T(ast.NodeTransformer):
            def visit_Name(self, n: ast.Name) -> ast.AST:  # noqa: N802
                if isinstance(n.ctx, ast.Load):
                    v = outer.value_of(n.id, node, depth)
                    if v is not None:
                        return v
                return n

        return ast.fix_missing_locations(T().visit(fresh))


def _leaves(e: ast.AST) -> list[ast.AST]:
    if isinstance(e, ast.BoolOp):
        return [x for v in e.values for x in _leaves(v)]
    if isinstance(e, ast.UnaryOp) and isinstance(e.op, ast.Not):
        return _leaves(e.operand)
    return [e]


def _eval(e: ast.AST, truth: t.Callable[[ast.AST], bool]) -> bool:
    if isinstance(e, ast.BoolOp):
        vals = [_eval(v, truth) for v in e.values]
        return all(vals) if isinstance(e.op, ast.And) else any(vals)
    if isinstance(e, ast.UnaryOp) and isinstance(e.op, ast.Not):
        return not _eval(e.operand, truth)
    return truth(e)


# ----------------------------------------------------------------------
# slots of the matcher


def _element_predicate(pred: ast.AST) -> tuple[str, ast.AST] | None:
    """(parameter, condition over it) for a one-argument predicate: a lambda, `attrgetter("name")`."""
    if isinstance(pred, ast.Lambda) and len(pred.args.args) == 1 and not pred.args.vararg and not pred.args.kwarg:
        return pred.args.args[0].arg, pred.body
    if isinstance(pred, ast.Call) and (dotted(pred.func) or "").rsplit(".", 1)[-1] == "attrgetter" and len(pred.args) == 1 and isinstance(astq.const_str(pred.args[0]), str) and astq.const_str(pred.args[0]).isidentifier():
        return "element", ast.Attribute(value=ast.Name(id="element", ctx=ast.Load()), attr=astq.const_str(pred.args[0]), ctx=ast.Load())
    return None


def _rules_iteration(e: ast.AST, F: ast.AST | None, depth: int = 0) -> tuple[ast.AST, list[tuple[str, ast.AST, bool]]] | None:
    """when e iterates the candidate rules of a state: (the `<state>.rules` expression, the conditions an element has to
    meet to be iterated at all as (parameter, condition, required truth)).  `state.rules`, a local standing for it,
    `filter(pred, ...)` / `filterfalse(pred, ...)`, `(r for r in ... if cond)`, order-keeping wrappers."""
    if depth > 4:
        return None
    if isinstance(e, ast.Attribute) and e.attr == "rules":
        return e, []
    if isinstance(e, ast.Name) and F is not None:  # `candidates = state.rules; for rule in candidates`
        vals = [v for _, v in astq.assigns_to(F, e.id)]
        if len(vals) == 1 and vals[0] is not None:
            return _rules_iteration(vals[0], F, depth + 1)
        if vals and all(isinstance(v, ast.Attribute) and v.attr == "rules" for v in vals):
            return vals[0], []  # type: ignore[return-value]
        return None
    empty = lambda x: (isinstance(x, (ast.List, ast.Tuple)) and not x.elts) or (isinstance(x, ast.Call) and isinstance(x.func, ast.Name) and x.func.id in ("list", "tuple") and not x.args)  # noqa: E731
    if isinstance(e, ast.IfExp):  # `<state>.rules if <there is such a state> else []`: nothing is iterated on the other arm
        arms = [a for a in (e.body, e.orelse) if not empty(a)]
        its = [_rules_iteration(a, F, depth + 1) for a in arms]
        if arms and all(i is not None for i in its) and len({norm(i[0]) for i in its if i}) == 1 and all(not i[1] for i in its if i):
            return its[0]
        return None
    if isinstance(e, ast.BoolOp) and isinstance(e.op, ast.Or) and len(e.values) == 2 and empty(e.values[1]):
        return _rules_iteration(e.values[0], F, depth + 1)
    if isinstance(e, ast.Call):
        nm = (dotted(e.func) or "").rsplit(".", 1)[-1]
        if nm in ("filter", "filterfalse") and len(e.args) == 2 and not e.keywords:
            inner = _rules_iteration(e.args[1], F, depth + 1)
            if inner is None:
                return None
            pr = _element_predicate(e.args[0])
            if pr is None:
                raise AnalysisError(f"rule loop over `{norm(e)[:60]}`: cannot read the filter predicate")
            return inner[0], inner[1] + [(pr[0], pr[1], nm == "filter")]
        if nm in ("list", "tuple", "iter") and len(e.args) == 1 and not e.keywords:
            return _rules_iteration(e.args[0], F, depth + 1)
        return None
    if isinstance(e, (ast.GeneratorExp, ast.ListComp)) and len(e.generators) == 1 and isinstance(e.generators[0].target, ast.Name) and astq.is_name(e.elt, e.generators[0].target.id):
        g = e.generators[0]
        inner = _rules_iteration(g.iter, F, depth + 1)
        if inner is None:
            return None
        return inner[0], inner[1] + [(g.target.id, c, True) for c in g.ifs]  # type: ignore[union-attr]
    return None


class _Matcher:
    def __init__(self, ctx: Ctx):
        repo = ctx.repo
        self.cls = repo.cls(MATCHER)
        for nm in ("match", "update", "add"):
            if nm not in self.cls.methods:
                raise AnalysisError(f"{MATCHER}.{nm} missing")
        self.match: FuncInfo = self.cls.methods["match"]
        self.update: FuncInfo = self.cls.methods["update"]
        self.add: FuncInfo = self.cls.methods["add"]
        ctx.saw(self.match, self.update, self.add)
        # the recursive search: the function nested in match() that calls itself
        rec = []
        for n in ast.walk(self.match.node):
            if n is not self.match.node and isinstance(n, (ast.FunctionDef, ast.AsyncFunctionDef)):
                if any(isinstance(c.func, ast.Name) and c.func.id == n.name for c in astq.calls(n, nested=False)):
                    rec.append(n)
        if len(rec) != 1:
            raise AnalysisError(f"{self.match.fq}: expected one recursive search function nested in match(), found {len(rec)}")
        self.search: ast.FunctionDef = rec[0]
        self.search_cfg = CFG(self.search)
        self.match_cfg = cfg_of(self.match)
        self.request_params = [p for p in self.match.params if p != "self"]
        # the bookkeeping variables, by role: H is the set the rule loops add `<rule>.methods` to, W the flag they set;
        # when the loops no longer record anything, the names every NoMatch(...) is raised with
        nm_calls = [c for c in astq.calls(self.match.node) if _last(dotted(c.func)) == "NoMatch"]
        self.nomatch_calls = nm_calls
        # loops over candidate rules: in the search function or in any helper nested in match()
        self.rule_loops = [n for n in ast.walk(self.match.node) if isinstance(n, ast.For) and _rules_iteration(n.iter, _enclosing_func(n)) is not None]
        self.loop_weight: dict[int, int] = {id(n): 1 for n in self.rule_loops}
        # ... or over a parameter of such a helper that the call sites fill with the candidate rules of a state: the
        # loop then stands for one loop per call site, over what that site hands in (`state.rules`, a filtered
        # iteration of it ...) under the condition the call is made under
        self.loop_sites: dict[int, list[tuple[ast.Call, ast.AST]]] = {}
        for n in ast.walk(self.match.node):
            if not isinstance(n, ast.For) or any(n is x for x in self.rule_loops):
                continue
            F = _enclosing_func(n)
            if not isinstance(F, (ast.FunctionDef, ast.AsyncFunctionDef)) or F is self.match.node:
                continue
            params = [a.arg for a in [*F.args.posonlyargs, *F.args.args]]
            used = [q for q in params if q in astq.names_in(n.iter) and not astq.assigns_to(F, q)]
            if len(used) != 1:
                continue
            prm = used[0]  # the loop runs over the parameter, or over an expression of it (`filter(pred, candidates)`)
            pos = params.index(prm)
            sites = [c for c in astq.calls(self.match.node) if isinstance(c.func, ast.Name) and c.func.id == F.name]
            filled = [astq.arg_or_kw(c, pos, prm) for c in sites]
            over = [(a if isinstance(n.iter, ast.Name) else subst(n.iter, {prm: a})) if a is not None else None for a in filled]
            its = [_rules_iteration(a, _enclosing_func(c)) if a is not None else None for c, a in zip(sites, over)]
            if sites and all(i is not None for i in its):
                self.rule_loops.append(n)
                self.loop_weight[id(n)] = len(sites)
                self.loop_sites[id(n)] = [(c, a) for c, a in zip(sites, over) if a is not None]
            elif any(i is not None for i in its):
                raise AnalysisError(f"{self.match.fq}: {F.name}() is handed the candidate rules of a state by some of its call sites only; cannot tell what it iterates at the others")
        # H: the set that receives `<rule>.methods` somewhere in match() (in a loop, or in a helper the loops call);
        # W: the flag that is handed to NoMatch next to it
        hs: list[str] = []
        for x in ast.walk(self.match.node):
            takes_methods = lambda args: any(isinstance(a, ast.Attribute) and a.attr == "methods" for arg in args for a in ast.walk(arg))  # noqa: E731
            if isinstance(x, ast.Call) and isinstance(x.func, ast.Attribute) and isinstance(x.func.value, ast.Name) and x.func.attr in ("update", "add") and takes_methods(x.args):
                hs.append(x.func.value.id)
            elif isinstance(x, ast.AugAssign) and isinstance(x.target, ast.Name) and takes_methods([x.value]):
                hs.append(x.target.id)
        if not hs:
            hs = [c.args[0].id for c in nm_calls if c.args and isinstance(c.args[0], ast.Name)]
        ws = [a.id for a in (astq.arg_or_kw(c, 1, "websocket_mismatch") for c in nm_calls) if isinstance(a, ast.Name)]
        if not ws:
            for lp in self.rule_loops:
                for x in ast.walk(lp):
                    if isinstance(x, ast.Assign) and len(x.targets) == 1 and isinstance(x.targets[0], ast.Name) and isinstance(x.value, ast.Constant) and x.value.value is True:
                        ws.append(x.targets[0].id)
        if len(set(hs)) > 1:
            raise AnalysisError(f"{self.match.fq}: the rule loops record methods into several sets: {sorted(set(hs))}")
        self.H: str | None = hs[0] if hs else None
        self.W: str | None = max(set(ws), key=ws.count) if ws else None


# ----------------------------------------------------------------------
# R3.1


def _sub_of_attr(e: ast.AST, attr: str) -> ast.AST | None:
    """the key expression of `<x>.<attr>[key]` / `<x>.<attr>.get(key)`."""
    if isinstance(e, ast.Subscript) and isinstance(e.value, ast.Attribute) and e.value.attr == attr:
        return e.slice
    if isinstance(e, ast.Call) and isinstance(e.func, ast.Attribute) and e.func.attr == "get" and isinstance(e.func.value, ast.Attribute) and e.func.value.attr == attr and e.args:
        return e.args[0]
    return None


def _values_of(fn: ast.AST, e: ast.AST) -> list[ast.AST]:
    """the expression itself, or - for a local name - the values it is assigned in fn."""
    if isinstance(e, ast.Name):
        vals = [v for _, v in astq.assigns_to(fn, e.id) if v is not None]
        if vals:
            return vals
    return [e]


def _values_at(al: "guards.Aliases", e: ast.AST, at: Node | None, depth: int = 0) -> list[ast.AST]:
    """the expression itself, or - for a local name - the values that the bindings of it which REACH the CFG node `at`
    give it (aliases written out; both arms of a conditional expression).  Flow-sensitive on purpose: a name that holds
    the static successor before the loop and is bound again by the loop over .dynamic stands for the dynamic successor
    inside that loop, whatever else it was called on to hold earlier in the same activation."""
    if not isinstance(e, ast.Name) or at is None or depth > 4:
        return [e]
    out: list[ast.AST] = []
    for d in al.rd.reaching(at, e.id):
        if d.kind not in ("assign", "walrus") or d.index is not None or d.value is None:
            continue  # loop target, unpacking, parameter, augmented: not a value this function can name
        arms: list[ast.AST] = [d.value]
        while any(isinstance(a, ast.IfExp) for a in arms):
            arms = [b for a in arms for b in ((a.body, a.orelse) if isinstance(a, ast.IfExp) else (a,))]
        for a in arms:
            a = al.expand(a, d.node) if d.node is not None else a
            out += _values_at(al, a, d.node, depth + 1) if isinstance(a, ast.Name) else [a]
    return out or [e]


def _bound_name(call: ast.Call) -> tuple[str | None, ast.AST | None]:
    """(the local the call's result is bound to - directly, or as an arm of a conditional expression -, the construct
    that consumes the result when it is not a binding)."""
    cur: ast.AST = call
    p = astq.parent(cur)
    while isinstance(p, ast.IfExp) and cur is not p.test or (isinstance(p, ast.Call) and (dotted(p.func) or "").endswith("cast") and len(p.args) == 2 and p.args[1] is cur):
        cur, p = p, astq.parent(p)  # type: ignore[assignment]
    if isinstance(p, ast.Assign) and len(p.targets) == 1 and isinstance(p.targets[0], ast.Name):
        return p.targets[0].id, p
    if isinstance(p, ast.AnnAssign) and isinstance(p.target, ast.Name):
        return p.target.id, p
    if isinstance(p, ast.NamedExpr):
        return p.target.id, p
    return None, p


_ORDER_KEEPING = ("enumerate", "iter", "list", "tuple")
_ORDER_CHANGING = ("reversed", "sorted", "set", "frozenset")


def _dynamic_iteration(e: ast.AST) -> tuple[bool, bool | None]:
    """(the expression iterates some `<state>.dynamic`, in list order: True / False / None = cannot tell)."""
    if isinstance(e, ast.Attribute) and e.attr == "dynamic":
        return True, True
    if isinstance(e, ast.Call) and isinstance(e.func, ast.Name) and e.args:
        inner, order = _dynamic_iteration(e.args[0])
        if inner:
            if e.func.id in _ORDER_KEEPING:
                return True, order
            if e.func.id in _ORDER_CHANGING:
                return True, False
            return True, None
    if isinstance(e, ast.Subscript) and isinstance(e.slice, ast.Slice):
        inner, order = _dynamic_iteration(e.value)
        if inner:
            st = e.slice.step
            if st is None or (isinstance(st, ast.Constant) and st.value == 1):
                return True, order if e.slice.lower is None and e.slice.upper is None else None
            return True, False
    return False, None


def _r31_order_generator(ctx: Ctx, m: _Matcher, first: str) -> bool:
    """the same ordering when the candidate transitions come out of a generator nested in the search (`yield
    <static successor>` before the loop over .dynamic that yields) and one loop resumes the search for each of them in
    the order produced.  True when that shape was found and judged."""
    fn, cfg, fi = m.search, m.search_cfg, m.match
    for G in [g for g in walk_no_nested(fn) if isinstance(g, ast.FunctionDef) and any(isinstance(y, ast.Yield) for y in walk_no_nested(g))]:
        consumers = [lp for lp in walk_no_nested(fn) if isinstance(lp, ast.For) and isinstance(lp.iter, ast.Call) and astq.is_name(lp.iter.func, G.name)]
        if len(consumers) != 1:
            continue
        lp = consumers[0]
        rec = [c for c in astq.calls(lp, nested=False) if astq.is_name(c.func, fn.name)]
        a0 = astq.arg_or_kw(rec[0], 0, first) if rec else None
        if not isinstance(a0, ast.Name):
            continue
        if isinstance(lp.target, ast.Tuple) and any(astq.is_name(e, a0.id) for e in lp.target.elts):
            pos: int | None = next(i for i, e in enumerate(lp.target.elts) if astq.is_name(e, a0.id))
            width = len(lp.target.elts)
        elif astq.is_name(lp.target, a0.id):
            pos, width = None, 0
        else:
            continue

        def state_of(y: ast.Yield) -> ast.AST | None:
            v = y.value
            if pos is None:
                return v
            return v.elts[pos] if isinstance(v, ast.Tuple) and len(v.elts) == width else None

        gcfg = CFG(G)
        gal = guards.Aliases(gcfg, ReachingDefs(gcfg, [a.arg for a in G.args.args]))
        yields = [y for y in walk_no_nested(G) if isinstance(y, ast.Yield) and y.value is not None]
        static_y = []
        for y in yields:
            st = state_of(y)
            for v in (_values_at(gal, st, gcfg.node_of(y)) if st is not None else []):
                k = _sub_of_attr(v, "static")
                if k is not None and not (isinstance(k, ast.Constant) and k.value == ""):
                    static_y.append(y)
                    break
        dyn: list[tuple[ast.For, ast.AST, bool | None]] = []
        for l in walk_no_nested(G):
            if isinstance(l, ast.For) and any(_inside(y, l) for y in yields):
                hn = gcfg.by_ast.get(id(l), [None])[0]
                it = gal.expand(l.iter, hn) if hn is not None else l.iter
                is_dyn, order = _dynamic_iteration(it)
                if is_dyn:
                    dyn.append((l, it, order))
        if not static_y or not dyn:
            continue
        n = 0
        for y in static_y:
            S = gcfg.node_of(y)
            for dl, it, order in dyn:
                D = gcfg.by_ast.get(id(dl), [None])[0]
                if S is None or D is None:
                    raise AnalysisError(f"{fi.fq}.{fn.name}.{G.name}: no CFG node for the static / dynamic candidate")
                n += 1
                fwd, back = D.id in gcfg.reach(S), S.id in gcfg.reach(D)
                ctx.ob("R3.1", "static transition is tried before the dynamic transitions", fwd and not back,
                       f"generator {G.name}: `{norm(y)[:60]}` {'precedes' if fwd else 'does NOT precede'} `for ... in {norm(it)[:40]}`; the loop {'can flow back to it (dynamic first)' if back else 'never flows back to it'}; `for ... in {G.name}()` resumes the search in the order produced",
                       fi, y, "static attempt precedes dynamic loop")
        # the consumer stops at the first candidate that leads to a rule
        C = cfg.node_of(rec[0])
        H = cfg.by_ast.get(id(lp), [None])[0]
        v, consumer = _bound_name(rec[0])
        if C is None or H is None:
            raise AnalysisError(f"{fi.fq}.{fn.name}: no CFG node for the loop over {G.name}()")
        if v is None:
            raise AnalysisError(f"{fi.fq}.{fn.name}: the result of `{norm(rec[0])[:60]}` is not bound to a name; cannot follow it to the test that returns it")
        tests_v = [tn for tn in cfg.tests() if tn.kind == "test" and v in astq.names_in(tn.ast)]
        rets = [rn for rn in cfg.nodes if rn.kind == "stmt" and isinstance(rn.ast, ast.Return) and astq.is_name(rn.ast.value, v)]
        r_before = [rn for rn in rets if rn.id in cfg.reach(C, avoid_nodes=[H])]
        tested = any(tn is C for tn in tests_v) or H.id not in cfg.reach(C, avoid_nodes=tests_v)
        ctx.ob("R3.1", "a successful static attempt is returned before any dynamic transition is tried", bool(r_before) and tested,
               f"`return {v}` reachable from `{norm(rec[0])[:50]}` before the next candidate is taken: {bool(r_before)}; every path to the next candidate tests `{v}`: {tested}",
               fi, rec[0], "static result returned first")
        ctx.floor("R3.1", "static-before-dynamic orderings", n, 1)
        for dl, it, order in dyn:
            if order is None:
                raise AnalysisError(f"{fi.fq}.{fn.name}: cannot tell in which order `for ... in {norm(it)[:60]}` visits the dynamic transitions")
            ctx.ob("R3.1", "the dynamic transitions are tried in the (sorted) order of State.dynamic", order,
                   f"`for ... in {norm(it)[:70]}` " + ("iterates the list front to back" if order else "does not keep the list order: lighter parts are no longer tried first"),
                   fi, dl, "dynamic transitions tried in list order")
        wrapped = lp.iter  # the candidates must be consumed in the order produced
        if not (isinstance(wrapped, ast.Call) and astq.is_name(wrapped.func, G.name)):
            raise AnalysisError(f"{fi.fq}.{fn.name}: candidates of {G.name}() are not iterated directly")
        return True
    return False


def _r31_order(ctx: Ctx, m: _Matcher) -> None:
    fn, cfg, fi = m.search, m.search_cfg, m.match
    rec_calls = [c for c in astq.calls(fn, nested=False) if isinstance(c.func, ast.Name) and c.func.id == fn.name]
    al = guards.Aliases(cfg, ReachingDefs(cfg, [a.arg for a in [*fn.args.posonlyargs, *fn.args.args, *fn.args.kwonlyargs]]))
    dyn_loops: list[ast.For] = []
    dyn_iter: dict[int, tuple[ast.AST, bool | None]] = {}
    for n in walk_no_nested(fn):
        if not isinstance(n, ast.For):
            continue
        hn = cfg.by_ast.get(id(n), [None])[0]
        it = al.expand(n.iter, hn) if hn is not None else n.iter  # `transitions = state.dynamic; for ... in transitions`
        is_dyn, order = _dynamic_iteration(it)
        if is_dyn:
            dyn_loops.append(n)
            dyn_iter[id(n)] = (it, order)
    static_calls = []
    first = ([a.arg for a in [*fn.args.posonlyargs, *fn.args.args]] or [""])[0]
    for c in rec_calls:
        a0 = astq.arg_or_kw(c, 0, first)  # the state the search continues in, given by position or by keyword
        if a0 is None:
            continue
        for v in _values_at(al, a0, cfg.node_of(c)):  # what the name holds AT this call, not anywhere in the function
            s = _sub_of_attr(v, "static")
            if s is not None and not (isinstance(s, ast.Constant) and s.value == ""):
                static_calls.append(c)
                break
    # the search is resumed for a dynamic transition: directly, or by a closure of match() that runs the search
    resuming = {n.name for n in ast.walk(fi.node) if isinstance(n, (ast.FunctionDef, ast.AsyncFunctionDef)) and n is not fn
                and any(isinstance(k.func, ast.Name) and k.func.id == fn.name for k in astq.calls(n, nested=False))}
    dyn_calls = [c for c in astq.calls(fn, nested=False) if isinstance(c.func, ast.Name) and (c.func.id == fn.name or c.func.id in resuming) and any(_inside(c, l) for l in dyn_loops)]
    if (not static_calls or not dyn_loops or not dyn_calls) and _r31_order_generator(ctx, m, first):
        return
    if not static_calls or not dyn_loops or not dyn_calls:
        raise AnalysisError(
            f"{fi.fq}.{fn.name}: cannot find the static attempt ({len(static_calls)}), the loop over .dynamic ({len(dyn_loops)}) "
            f"and the recursive call inside it ({len(dyn_calls)})"
        )
    n = 0
    for sc in static_calls:
        S = cfg.node_of(sc)
        for dl in dyn_loops:
            D = cfg.by_ast.get(id(dl), [None])[0]
            if S is None or D is None:
                raise AnalysisError(f"{fi.fq}.{fn.name}: no CFG node for the static / dynamic attempt")
            n += 1
            fwd = D.id in cfg.reach(S)
            back = S.id in cfg.reach(D)
            ctx.ob(
                "R3.1", "static transition is tried before the dynamic transitions", fwd and not back,
                f"`{norm(sc)}` {'reaches' if fwd else 'does NOT reach'} `for ... in {norm(dl.iter)}`; the loop {'can flow back into the static attempt (dynamic first)' if back else 'never flows back into it'}",
                fi, sc, "static attempt precedes dynamic loop",
            )
            v, consumer = _bound_name(sc)
            if v is None:
                if isinstance(consumer, ast.Return):
                    ctx.ob("R3.1", "a successful static attempt is returned before any dynamic transition is tried", False,
                           f"the result of `{norm(sc)}` is returned whatever it is: after a failed static attempt the dynamic transitions are never tried", fi, sc, "static result returned first")
                    continue
                raise AnalysisError(f"{fi.fq}.{fn.name}: the result of the static attempt `{norm(sc)[:60]}` is consumed by `{norm(consumer)[:60] if consumer is not None else '?'}`; cannot follow it to the test that returns it")
            tests_v = [tn for tn in cfg.tests() if tn.kind == "test" and v in astq.names_in(tn.ast)]
            rets = [rn for rn in cfg.nodes if rn.kind == "stmt" and isinstance(rn.ast, ast.Return) and astq.is_name(rn.ast.value, v)]
            r_before = [rn for rn in rets if rn.id in cfg.reach(S, avoid_nodes=[D])]
            if not r_before:
                wrapped = [rn for rn in cfg.nodes if rn.kind == "stmt" and isinstance(rn.ast, ast.Return) and rn.ast.value is not None and v in astq.names_in(rn.ast.value) and rn.id in cfg.reach(S, avoid_nodes=[D])]
                if wrapped:  # `return <something built from v>`: not the plain hand-back the rule reads
                    raise AnalysisError(f"{fi.fq}.{fn.name}: the result of the static attempt leaves through `{norm(wrapped[0].ast)[:60]}`; cannot tell whether that hands it back unchanged")
            tested = any(tn is S for tn in tests_v) or D.id not in cfg.reach(S, avoid_nodes=tests_v)
            ctx.ob(
                "R3.1", "a successful static attempt is returned before any dynamic transition is tried", bool(r_before) and tested,
                f"`return {v}` reachable from the static attempt without entering the dynamic loop: {bool(r_before)}; every path from it to the loop tests `{v}`: {tested}",
                fi, sc, "static result returned first",
            )
    ctx.floor("R3.1", "static-before-dynamic orderings", n, 1)
    for dl in dyn_loops:
        it, order = dyn_iter[id(dl)]
        if order is None:
            raise AnalysisError(f"{fi.fq}.{fn.name}: cannot tell in which order `for ... in {norm(it)[:60]}` visits the dynamic transitions")
        ctx.ob("R3.1", "the dynamic transitions are tried in the (sorted) order of State.dynamic", order,
               f"`for ... in {norm(it)[:70]}` " + ("iterates the list front to back" if order else "does not keep the list order: lighter parts are no longer tried first"),
               fi, dl, "dynamic transitions tried in list order")


def _part_index_in_dynamic(ctx: Ctx, m: _Matcher) -> tuple[int, int]:
    """(index of the RulePart, length) in the tuples appended to State.dynamic by add() - in add() itself or in a private
    method it calls with the part."""
    fn = m.add.node
    hr = HelperResolver(ctx.repo, m.add)

    def iterates_parts(scope: ast.AST, e: ast.AST) -> bool:
        """e is a local bound by `for e in <rule>._parts`."""
        return isinstance(e, ast.Name) and any(isinstance(st, ast.For) and isinstance(st.iter, ast.Attribute) and st.iter.attr == "_parts" for st, _ in astq.assigns_to(scope, e.id))

    def search(scope: ast.AST, is_part: t.Callable[[ast.AST], bool]) -> tuple[int, int] | None:
        for c in astq.method_calls(scope, "append"):
            recv = c.func.value  # type: ignore[attr-defined]
            if not (c.args and any(isinstance(rv, ast.Attribute) and rv.attr == "dynamic" for rv in _values_of(scope, recv))):
                continue
            for tup in _values_of(scope, c.args[0]):  # the pair, written in place or built into a local first
                if isinstance(tup, ast.Tuple):
                    for i, e in enumerate(tup.elts):
                        if is_part(e):
                            return i, len(tup.elts)
        return None

    found = search(fn, lambda e: iterates_parts(fn, e))
    if found is not None:
        return found
    for k in astq.calls(fn, nested=False):
        r = hr.resolve(k)
        if r is None:
            continue
        bound = bind_call(r[0], k, r[1])
        if bound is None:
            continue
        part_params = {prm for prm, arg in bound.items() if iterates_parts(fn, arg)}
        if part_params and not any(astq.assigns_to(r[0], prm) for prm in part_params):
            found = search(r[0], lambda e: isinstance(e, ast.Name) and e.id in part_params)
            if found is not None:
                return found
    raise AnalysisError(f"{m.add.fq}: no `<state>.dynamic.append((part, state))` with part iterating over rule._parts")


def _key_function(fi: FuncInfo, key: ast.AST | None, repo: t.Any) -> tuple[str, ast.AST] | None:
    """(parameter, the value it returns as an expression over that parameter) of a sort key given as a lambda or as the
    name of a private function whose every path returns the same expression (locals and tuple unpacking resolved)."""
    if isinstance(key, ast.Lambda) and len(key.args.args) == 1:
        return key.args.args[0].arg, key.body
    if isinstance(key, ast.Name):
        fn: ast.AST | None = next((n for n in ast.walk(fi.node) if isinstance(n, ast.FunctionDef) and n.name == key.id), None)
        if fn is None:
            fq = repo.resolve(fi.module, key.id, fi.module.local_imports(fi.node))
            h = repo.try_func(fq) if fq and fq.startswith("werkzeug") else None
            fn = h.node if h is not None else None
        if fn is None:
            for st, v in astq.assigns_to(fi.node, key.id):
                if isinstance(v, ast.Lambda):
                    return _key_function(fi, v, repo)
            return None
        params = [a.arg for a in fn.args.args]  # type: ignore[attr-defined]
        if len(params) != 1:
            return None
        kcfg = CFG(fn)
        exits = [x for x in Walker(kcfg, lambda leaf: None).run(kcfg.entry, {})]
        vals = {norm(x.value) for x in exits if x.kind == "return" and x.value is not None}
        if len(vals) == 1 and all(x.kind == "return" for x in exits):
            return params[0], next(x.value for x in exits if x.kind == "return")
    return None


def _state_generator(ctx: Ctx, fi: FuncInfo, F: ast.AST, p: str) -> tuple[ast.AST, str, int, ast.Call] | None:
    """when `p` is bound by `for p in G(...)` and G is a private generator that yields its state parameter:
    (G, that parameter, its position among the call's arguments, the call)."""
    loops = [st for st in walk_no_nested(F) if isinstance(st, ast.For) and astq.is_name(st.target, p)]
    if len(loops) != 1 or not isinstance(loops[0].iter, ast.Call) or astq.assigns_to(F, p) != [(loops[0], None)]:
        return None
    call = loops[0].iter
    r = HelperResolver(ctx.repo, fi).resolve(call)
    if r is None:
        return None
    G, skip = r
    params = [a.arg for a in G.args.args][1 if skip else 0:]  # type: ignore[attr-defined]
    for i, q in enumerate(params):
        if any(isinstance(y, ast.Yield) and astq.is_name(y.value, q) for y in walk_no_nested(G)) and not astq.assigns_to(G, q):
            return G, q, i, call
    return None


def _descent_gaps(fi: FuncInfo, hr: HelperResolver, feeds: list[tuple[ast.AST, ast.AST, StateFlow, set[str]]], start_at: ast.AST | None) -> list[str]:
    """conditions under which the traversal skips a successor although there is something below it.  Two questions per
    kind of successor (static / dynamic), each decided by walking every path under the valuations that matter:
    (1) inside the loop over the successors, is every successor whose .static or .dynamic is non-empty handed on?
    (2) is that loop (or the statement that hands all of them on at once) reached on every path of a traversal step on
    which the state has successors of that kind?  A guard that only skips states without any transitions is harmless."""
    gaps: list[str] = []
    for kind, attr in (("S", "static"), ("D", "dynamic")):
        for scope in {id(f[1]): f[1] for f in feeds if kind in f[3]}.values():
            cfg = cfg_of(fi) if scope is fi.node else hr.cfg(scope)
            feeders: list[Node] = []
            through: dict[int, list[Node]] = {}  # feeder -> the statements that put successors of this kind into the local it hands on
            x = ""

            def providers(flow: StateFlow, e: ast.AST | None) -> list[Node] | None:
                """when the successors reach the feed through a local container: the statements (for one inside a loop,
                the head of that loop) that put successors of this kind into it."""
                if e is None:
                    return None
                out: list[Node] = []
                via_local = False
                for nm in astq.names_in(e):
                    for st, kinds in flow.contrib.get(nm, []):
                        via_local = True
                        if kind not in kinds:
                            continue
                        at: ast.AST = st
                        cur = astq.parent(st)
                        while cur is not None and cur is not scope:
                            if isinstance(cur, (ast.For, ast.AsyncFor)):
                                at = cur
                            cur = astq.parent(cur)
                        pn = cfg.by_ast.get(id(at), [None])[0] if isinstance(at, (ast.For, ast.AsyncFor)) else cfg.node_of(at)
                        if pn is None:
                            raise AnalysisError(f"{fi.fq}: no CFG node for `{norm(st)[:50]}`")
                        out.append(pn)
                return out if via_local else None
            for site, sc, flow, tags in feeds:
                if sc is not scope or kind not in tags:
                    continue
                x = flow.x
                node = cfg.node_of(site)
                if node is None:
                    raise AnalysisError(f"{fi.fq}: no CFG node for `{norm(site)[:50]}`")
                L = astq.enclosing(site, (ast.For,))
                succ_names: list[str] = []
                if L is not None and _inside(L, scope):
                    env: dict[str, t.Any] = {}
                    flow.bind(env, L.target, flow.elems(flow.ev(L.iter, flow.env_at(L, scope))))
                    succ_names = [nm for nm, v in env.items() if flat(v) & {"S", "D"}]
                if not succ_names:
                    feeders.append(node)
                    pv = providers(flow, site if not isinstance(site, ast.Call) else ast.Tuple(elts=[*site.args, *[k.value for k in site.keywords]], ctx=ast.Load()))
                    if pv is not None:
                        through[node.id] = pv
                    continue
                head = cfg.by_ast.get(id(L), [None])[0]
                body = cfg.succ(head, "T") if head is not None else []
                if head is None or len(body) != 1:
                    raise AnalysisError(f"{fi.fq}: no CFG node for the loop over the successors")
                feeders.append(head)
                pv = providers(flow, L.iter)
                if pv is not None:
                    through[head.id] = pv
                # (1) per successor
                for dyn, stat in ((True, False), (False, True), (True, True)):
                    def decide(leaf: ast.AST, dyn: bool = dyn, stat: bool = stat) -> bool | None:
                        for nm in succ_names:
                            for a, v in (("dynamic", dyn), ("static", stat)):
                                pol = truthy_polarity(leaf, f"{nm}.{a}")
                                if pol is not None:
                                    return pol == v
                        return None

                    for ex in Walker(cfg, decide).run(body[0], {}):
                        upto = ex.passed[: next((i for i, q in enumerate(ex.passed) if q is head), len(ex.passed))]
                        if ex.kind == "loop" and head not in ex.passed and ex.node is not head:
                            continue  # cut inside a nested loop: a prefix of paths that are walked anyway
                        if node not in upto:
                            gaps.append(f"a successor with {'non-empty' if dyn else 'empty'} .dynamic and {'non-empty' if stat else 'empty'} .static is not descended into: " + cfg.fmt_path(upto)[:300])
                            break
                    if gaps:
                        break
            if not feeders:
                continue
            # (2) per traversal step
            start = cfg.node_of(start_at) if start_at is not None and _inside(start_at, scope) else cfg.entry
            loop = astq.enclosing(start_at, (ast.While, ast.For)) if start_at is not None and _inside(start_at, scope) else None
            stop = cfg.by_ast.get(id(loop), [None])[0] if loop is not None else None
            if start is None:
                raise AnalysisError(f"{fi.fq}: no CFG node for the start of a traversal step")

            def has(leaf: ast.AST) -> bool | None:
                pol = truthy_polarity(leaf, f"{x}.{attr}")
                return None if pol is None else pol

            for ex in Walker(cfg, has).run(start, {}):
                cut = next((i for i, q in enumerate(ex.passed) if q is stop and i > 0), len(ex.passed))
                upto = ex.passed[:cut]
                if ex.kind == "loop" and cut == len(ex.passed) and ex.node is not stop:
                    continue
                if not any(q in upto and (q.id not in through or any(pn in upto[: upto.index(q)] for pn in through[q.id])) for q in feeders):
                    gaps.append(f"with {x}.{attr} non-empty a traversal step can end without handing the {attr} successors on: " + cfg.fmt_path(upto)[:300])
                    break
    return gaps


def _r31_sort(ctx: Ctx, m: _Matcher) -> None:
    fi = m.update
    idx, width = _part_index_in_dynamic(ctx, m)
    sorts: list[tuple[ast.Call, ast.AST]] = []  # (call, receiver expr `X.dynamic`)
    hr = HelperResolver(ctx.repo, fi)
    # update() itself and the private functions / methods it hands the work to
    scopes: list[ast.AST] = [fi.node]
    for k in astq.calls(fi.node):
        r = hr.resolve(k)
        if r is not None and r[0] is not fi.node and not _inside(r[0], fi.node) and all(r[0] is not x for x in scopes):
            scopes.append(r[0])

    def runs(k: ast.Call, F: ast.AST) -> bool:
        """k is a call of F: by its plain name, through self / cls / the class."""
        if isinstance(k.func, ast.Name) and k.func.id == getattr(F, "name", None):
            return True
        r = hr.resolve(k)
        return r is not None and r[0] is F

    for c in [c for sc in scopes for c in astq.calls(sc)]:
        if isinstance(c.func, ast.Attribute) and c.func.attr == "sort":
            # `<state>.dynamic.sort(...)`, the list possibly held in a local (`transitions = state.dynamic`)
            for rv in _values_of(_enclosing_func(c) or fi.node, c.func.value):
                if isinstance(rv, ast.Attribute) and rv.attr == "dynamic":
                    sorts.append((c, rv))
                    break
        elif isinstance(c.func, ast.Name) and c.func.id == "sorted" and c.args and isinstance(c.args[0], ast.Attribute) and c.args[0].attr == "dynamic":
            p = astq.parent(c)
            if isinstance(p, ast.Assign) and len(p.targets) == 1:
                tg = p.targets[0]
                if isinstance(tg, ast.Subscript) and isinstance(tg.slice, ast.Slice) and tg.slice.lower is None and tg.slice.upper is None and tg.slice.step is None:
                    tg = tg.value  # `X.dynamic[:] = sorted(X.dynamic, ...)`
                if norm(tg) == norm(c.args[0]):
                    sorts.append((c, c.args[0]))
    ctx.floor("R3.1", "sorts of State.dynamic in update()", len(sorts), 1)
    ucfg = cfg_of(fi)
    ual = guards.Aliases(ucfg, ReachingDefs(ucfg, fi.params))

    def is_root(e: ast.AST) -> bool:
        if norm(e) == "self._root":
            return True
        if isinstance(e, ast.Name) and _enclosing_func(e) is fi.node:
            n = ucfg.node_of(e)
            return n is not None and norm(ual.expand(e, n)) == "self._root"
        return False

    for c, recv in sorts:
        key = astq.kwarg(c, "key")
        rev = astq.kwarg(c, "reverse")
        asc = rev is None or (isinstance(rev, ast.Constant) and rev.value is False)
        shape = False
        kf = _key_function(fi, key, ctx.repo)
        if kf is None and key is not None:
            raise AnalysisError(f"{fi.fq}: cannot read the sort key `{norm(key)[:60]}` (expected a lambda or a private one-expression function)")
        if kf is not None:
            p, b = kf
            shape = (
                isinstance(b, ast.Attribute) and b.attr == "weight" and isinstance(b.value, ast.Subscript)
                and astq.is_name(b.value.value, p) and isinstance(b.value.slice, ast.Constant) and b.value.slice.value in (idx, idx - width)
            )
        if rev is not None and not isinstance(rev, ast.Constant):
            raise AnalysisError(f"{fi.fq}: cannot tell the direction of `{norm(c)[:70]}` (reverse is not a constant)")
        if kf is not None and not shape and not all(isinstance(x, (ast.Name, ast.Attribute, ast.Subscript, ast.Constant, ast.UnaryOp, ast.USub, ast.expr_context)) for x in ast.walk(kf[1])):
            # an element / attribute of the entry other than the part's weight is a different order; anything richer is not read
            raise AnalysisError(f"{fi.fq}: cannot read what the sort key `{norm(kf[1])[:60]}` orders by")
        ctx.ob(
            "R3.1", "dynamic transitions are sorted ascending by the weight of their rule part", asc and shape,
            f"`{norm(c)}`: key is element {idx} (the RulePart appended by add()) `.weight`: {shape}" + (f" (key function returns `{norm(kf[1])}`)" if kf is not None and not isinstance(key, ast.Lambda) else "") + f"; ascending (no reverse): {asc}",
            fi, c, "dynamic sorted ascending by part weight",
        )
        # every state is visited: the states the traversal feeds itself with include the static and the dynamic
        # successors of the state being sorted, and it starts at the root - recursive helper or work list alike
        F = _enclosing_func(c)
        if F is None or not isinstance(F, (ast.FunctionDef, ast.AsyncFunctionDef)) or not isinstance(recv.value, ast.Name):
            raise AnalysisError(f"{fi.fq}: the sorted list is not `<local>.dynamic` inside a function (traversal shape not recognised)")
        p = recv.value.id
        flow = StateFlow(p, idx, width, is_root, F)
        fed: set[str] = set()
        seeds: set[str] = set()
        feeds: list[tuple[ast.AST, ast.AST, StateFlow, set[str]]] = []  # (site, function it is in, flow of that function, successor kinds fed)
        start_at: ast.AST | None = None  # work list: the statement that takes the next state; the traversal step starts there
        how = ""
        unknown_start = False  # the traversal is started with a value that may or may not be the root (a name / attribute the analysis cannot place)

        def seed(a0: ast.AST) -> set[str]:
            nonlocal unknown_start
            tags = flat(flow.ev(a0, {}))
            if "?" in tags and not isinstance(a0, (ast.Call, ast.Constant)):  # a new object / a constant is known not to be the root
                unknown_start = True
            return tags
        params = [a.arg for a in F.args.args]
        if F is not fi.node and p in params:
            pos = params.index(p) - (1 if params and params[0] in ("self", "cls") and p != params[0] else 0)
            how = f"{F.name} calls itself"
            for k in astq.calls(F, nested=False):
                tags: set[str] | None = None
                if runs(k, F):
                    a0 = astq.arg_or_kw(k, pos, p)
                    if a0 is not None:
                        tags = flat(flow.ev(a0, flow.env_at(k, F)))
                elif isinstance(k.func, ast.Name) and k.func.id == "map" and len(k.args) == 2 and astq.is_name(k.args[0], F.name):
                    tags = flat(flow.elems(flow.ev(k.args[1], flow.env_at(k, F))))
                if tags is not None:
                    fed |= tags
                    feeds.append((k, F, flow, tags))
            for k in astq.calls(fi.node, nested=False):
                if runs(k, F):
                    a0 = astq.arg_or_kw(k, pos, p)
                    if a0 is not None:
                        seeds |= seed(a0)
        elif (gen := _state_generator(ctx, fi, F, p)) is not None:
            # `for <p> in <generator>(root)`: the generator yields its state and calls itself for the successors
            G, q, gpos, site_call = gen
            how = f"generator {G.name} yields the states"  # type: ignore[attr-defined]
            gflow = StateFlow(q, idx, width, is_root, G)
            for k in astq.calls(G, nested=False):
                if (isinstance(k.func, ast.Name) and k.func.id == G.name) or (isinstance(k.func, ast.Attribute) and astq.is_name(k.func.value, "self") and k.func.attr == G.name):  # type: ignore[attr-defined]
                    a0 = astq.arg_or_kw(k, gpos, q)
                    if a0 is not None:
                        tags = flat(gflow.ev(a0, gflow.env_at(k, G)))
                        fed |= tags
                        feeds.append((k, G, gflow, tags))
            a0 = astq.arg_or_kw(site_call, gpos, q)
            if a0 is not None:
                seeds |= seed(a0)
        else:
            # work list: the state comes out of a container that the loop refills
            srcs = [v for _, v in astq.assigns_to(F, p) if v is not None]
            pops = [v for v in srcs if isinstance(v, ast.Call) and isinstance(v.func, ast.Attribute) and v.func.attr in ("pop", "popleft") and isinstance(v.func.value, ast.Name)]
            if not srcs or len(pops) != len(srcs) or len({v.func.value.id for v in pops}) != 1:  # type: ignore[attr-defined]
                raise AnalysisError(f"{fi.fq}: `{p}` is neither the parameter of a per-state helper nor taken from a work list (traversal shape not recognised)")
            wl = pops[0].func.value.id  # type: ignore[attr-defined]
            how = f"work list `{wl}`"
            start_at = pops[0]
            for st, v in astq.assigns_to(F, wl):
                if v is None:
                    continue
                if astq.enclosing(st, (ast.While, ast.For)) is None:
                    seeds |= flat(flow.elems(flow.ev(v, {})))
                    unknown_start = unknown_start or "?" in seeds
                else:
                    tags = flat(flow.elems(flow.ev(v, flow.env_at(st, F))))
                    fed |= tags
                    feeds.append((st, F, flow, tags))
            for k in astq.calls(F, nested=False):
                if isinstance(k.func, ast.Attribute) and astq.is_name(k.func.value, wl) and k.args:
                    tags = None
                    if k.func.attr in ("append", "appendleft"):
                        tags = flat(flow.ev(k.args[0], flow.env_at(k, F)))
                    elif k.func.attr in ("extend", "extendleft"):
                        tags = flat(flow.elems(flow.ev(k.args[0], flow.env_at(k, F))))
                    if tags is not None:
                        if astq.enclosing(k, (ast.While, ast.For)) is None:
                            seeds |= tags
                            unknown_start = unknown_start or "?" in seeds
                        else:
                            fed |= tags
                            feeds.append((k, F, flow, tags))
            for x in walk_no_nested(F):
                if isinstance(x, ast.AugAssign) and astq.is_name(x.target, wl) and isinstance(x.op, ast.Add):
                    tags = flat(flow.elems(flow.ev(x.value, flow.env_at(x, F))))
                    fed |= tags
                    feeds.append((x, F, flow, tags))
        if "?" in seeds and not unknown_start:
            seeds = (seeds - {"?"}) | {"something else"}
        into_static, into_dynamic, from_root = "S" in fed, "D" in fed, "root" in seeds
        if (not (into_static and into_dynamic) and "?" in fed) or (not from_root and "?" in seeds):
            # something the traversal feeds itself with (starts from) is not understood: it may well be the missing kind
            raise AnalysisError(f"{fi.fq}: {how}: cannot tell which states some of the values handed on stand for (static successors seen: {into_static}, dynamic: {into_dynamic}, root: {from_root})")
        ctx.ob(
            "R3.1", "the sort visits every state of the machine", into_static and into_dynamic and from_root,
            f"{how}: fed with the values of {p}.static: {into_static}, with the targets of {p}.dynamic: {into_dynamic}; started at self._root: {from_root}",
            fi, F if F is not fi.node else c, "sort traversal covers static and dynamic successors from the root",
        )
        if into_static and into_dynamic:
            gaps = _descent_gaps(fi, hr, feeds, start_at)
            gaps += [f"`{d[:80]}` leaves out successors that have transitions of their own" for fl in {id(f[2]): f[2] for f in feeds}.values() for d in fl.drops]
            ctx.ob(
                "R3.1", "the traversal descends into every successor that has transitions of its own", not gaps,
                f"{how}: on every path of a traversal step the static and the dynamic successors are fed - for each successor, or at least for each one whose .static / .dynamic is non-empty" if not gaps else "; ".join(gaps[:2]),
                fi, feeds[0][0] if feeds else c, "sort traversal skips no successor with transitions below it",
            )


def _receiver(fi: FuncInfo, call: ast.Call) -> str:
    """text of the object a method is called on, a local alias of it (`matcher = self._matcher`) looked through."""
    if not isinstance(call.func, ast.Attribute):
        return ""
    recv = call.func.value
    cfg = cfg_of(fi)
    al = getattr(fi, "_c03_aliases", None)
    if al is None:
        al = guards.Aliases(cfg, ReachingDefs(cfg, fi.params))
        fi._c03_aliases = al  # type: ignore[attr-defined]
    n = cfg.node_of(call)
    return norm(al.expand(recv, n)) if n is not None and _enclosing_func(call) is fi.node else norm(recv)


def _method_on(attr: str, receiver: str) -> t.Callable[[FuncInfo, ast.Call], bool]:
    return lambda fi, k: isinstance(k.func, ast.Attribute) and k.func.attr == attr and _receiver(fi, k) == receiver


def _always_calls(ctx: Ctx, cls: ClassInfo | None, call: ast.Call, what: t.Callable[[FuncInfo, ast.Call], bool], depth: int = 0) -> bool:
    """`call` is a call of a method through self in whose body every path to the normal exit passes a call that
    satisfies `what` (directly or, again, through such a method)."""
    if cls is None or depth > 2 or not (isinstance(call.func, ast.Attribute) and astq.is_name(call.func.value, "self")):
        return False
    _, h = ctx.repo.lookup(cls, call.func.attr)
    if not isinstance(h, FuncInfo):
        return False
    hc = cfg_of(h)
    through = [hc.node_of(k) for k in astq.calls(h.node, nested=False) if what(h, k) or _always_calls(ctx, cls, k, what, depth + 1)]
    through = [x for x in through if x is not None]
    return bool(through) and hc.all_paths_pass(hc.entry, [hc.exit], through)


def _r31_update_calls(ctx: Ctx) -> None:
    repo = ctx.repo
    ad, cfg, ms = _adapter_slots(ctx)
    is_up = _method_on("update", "self.map")
    ups = [c for c in astq.calls(ad.node, nested=False) if (is_up(ad, c) and not c.args) or _always_calls(ctx, ad.cls, c, is_up)]
    n = 0
    for mc in ms:
        M = cfg.node_of(mc)
        ok = any(cfg.node_dominates(cfg.node_of(u), M) for u in ups if cfg.node_of(u) is not None) if M is not None else False
        n += 1
        ctx.ob("R3.1", "MapAdapter.match brings the map up to date before matching, on every path", ok,
               f"{len(ups)} `self.map.update()` call(s); one dominates `{norm(mc)[:60]}`: {ok}", ad, mc, "map.update dominates matcher.match")
    mu = repo.func("routing.map.Map.update")
    cfg = cfg_of(mu)
    is_sort = _method_on("update", "self._matcher")
    inner = [c for c in astq.calls(mu.node, nested=False) if is_sort(mu, c) or _always_calls(ctx, mu.cls, c, is_sort)]
    if not inner:
        ctx.ob("R3.1", "Map.update re-sorts the matcher whenever _remap is set", False, "no `self._matcher.update()` call", mu, mu.node, "Map.update reaches matcher.update")
        n += 1
    else:
        inodes = [x for x in (cfg.node_of(c) for c in inner) if x is not None]
        _, clean = _polar_edges(cfg, "self._remap")  # edges taken when _remap is false
        r = cfg.reach(avoid_nodes=inodes, avoid_edges=clean)
        ok = cfg.exit.id not in r
        w = cfg.path(cfg.entry, cfg.exit, avoid_nodes=inodes, avoid_edges=clean)
        ctx.ob("R3.1", "Map.update re-sorts the matcher whenever _remap is set", ok,
               "every path to the exit takes a `_remap is false` edge or calls self._matcher.update()" if ok else "path with _remap set that never sorts: " + cfg.fmt_path(w or []),
               mu, inner[0], "Map.update reaches matcher.update")
        n += 1
        for st in walk_no_nested(mu.node):
            if isinstance(st, ast.Assign) and any(norm(tg) == "self._remap" for tg in st.targets) and isinstance(st.value, ast.Constant) and st.value.value is False:
                sn = cfg.node_of(st)
                ok = sn is not None and any(cfg.node_dominates(i, sn) for i in inodes)
                ctx.ob("R3.1", "_remap is cleared only after the matcher was re-sorted", ok, f"`{norm(st)}` dominated by self._matcher.update(): {ok}", mu, st, "remap cleared after sort")
    ma = repo.func("routing.map.Map.add")
    is_add = _method_on("add", "self._matcher")

    def marks(f: FuncInfo) -> list[Node]:
        fc = cfg_of(f)
        got = [fc.node_of(st) for st in walk_no_nested(f.node) if isinstance(st, ast.Assign) and any(norm(tg) == "self._remap" for tg in st.targets) and isinstance(st.value, ast.Constant) and st.value.value is True]
        return [x for x in got if x is not None]

    def marked_after(f: FuncInfo, c: ast.Call) -> bool:
        fc = cfg_of(f)
        A = fc.node_of(c)
        ms_ = marks(f)
        return bool(ms_) and A is not None and fc.all_paths_pass(A, [fc.exit], ms_)

    def hand_over(f: FuncInfo, depth: int = 0) -> list[list[tuple[FuncInfo, ast.Call]]]:
        """the places where a rule may be handed to the matcher, each as the chain of calls leading to it: the call in
        Map.add first, then (the adding moved into private methods) the call inside each method on the way."""
        out: list[list[tuple[FuncInfo, ast.Call]]] = []
        for c in astq.calls(f.node, nested=False):
            if is_add(f, c):
                out.append([(f, c)])
            elif depth < 2 and f.cls is not None and isinstance(c.func, ast.Attribute) and astq.is_name(c.func.value, "self"):
                _, h = repo.lookup(f.cls, c.func.attr)
                if isinstance(h, FuncInfo) and h is not f:
                    out.extend([(f, c), *chain] for chain in hand_over(h, depth + 1))
        return out

    chains = hand_over(ma)
    if not chains:
        raise AnalysisError(f"{ma.fq}: no call of self._matcher.add")
    for chain in chains:
        # the mark may follow the hand-over at any level of the chain: inside the helper, or behind the helper's call
        ok = any(marked_after(f, c) for f, c in chain)
        f0, c0 = chain[-1]
        n += 1
        via = "" if len(chain) == 1 else " (reached through " + " -> ".join(f"`{norm(c)[:40]}`" for _, c in chain[:-1]) + ")"
        ctx.ob("R3.1", "Map.add marks the map for re-sorting after handing a rule to the matcher", ok,
               f"every path from `{norm(c0)}`{via} to the exit passes `self._remap = True`: {ok}", ma, chain[0][1], "Map.add sets _remap")
    ctx.floor("R3.1", "update call sites", n, 3)


_MAPPING_WRAPPERS = ("dict", "ImmutableDict", "MappingProxyType", "OrderedDict", "frozendict")


def _table_pairs(ctx: Ctx, folder: Folder, mod: t.Any, e: ast.AST | None, depth: int = 0) -> list[tuple[str, ast.AST]]:
    """the (key, value expression) pairs a mapping-building expression denotes, in insertion order: dict displays
    (with `**` spreads), dict(name=V) / dict(pairs) / dict(mapping), dict.fromkeys(keys, V), sequences of pairs,
    `a | b`, read-only wrappers, module-level names standing for any of these.  Keys are folded to constants; values are
    kept as expressions (they name classes)."""
    if e is None or depth > 6:
        raise AnalysisError("DEFAULT_CONVERTERS: table expression not understood")

    def key_of(k: ast.AST) -> str:
        try:
            v = folder.expr(mod, k)
        except Unfoldable as ex:
            raise AnalysisError(f"DEFAULT_CONVERTERS: key `{norm(k)}` is not a constant: {ex}")
        if not isinstance(v, str):
            raise AnalysisError(f"DEFAULT_CONVERTERS: key `{norm(k)}` folds to {v!r}")
        return v

    rec = lambda x: _table_pairs(ctx, folder, mod, x, depth + 1)  # noqa: E731
    if isinstance(e, ast.Dict):
        out: list[tuple[str, ast.AST]] = []
        for k, v in zip(e.keys, e.values):
            out += rec(v) if k is None else [(key_of(k), v)]
        return out
    if isinstance(e, ast.Name):
        vals = mod.assigns.get(e.id)
        if not vals:
            raise AnalysisError(f"DEFAULT_CONVERTERS: `{e.id}` is not a module-level table")
        return rec(vals[-1])
    if isinstance(e, (ast.Tuple, ast.List)):
        out = []
        for x in e.elts:
            if isinstance(x, ast.Starred):
                out += rec(x.value)
            elif isinstance(x, (ast.Tuple, ast.List)) and len(x.elts) == 2:
                out.append((key_of(x.elts[0]), x.elts[1]))
            else:
                raise AnalysisError(f"DEFAULT_CONVERTERS: `{norm(x)[:50]}` is not a (name, class) pair")
        return out
    if isinstance(e, ast.BinOp) and isinstance(e.op, ast.BitOr):
        return rec(e.left) + rec(e.right)
    if isinstance(e, ast.Call):
        d = dotted(e.func) or ""
        if d == "dict.fromkeys" and len(e.args) == 2:
            try:
                keys = list(folder.expr(mod, e.args[0]))
            except Unfoldable as ex:
                raise AnalysisError(f"DEFAULT_CONVERTERS: keys of `{norm(e)[:50]}` are not constant: {ex}")
            return [(k, e.args[1]) for k in keys if isinstance(k, str)]
        if d.rsplit(".", 1)[-1] in _MAPPING_WRAPPERS and len(e.args) <= 1:
            out = rec(e.args[0]) if e.args else []
            for kw in e.keywords:
                out += rec(kw.value) if kw.arg is None else [(kw.arg, kw.value)]
            return out
    raise AnalysisError(f"routing.converters.DEFAULT_CONVERTERS: `{norm(e)[:60]}` is not a table the rule can read (dict display / dict(...) / pairs)")


def _converter_table(ctx: Ctx) -> tuple[dict[str, ClassInfo], ast.AST]:
    mod = ctx.repo.module("routing.converters")
    vals = mod.assigns.get("DEFAULT_CONVERTERS")
    if not vals:
        raise AnalysisError("routing.converters.DEFAULT_CONVERTERS is not assigned at module level")
    d = vals[-1]
    out: dict[str, ClassInfo] = {}
    for ks, v in _table_pairs(ctx, Folder(ctx.repo), mod, d):
        dn = dotted(v)
        if dn is None:
            raise AnalysisError(f"DEFAULT_CONVERTERS[{ks!r}]: `{norm(v)[:40]}` does not name a class")
        fq = ctx.repo.resolve(mod, dn)
        ci = ctx.repo.try_cls(fq) if fq else None
        if ci is None:
            raise AnalysisError(f"DEFAULT_CONVERTERS[{ks!r}]: class {dn} not found")
        out[ks] = ci  # a later pair with the same key replaces the earlier one, as in a dict
    return out, d


def _fold_class_constants(ctx: Ctx, folder: Folder, module: t.Any, e: ast.AST, depth: int = 0) -> t.Any:
    """fold e, where `Class.attr` stands for the class-level constant of a class of the package (resolved through the
    MRO): `weight = 2 * BaseConverter.weight`."""
    if depth > 6:
        raise Unfoldable("class constants nested too deep")
    fresh = ast.parse(ast.unparse(e), mode="eval").body

    class T(ast.NodeTransformer):
        def visit_Attribute(self, n: ast.Attribute) -> ast.AST:  # noqa: N802
            base = dotted(n.value)
            fq = ctx.repo.resolve(module, base) if base else None
            ci = ctx.repo.try_cls(fq) if fq and fq.startswith("werkzeug") else None
            if ci is not None:
                owner, what = _class_constant(ctx, ci, n.attr)
                if owner is not None and isinstance(what, ast.AST):
                    return ast.Constant(value=_fold_class_constants(ctx, folder, owner.module, what, depth + 1))
            return self.generic_visit(n)

    return folder.expr(module, ast.fix_missing_locations(T().visit(fresh)))


def _class_constant(ctx: Ctx, c: ClassInfo, name: str) -> tuple[ClassInfo | None, ast.AST | None]:
    """(owner, value expression) of a class-level attribute through the MRO; unlike the loader's table this also sees a
    class body that binds several attributes at once (`regex, weight = "[^/]+", 100`)."""
    for k in ctx.repo.mro(c):
        if not isinstance(k, ClassInfo):
            continue
        found: ast.AST | None = None
        for st in k.node.body:
            if isinstance(st, ast.Assign):
                for tg in st.targets:
                    if astq.is_name(tg, name):
                        found = st.value
                    elif isinstance(tg, (ast.Tuple, ast.List)) and isinstance(st.value, (ast.Tuple, ast.List)) and len(tg.elts) == len(st.value.elts):
                        for t_, v_ in zip(tg.elts, st.value.elts):
                            if astq.is_name(t_, name):
                                found = v_
            elif isinstance(st, ast.AnnAssign) and astq.is_name(st.target, name) and st.value is not None:
                found = st.value
        if found is not None:
            return k, found
        if name in k.attrs or name in k.methods:
            return ctx.repo.lookup(c, name)
    return None, None


def _weight_of(ctx: Ctx, folder: Folder, c: ClassInfo) -> tuple[int, str]:
    owner, what = _class_constant(ctx, c, "weight")
    if owner is None or not isinstance(what, ast.AST):
        raise AnalysisError(f"{c.fq}: `weight` does not resolve to a class attribute")
    try:
        v = _fold_class_constants(ctx, folder, owner.module, what)
    except Unfoldable as e:
        raise AnalysisError(f"{owner.fq}.weight is not a constant: {e}")
    if not isinstance(v, (int, float)) or isinstance(v, bool):
        raise AnalysisError(f"{owner.fq}.weight folds to {v!r}")
    return v, owner.name


def _r31_weights(ctx: Ctx) -> None:
    repo = ctx.repo
    folder = Folder(repo)
    table, dnode = _converter_table(ctx)
    mod = repo.module("routing.converters")
    w: dict[str, tuple[int, str]] = {}
    for key, c in sorted(table.items()):
        val, owner = _weight_of(ctx, folder, c)
        w[key] = (val, owner)
        # no instance-level or property override anywhere in the MRO
        over = []
        for k in repo.mro(c):
            if not isinstance(k, ClassInfo):
                continue
            for mn, mfi in k.methods.items():
                if mn.split(".")[0] == "weight":
                    over.append(f"{k.name}.{mn}")
                for st in ast.walk(mfi.node):
                    tg = st.targets if isinstance(st, ast.Assign) else [st.target] if isinstance(st, (ast.AugAssign, ast.AnnAssign)) else []
                    if any(isinstance(x, ast.Attribute) and x.attr == "weight" and isinstance(x.value, ast.Name) and x.value.id in ("self", "cls") for x in tg):
                        over.append(f"{k.name}.{mn}: {norm(st)}")
        ctx.ob("R3.1", f"converter `{key}` ({c.name}) has a class-level constant weight", not over,
               f"weight = {val} (from {owner})" + (f"; overridden by {over}" if over else ""), mod.name, dnode, f"{key} weight is a class constant")
    ctx.floor("R3.1", "converter classes in DEFAULT_CONVERTERS", len(w), 7)
    need = [("int", "string"), ("float", "string"), ("int", "default"), ("float", "default"), ("string", "path"), ("default", "path")]
    for a, b in need:
        if a not in w or b not in w:
            raise AnalysisError(f"DEFAULT_CONVERTERS lacks `{a}` or `{b}`")
        ctx.ob("R3.1", f"weight({a}) < weight({b})", w[a][0] < w[b][0], f"{a}: {w[a][0]} (from {w[a][1]}), {b}: {w[b][0]} (from {w[b][1]})",
               mod.name, table[a].node, f"weight {a} < {b}")
    # the table the rules look converters up in is this one
    mp = repo.cls("routing.map.Map")
    dc = mp.attrs.get("default_converters")
    ctx.ob("R3.1", "Map.default_converters is built from DEFAULT_CONVERTERS", dc is not None and "DEFAULT_CONVERTERS" in astq.names_in(dc),
           norm(dc) if dc is not None else "attribute missing", mp.fq, dc, "Map.default_converters source")


CTORS = ("Weighting", "RulePart")


class _Site(t.NamedTuple):
    site: ast.Call  # the call as written in the function under analysis
    eff: ast.Call  # the constructor call it amounts to, over the function's own names
    callee: str  # Weighting / RulePart
    via: str | None  # name of the helper the construction was moved into


def _ctor_name(fn: ast.AST | None, c: ast.Call) -> str | None:
    """Weighting / RulePart when c constructs one: by the class name, or as `cls(...)` inside a classmethod of that class
    (an alternative constructor)."""
    nm = _last(dotted(c.func))
    if nm in CTORS:
        return nm
    owner = astq.parent(fn) if fn is not None else None
    if nm == "cls" and isinstance(c.func, ast.Name) and isinstance(owner, ast.ClassDef) and owner.name in CTORS and isinstance(fn, (ast.FunctionDef, ast.AsyncFunctionDef)):
        if any((dotted(d) or "").endswith("classmethod") for d in fn.decorator_list) and fn.args.args and fn.args.args[0].arg == "cls":
            return owner.name
    return None


def _ctor_built(ctx: Ctx, fn: ast.AST) -> list[ast.Call]:
    """the Weighting / RulePart constructions in a helper that does nothing else with its parameters than hand them on:
    straight-line code (no loop), no parameter rebound, none mutated through a list method / subscript store.  Each such
    construction is, for the caller, a construction over the arguments of the call."""
    if not isinstance(fn, (ast.FunctionDef, ast.AsyncFunctionDef)):
        return []
    calls = [c for c in walk_no_nested(fn) if isinstance(c, ast.Call) and _ctor_name(fn, c) is not None]
    if not calls:
        return []
    a = fn.args
    params = {x.arg for x in [*a.posonlyargs, *a.args, *a.kwonlyargs]}
    muts = ctx.repo.mutators("list")
    for x in walk_no_nested(fn):
        if isinstance(x, (ast.For, ast.AsyncFor, ast.While)):
            return []
        if isinstance(x, ast.Name) and isinstance(x.ctx, (ast.Store, ast.Del)) and x.id in params:
            return []
        if isinstance(x, ast.Call) and isinstance(x.func, ast.Attribute) and isinstance(x.func.value, ast.Name) and x.func.value.id in params and x.func.attr in muts:
            return []
        if isinstance(x, ast.Subscript) and isinstance(x.value, ast.Name) and x.value.id in params and isinstance(x.ctx, (ast.Store, ast.Del)):
            return []
        if isinstance(x, (ast.Global, ast.Nonlocal)):
            return []
    return calls


def _inline(helper: ast.AST, inner: ast.Call, call: ast.Call, skip_first: bool) -> ast.Call | None:
    """`inner` (the constructor call inside helper) with helper's parameters replaced by the arguments of `call`; the
    helper's own locals are renamed so that they cannot be taken for locals of the caller."""
    bound = bind_call(helper, call, skip_first)
    if bound is None:
        return None
    own = {x.id for x in walk_no_nested(helper) if isinstance(x, ast.Name) and isinstance(x.ctx, ast.Store)} - set(bound)
    fresh = ast.parse(ast.unparse(inner), mode="eval").body

    class T(ast.NodeTransformer):
        def visit_Name(self, n: ast.Name) -> ast.AST:  # noqa: N802
            if n.id in bound:
                return ast.parse(ast.unparse(bound[n.id]), mode="eval").body
            if n.id in own:
                return ast.copy_location(ast.Name(id=f"__{getattr(helper, 'name', 'helper')}_{n.id}", ctx=n.ctx), n)
            return n

    out = ast.fix_missing_locations(T().visit(fresh))
    return out if isinstance(out, ast.Call) else None


def _ctor_sites(ctx: Ctx, fi: FuncInfo) -> list[_Site]:
    """every construction of a Weighting / RulePart in fi: written out, or moved into a helper (function of the module,
    method of the class, closure of fi) that builds the object(s) from its parameters."""
    hr = HelperResolver(ctx.repo, fi)
    out: list[_Site] = []
    for c in astq.calls(fi.node, nested=False):
        d = dotted(c.func)
        if d is None:
            continue
        if _last(d) in CTORS:
            out.append(_Site(c, c, _last(d), None))
            continue
        r = hr.resolve(c)
        if r is None:
            continue
        helper, skip = r
        for inner in _ctor_built(ctx, helper):
            eff = _inline(helper, inner, c, skip)
            built = _ctor_name(helper, inner) or "?"
            if eff is None:
                raise AnalysisError(f"{fi.fq}: cannot map the arguments of `{norm(c)[:60]}` onto the parameters of the helper that builds a {built}")
            out.append(_Site(c, eff, built, _last(d)))
    return out


def _weighting_fields(ctx: Ctx) -> list[tuple[str, str]]:
    wc = ctx.repo.cls("routing.rules.Weighting")
    fields = [(st.target.id, norm(st.annotation)) for st in wc.node.body if isinstance(st, ast.AnnAssign) and isinstance(st.target, ast.Name)]
    if len(fields) < 2:
        raise AnalysisError("routing.rules.Weighting: fields not found")
    return fields


def _call_fields(call: ast.Call, fields: list[tuple[str, str]]) -> dict[str, ast.AST]:
    out: dict[str, ast.AST] = {}
    for i, a in enumerate(call.args):
        if isinstance(a, ast.Starred) or i >= len(fields):
            raise AnalysisError(f"cannot map the arguments of `{norm(call)}` onto Weighting's fields")
        out[fields[i][0]] = a
    for kw in call.keywords:
        if kw.arg is None:
            raise AnalysisError(f"cannot map the arguments of `{norm(call)}` onto Weighting's fields")
        out[kw.arg] = kw.value
    return out


def _list_growth(fn: ast.AST) -> list[tuple[ast.AST, str, list[ast.AST]]]:
    """(site, local list, elements) for `xs.append(e)`, `xs.extend([e, ...])`, `xs += [e, ...]` in fn."""
    out: list[tuple[ast.AST, str, list[ast.AST]]] = []
    for x in walk_no_nested(fn):
        if isinstance(x, ast.Call) and isinstance(x.func, ast.Attribute) and isinstance(x.func.value, ast.Name) and x.args:
            if x.func.attr == "append":
                out.append((x, x.func.value.id, [x.args[0]]))
            elif x.func.attr == "extend" and isinstance(x.args[0], (ast.List, ast.Tuple)):
                out.append((x, x.func.value.id, list(x.args[0].elts)))
        elif isinstance(x, ast.AugAssign) and isinstance(x.op, ast.Add) and isinstance(x.target, ast.Name) and isinstance(x.value, (ast.List, ast.Tuple)):
            out.append((x, x.target.id, list(x.value.elts)))
        elif isinstance(x, ast.Assign) and len(x.targets) == 1 and isinstance(x.targets[0], ast.Name):
            # growth by rebinding: `xs = xs + [e]`, `xs = [*xs, e]`
            nm, v = x.targets[0].id, x.value
            if isinstance(v, ast.BinOp) and isinstance(v.op, ast.Add) and astq.is_name(v.left, nm) and isinstance(v.right, (ast.List, ast.Tuple)):
                out.append((x, nm, list(v.right.elts)))
            elif isinstance(v, ast.List) and v.elts and isinstance(v.elts[0], ast.Starred) and astq.is_name(v.elts[0].value, nm) and not any(isinstance(e, ast.Starred) for e in v.elts[1:]):
                out.append((x, nm, list(v.elts[1:])))
    out.sort(key=lambda p: (getattr(p[0], "lineno", 0), getattr(p[0], "col_offset", 0)))
    return out


def _copied_list(e: ast.AST | None) -> str | None:
    """the local list of which e is an element-for-element copy: `list(x)`, `x[:]`, `x.copy()`, `[*x]`."""
    if isinstance(e, ast.Call) and isinstance(e.func, ast.Name) and e.func.id == "list" and len(e.args) == 1 and isinstance(e.args[0], ast.Name) and not e.keywords:
        return e.args[0].id
    if isinstance(e, ast.Call) and isinstance(e.func, ast.Attribute) and e.func.attr == "copy" and isinstance(e.func.value, ast.Name) and not e.args:
        return e.func.value.id
    if isinstance(e, ast.Subscript) and isinstance(e.value, ast.Name) and isinstance(e.slice, ast.Slice) and e.slice.lower is None and e.slice.upper is None and e.slice.step is None:
        return e.value.id
    if isinstance(e, ast.List) and len(e.elts) == 1 and isinstance(e.elts[0], ast.Starred) and isinstance(e.elts[0].value, ast.Name):
        return e.elts[0].value.id
    return None


def _list_source(e: ast.AST | None) -> str | None:
    """the local list whose elements e holds: the name itself or a copy of it."""
    return e.id if isinstance(e, ast.Name) else _copied_list(e)


def _list_mutations(repo: t.Any, fn: ast.AST, cfg: CFG, name: str) -> list[Node]:
    muts = repo.mutators("list")
    out = []
    for x in walk_no_nested(fn):
        hit = (
            (isinstance(x, ast.Call) and isinstance(x.func, ast.Attribute) and astq.is_name(x.func.value, name) and x.func.attr in muts)
            or (isinstance(x, ast.AugAssign) and astq.is_name(x.target, name))
            or (isinstance(x, ast.Subscript) and astq.is_name(x.value, name) and isinstance(x.ctx, (ast.Store, ast.Del)))
        )
        if hit:
            n = cfg.node_of(x)
            if n is not None:
                out.append(n)
    return out


def _expand_count(repo: t.Any, fn: ast.AST, cfg: CFG, rd: ReachingDefs, e: ast.AST, node: Node | None) -> ast.AST:
    """a count handed to Weighting through a local (`n = len(xs)` ... `Weighting(-n, xs, ...)`) is replaced by its
    defining expression - provided the local has that one definition here and the list it measures is neither rebound
    nor changed between the measurement and the use."""
    if node is None:
        return e
    repl: dict[str, ast.AST] = {}
    for x in ast.walk(e):
        if not (isinstance(x, ast.Name) and isinstance(x.ctx, ast.Load)):
            continue
        defs = rd.reaching(node, x.id)
        if len(defs) != 1:
            continue
        d = next(iter(defs))
        if d.kind not in ("assign", "unpack", "walrus") or d.value is None or d.node is None:
            continue
        dv = d.value
        if d.index is not None:  # `n_a, n_b = len(a), len(b)`
            if not (isinstance(dv, (ast.Tuple, ast.List)) and isinstance(d.stmt, ast.Assign) and len(d.stmt.targets) == 1 and isinstance(d.stmt.targets[0], (ast.Tuple, ast.List))
                    and len(dv.elts) == len(d.stmt.targets[0].elts) and not any(isinstance(y, ast.Starred) for y in [*dv.elts, *d.stmt.targets[0].elts])):
                continue
            dv = dv.elts[d.index]
        measured = [k.args[0].id for k in astq.calls(dv) if astq.is_name(k.func, "len") and len(k.args) == 1 and isinstance(k.args[0], ast.Name)]
        if not measured or not all(isinstance(y, (ast.Name, ast.Call, ast.UnaryOp, ast.USub, ast.Load, ast.Constant, ast.BinOp, ast.Sub, ast.Mult)) for y in ast.walk(dv)):
            continue
        stale = False
        for lst in measured:
            if rd.reaching(d.node, lst) != rd.reaching(node, lst):
                stale = True
            for g in _list_mutations(repo, fn, cfg, lst):
                if g.id in cfg.reach(d.node, avoid_nodes=[d.node]) and (g is node or node.id in cfg.reach(g, avoid_nodes=[d.node])):
                    stale = True
        if stale:
            continue
        repl[x.id] = dv
    return subst(e, repl)


def _minus_len_of(e: ast.AST | None) -> str | None:
    """the list L when e is `-len(L)` (also `0 - len(L)`, `-1 * len(L)`, `len(L) * -1`)."""
    def length(x: ast.AST) -> str | None:
        if isinstance(x, ast.Call) and astq.is_name(x.func, "len") and len(x.args) == 1 and not x.keywords:
            return norm(x.args[0])
        return None

    def minus_one(x: ast.AST) -> bool:
        return isinstance(x, ast.UnaryOp) and isinstance(x.op, ast.USub) and isinstance(x.operand, ast.Constant) and x.operand.value == 1

    if isinstance(e, ast.UnaryOp) and isinstance(e.op, ast.USub):
        return length(e.operand)
    if isinstance(e, ast.BinOp) and isinstance(e.op, ast.Sub) and isinstance(e.left, ast.Constant) and e.left.value == 0 and not isinstance(e.left.value, bool):
        return length(e.right)
    if isinstance(e, ast.BinOp) and isinstance(e.op, ast.Mult):
        if minus_one(e.left):
            return length(e.right)
        if minus_one(e.right):
            return length(e.left)
    return None


def _r31_weighting(ctx: Ctx) -> None:
    repo = ctx.repo
    fi = repo.func("routing.rules.Rule._parse_rule")
    fields = _weighting_fields(ctx)
    names = [f for f, _ in fields]
    list_fields = [f for f, a in fields if a.startswith("list")]
    int_fields = [f for f, a in fields if a == "int"]
    if len(list_fields) != 2 or len(int_fields) != 2:
        raise AnalysisError(f"Weighting fields are {fields}: expected two counts and two lists")
    cfg = cfg_of(fi)
    rd = ReachingDefs(cfg, fi.params)
    # which local list receives converter weights: X.append(<conv>.weight) with <conv> bound from self.get_converter(...)
    conv_lists: set[str] = set()
    lit_lists: set[str] = set()
    nconv = 0
    al = guards.Aliases(cfg, rd)
    hr = HelperResolver(repo, fi)

    def conv_source(v: ast.AST | None, depth: int = 0) -> bool:
        """v evaluates to what `get_converter(...)` returned: the call itself, or a call of a private helper each of
        whose returns is such a value."""
        if not isinstance(v, ast.Call) or depth > 2:
            return False
        if isinstance(v.func, ast.Attribute) and v.func.attr == "get_converter":
            return True
        r = hr.resolve(v)
        if r is None:
            return False
        rets = astq.returns_of(r[0])
        ok = bool(rets)
        for rt in rets:
            vals = _values_of(r[0], rt.value) if rt.value is not None else []
            ok = ok and bool(vals) and all(conv_source(x, depth + 1) for x in vals)
        return ok

    for c, recv_id, elems in _list_growth(fi.node):
        node = cfg.node_of(c)
        for a0 in elems:
            a = al.expand(a0, node) if node is not None and isinstance(a0, ast.Name) else a0  # `w = conv.weight; xs.append(w)`
            if isinstance(a, ast.Attribute) and a.attr == "weight":
                if isinstance(a.value, ast.Name):
                    at = node
                    if a is not a0 and node is not None:
                        wd = rd.reaching(node, a0.id)  # type: ignore[union-attr]
                        at = next(iter(wd)).node if len(wd) == 1 else node
                    defs = rd.reaching(at, a.value.id) if at is not None else frozenset()
                    from_conv = bool(defs) and all(d.kind in ("assign", "walrus") and d.index is None and conv_source(d.value) for d in defs)
                    shown = [norm(d.value)[:50] if d.value is not None else d.kind for d in defs]
                elif conv_source(a.value):
                    from_conv, shown = True, [norm(a.value)[:50]]
                else:
                    raise AnalysisError(f"{fi.fq}: `{norm(c)[:70]}` records the weight of `{norm(a.value)[:40]}`; cannot tell whether that is the converter get_converter returned")
                nconv += 1
                ctx.ob("R3.1", "a variable contributes the weight of the converter that get_converter returned for it", from_conv,
                       f"`{norm(c)}`: `{norm(a.value)}` bound from {shown}", fi, c, "argument weight is the converter's weight")
                if from_conv:
                    conv_lists.add(recv_id)
            else:
                lit_lists.add(recv_id)
    if nconv == 0:
        ctx.ob("R3.1", "a variable contributes the weight of the converter that get_converter returned for it", False,
               "no `<list>.append(<converter>.weight)` in _parse_rule: the converters' weights never reach the part's Weighting", fi, fi.node, "argument weight is the converter's weight")
    wsites = [x for x in _ctor_sites(ctx, fi) if x.callee == "Weighting"]
    # one construction is enough (the two of today's tree may be folded into one helper / closure); zero = nothing to check
    ctx.floor("R3.1", "Weighting constructions in _parse_rule", len(wsites), 1)
    for site in wsites:
        c = site.site
        f = _call_fields(site.eff, fields)
        lists = {k: f.get(k) for k in list_fields}
        arg_f = [k for k, v in lists.items() if _list_source(v) in conv_lists]
        ok_arg = len(arg_f) == 1
        ctx.ob("R3.1", "Weighting carries the list of converter weights", ok_arg,
               f"`{norm(site.eff)}`{' (through ' + site.via + ')' if site.via else ''}: list fields {[(k, norm(v) if v is not None else None) for k, v in lists.items()]}, converter-weight lists {sorted(conv_lists)}", fi, c, "Weighting has the converter weights")
        if not ok_arg:
            continue
        lit_f = [k for k in list_fields if k != arg_f[0]][0]
        lit_v = lists[lit_f]
        lit_src = _list_source(lit_v)
        # the count that precedes the literal list in the tuple is minus its length
        pos = names.index(lit_f)
        cnt_f = names[pos - 1] if pos > 0 and names[pos - 1] in int_fields else None
        cnt_v = f.get(cnt_f) if cnt_f else None
        cnt_x = _expand_count(repo, fi.node, cfg, rd, cnt_v, cfg.node_of(c)) if cnt_v is not None else None
        ok_cnt = cnt_x is not None and lit_src is not None and _minus_len_of(cnt_x) == lit_src and lit_src in lit_lists and lit_src not in conv_lists
        ctx.ob("R3.1", "more literal pieces sort first: the count before the literal list is minus its length", ok_cnt,
               f"`{norm(site.eff)}`: {cnt_f} = {norm(cnt_v) if cnt_v is not None else None}" + (f" (= {norm(cnt_x)})" if cnt_x is not None and cnt_v is not None and norm(cnt_x) != norm(cnt_v) else "")
               + f", {lit_f} = {norm(lit_v) if lit_v is not None else None}", fi, c, "literal count is -len(literal list)")


# ----------------------------------------------------------------------
# R3.2: the rule loops as truth tables


class _Propose(Exception):
    """a helper called for one rule raised instead of answering."""


class _Frame:
    """one piece of code executed for a candidate rule: the body of a rule loop, or a helper it calls (whole function)."""

    def __init__(self, cfg: CFG, locs: _Locals, mapping: Mapping, region: set[int] | None, head: Node | None, name: str, var: str | None = None):
        self.cfg = cfg
        self.locs = locs
        self.mapping = mapping
        self.var = var  # the loop variable, where the frame is the body of a rule loop
        self.follow = False  # the frame follows a rule that was found through the function that called the helper: every test on the way has to be decided
        self.region = region  # ids of the AST nodes of the loop body; None: a whole function
        self.head = head
        self.name = name
        self.expanded: dict[int, ast.AST] = {}  # CFG node id -> its condition / returned expression with local flags expanded
        self.calls: dict[int, "_Frame"] = {}  # id(call expression) -> frame of the helper it runs

    def inside(self, n: Node) -> bool:
        return n.ast is not None and (self.region is None or id(n.ast) in self.region)


class _RuleLoop:
    def __init__(self, ctx: Ctx, m: _Matcher, cfg: CFG, locs: _Locals, fn: ast.AST, loop: ast.For, helpers: HelperResolver,
                 site: tuple[ast.Call, ast.AST, CFG, _Locals] | None = None):
        """site: the loop runs over a parameter of the helper `fn`; (call of the helper, what that call hands in for the
        parameter, CFG and locals of the function the call is in).  The loop is then judged as the loop of that call
        site: over what the site hands in, and a rule the helper returns is followed through the calling function to the
        `return` that hands it on (or not)."""
        self.loop = loop
        self.cfg = cfg
        if not isinstance(loop.target, ast.Name):
            raise AnalysisError(f"rule loop at line {loop.lineno}: target is not a single name")
        self.var = loop.target.id
        self.map: dict[str, t.Union[str, ast.AST]] = {self.var: "$r"}
        heads = cfg.by_ast.get(id(loop))
        if not heads:
            raise AnalysisError(f"rule loop at line {loop.lineno}: no CFG node")
        self.head = heads[0]
        self.body_ids = {id(x) for st in loop.body for x in ast.walk(st)}
        self.at: ast.AST = site[0] if site is not None else loop  # where the loop is, for the reader
        it_expr: ast.AST = site[1] if site is not None else loop.iter
        it_scope = _enclosing_func(site[0]) if site is not None else fn
        enc = astq.enclosing(self.at, (ast.If,))
        under = norm(enc.test) if isinstance(enc, ast.If) and it_scope is not None and _inside(enc, it_scope) else "always"
        self.label = f"rule loop over {norm(it_expr)} under `{under}`" + (f" (in {getattr(fn, 'name', '?')}())" if site is not None else "")
        self.weight = 1 if site is not None else m.loop_weight.get(id(loop), 1)
        if site is not None:
            # the other parameters of the helper stand for what this call hands in, where that is a constant (`lenient_only=True`)
            bound = bind_call(fn, site[0], False) or {}
            for prm, arg in bound.items():
                if isinstance(arg, ast.Constant) and prm != self.var and not astq.assigns_to(fn, prm):
                    self.map[prm] = arg  # type: ignore[index]
        self.covered: set[int] = set(self.body_ids)  # ids of the AST nodes the execution for a rule can pass: the body, the helpers it calls
        self.m = m
        self.helpers = helpers
        self.locals = locs
        # atoms: the leaves of every test executed for a rule - in the body and in the helpers called from it with the
        # rule -, local flags / aliases replaced by what they stand for, a helper's parameters by its arguments
        self.atoms: dict[str, bool] = {}  # key -> request dependent
        self.frame = _Frame(cfg, locs, self.map, self.body_ids, self.head, self.label, self.var)
        # a rule the iteration filters out is not looked at at all: the filter's conditions are tested first
        it = _rules_iteration(it_expr, it_scope)
        self.pre: list[tuple[_Frame, ast.AST, bool]] = []
        for prm, cond, want in (it[1] if it is not None else []):
            pf = _Frame(cfg, locs, {prm: "$r"}, set(), None, "filter of " + self.label)
            for leaf in _leaves(cond):
                if isinstance(leaf, ast.Constant):
                    continue
                ren = _renamed(leaf, pf.mapping)
                key, _ = guards.canon(ren)
                self.atoms[key] = self.atoms.get(key, False) or bool(astq.names_in(ren) & set(m.request_params))
            self.pre.append((pf, cond, want))
        self._collect(self.frame, 0)
        # a rule the helper returns is returned by the search only if the call site hands it on
        self.resume: tuple[str, _Frame | None, Node | None, str | None] = ("hit", None, None, None)
        if site is not None:
            self.resume = self._site_continuation(site[0], site[2], site[3])
        self.keys = sorted(self.atoms)
        self.admission = [k for k in self.keys if not self.atoms[k]]
        self.request = [k for k in self.keys if self.atoms[k]]
        self.method_atoms = [k for k in self.request if "$r.methods" in k]
        if len(self.keys) > 10:
            raise AnalysisError(f"{self.label}: {len(self.keys)} condition atoms, truth table too large")
        self.table: dict[tuple[bool, ...], frozenset[str]] = {}
        for bits in itertools.product((False, True), repeat=len(self.keys)):
            self.table[bits] = self._run(dict(zip(self.keys, bits)))

    def _site_continuation(self, call: ast.Call, ccfg: CFG, clocs: _Locals) -> tuple[str, _Frame | None, Node | None, str | None]:
        """what becomes of the rule the helper returns to this call site: ("hit", ...) it is returned as it is,
        ("hit-dropped", ...) the value is thrown away, ("walk", frame of the calling function, node to go on from, the
        local that holds the rule): decided per valuation by going on in the caller - the conditions over the rule that
        the caller tests before it returns it join the loop's atoms."""
        v, consumer = _bound_name(call)
        if v is None:
            while isinstance(consumer, (ast.Tuple, ast.Starred)):
                consumer = astq.parent(consumer)
            if isinstance(consumer, ast.Return):
                return ("hit", None, None, None)
            if isinstance(consumer, ast.Expr):
                return ("hit-dropped", None, None, None)
            raise AnalysisError(f"{self.label}: what `{norm(call)[:60]}` returns is consumed by `{norm(consumer)[:60] if consumer is not None else '?'}`; cannot follow the rule to the statement that returns it")
        C = ccfg.node_of(call)
        if C is None:
            raise AnalysisError(f"{self.label}: no CFG node for `{norm(call)[:60]}`")
        if C.kind == "test":
            start: Node | None = C
        else:
            nxt = ccfg.succ(C, None)
            start = nxt[0] if nxt else None
        if start is None:
            return ("hit-dropped", None, None, None)
        fr = _Frame(ccfg, clocs, {v: "$r"}, set(), None, f"the call site of {self.label}")
        fr.follow = True
        reach = ccfg.reach(C) | {C.id}
        for tn in ccfg.tests():
            if tn.kind != "test" or tn.id not in reach:
                continue
            ex = _unwalrus(clocs.expand(tn.ast, tn), {v})  # type: ignore[arg-type]
            for leaf in _leaves(ex):
                if isinstance(leaf, ast.Constant) or v not in astq.names_in(leaf):
                    continue
                ren = _renamed(leaf, fr.mapping)
                cp = astq.cmp_parts(ren)
                if astq.is_name(ren, "$r") or (cp is not None and astq.is_name(cp[0], "$r") and astq.is_none(cp[2])):
                    continue  # "a rule was found": decided by the execution itself
                key, _ = guards.canon(ren)
                self.atoms[key] = self.atoms.get(key, False) or bool(astq.names_in(ren) & set(self.m.request_params))
        return ("walk", fr, start, v)

    # -- atoms ---------------------------------------------------------
    def _helper_frame(self, fr: _Frame, call: ast.Call, at: Node, depth: int) -> _Frame | None:
        r = self.helpers.resolve(call)
        if r is None:
            return None
        fn, skip = r
        if depth >= 3 or any(isinstance(x, (ast.For, ast.AsyncFor, ast.While, ast.Try, ast.With)) for x in walk_no_nested(fn)):
            raise AnalysisError(f"{self.label}: helper `{norm(call.func)}` called for a rule is not a straight-line decision (loop / try / with inside, or nested too deep)")
        bound = bind_call(fn, call, skip)
        if bound is None:
            raise AnalysisError(f"{self.label}: cannot map the arguments of `{norm(call)[:60]}` onto the helper's parameters")
        mapping: dict[str, str | ast.AST] = {}
        for prm, arg in bound.items():
            mapping[prm] = _renamed(fr.locs.expand(arg, at), fr.mapping)
        a = fn.args  # type: ignore[attr-defined]
        hcfg = self.helpers.cfg(fn)
        sub = _Frame(hcfg, _Locals(hcfg, [x.arg for x in [*a.posonlyargs, *a.args, *a.kwonlyargs]]), mapping, None, None, f"{fn.name}(...)")  # type: ignore[attr-defined]
        self.covered |= {id(x) for x in ast.walk(fn)}
        self._collect(sub, depth + 1)
        return sub

    def _flag_of_helper(self, fr: _Frame, leaf: ast.AST, at: Node) -> bool:
        """the leaf is a local that holds what a helper answered (`ok = _usable(rule)` ... `if ok`)."""
        if not isinstance(leaf, ast.Name):
            return False
        defs = fr.locs.rd.reaching(at, leaf.id)
        return bool(defs) and all(d.kind == "assign" and d.index is None and isinstance(d.value, ast.Call) and id(d.value) in fr.calls for d in defs)

    def _note_cond(self, fr: _Frame, n: Node, e: ast.AST, depth: int) -> None:
        ex = fr.expanded[n.id] = fr.locs.expand(e, n)
        for leaf in _leaves(ex):
            if isinstance(leaf, ast.Constant):
                continue
            if isinstance(leaf, ast.Call):
                sub = self._helper_frame(fr, leaf, n, depth)
                if sub is not None:
                    fr.calls[id(leaf)] = sub
                    continue
            if self._flag_of_helper(fr, leaf, n):
                continue
            ren = _renamed(leaf, fr.mapping)
            if isinstance(ren, ast.Constant):
                continue
            key, _ = guards.canon(ren)
            self.atoms[key] = self.atoms.get(key, False) or bool(astq.names_in(ren) & set(self.m.request_params))

    def _collect(self, fr: _Frame, depth: int) -> None:
        nodes = sorted((n for n in fr.cfg.nodes if fr.inside(n)), key=lambda n: (n.lineno, n.id))
        for n in nodes:  # statements first: a flag must know its helper before the test that reads it is looked at
            if n.kind != "stmt":
                continue
            a = n.ast
            v = a.value if isinstance(a, (ast.Assign, ast.AnnAssign, ast.Expr)) else None
            if isinstance(v, ast.Call):
                sub = self._helper_frame(fr, v, n, depth)
                if sub is not None:
                    fr.calls[id(v)] = sub
        for n in nodes:
            if n.kind == "test":
                self._note_cond(fr, n, n.ast, depth)  # type: ignore[arg-type]
            elif n.kind == "stmt" and fr.region is None and isinstance(n.ast, ast.Return) and n.ast.value is not None:
                self._note_cond(fr, n, n.ast.value, depth)

    # -- execution for one valuation ----------------------------------
    def _classify(self, fr: _Frame, n: Node) -> str | None:
        m = self.m
        st = n.ast
        txt = lambda e: _text(fr.locs.expand(e, n), fr.mapping)  # noqa: E731
        if isinstance(st, ast.Expr) and isinstance(st.value, ast.Call):
            c = st.value
            if isinstance(c.func, ast.Attribute) and astq.is_name(c.func.value, m.H) and c.func.attr in ("update", "add", "__ior__"):
                return "record" if any(txt(a).startswith("$r.methods") for a in c.args) else "record-other"
        if isinstance(st, ast.AugAssign) and astq.is_name(st.target, m.H):
            return "record" if txt(st.value).startswith("$r.methods") else "record-other"
        if isinstance(st, ast.Assign) and any(astq.is_name(tg, m.W) for tg in st.targets):
            return "wsflag" if isinstance(st.value, ast.Constant) and st.value.value is True else "wsflag-other"
        return None

    def _truth(self, fr: _Frame, e: ast.AST, val: dict[str, bool], acts: set[str], env: dict[str, t.Any], strict: bool = True) -> bool | None:
        """value of a condition under the valuation, evaluated left to right with short-circuit (a helper that is not
        reached does not record anything).  strict=False: None for a leaf the valuation does not cover."""
        if isinstance(e, ast.BoolOp):
            is_and = isinstance(e.op, ast.And)
            for v in e.values:
                b = self._truth(fr, v, val, acts, env, strict)
                if b is None:
                    return None
                if b != is_and:
                    return b
            return is_and
        if isinstance(e, ast.UnaryOp) and isinstance(e.op, ast.Not):
            b = self._truth(fr, e.operand, val, acts, env, strict)
            return None if b is None else not b
        if isinstance(e, ast.Constant):
            return bool(e.value)
        if isinstance(e, ast.Name) and isinstance(env.get(e.id), bool):
            return env[e.id]
        if isinstance(e, ast.Call) and id(e) in fr.calls:
            return self._invoke(fr.calls[id(e)], val, acts)
        # the rule itself (the loop variable, a local it was copied to, a parameter it was passed as) is not None
        held = {k for k, v in env.items() if v == "$r"}
        ren = _renamed(_unwalrus(e, held), {**fr.mapping, **{k: "$r" for k in held}})
        cp = astq.cmp_parts(ren)
        if isinstance(ren, ast.Constant):
            return bool(ren.value)
        if astq.is_name(ren, "$r"):
            return True
        if cp is not None and astq.is_name(cp[0], "$r") and astq.is_none(cp[2]) and isinstance(cp[1], (ast.Is, ast.IsNot, ast.Eq, ast.NotEq)):
            return isinstance(cp[1], (ast.IsNot, ast.NotEq))
        key, pos = guards.canon(ren)
        if key not in val:
            if strict:
                raise AnalysisError(f"{self.label}: condition atom `{key}` was not collected")
            return None
        return val[key] if pos else not val[key]

    def _invoke(self, sub: _Frame, val: dict[str, bool], acts: set[str]) -> bool:
        """run a helper for the rule: its recordings are added to acts, its answer is returned."""
        st, v = self._walk(sub, sub.cfg.entry, val, acts, {})
        if st == "ret":
            return bool(v)
        if st == "raise":
            raise _Propose()
        raise AnalysisError(f"{self.label}: helper {sub.name} ended in `{st}`")

    def _walk(self, fr: _Frame, n: Node, val: dict[str, bool], acts: set[str], env: dict[str, t.Any]) -> tuple[str, t.Any]:
        cfg = fr.cfg
        after = False  # a loop body was left through `break`: the statements behind the loop run for this rule
        for _ in range(400):
            if fr.head is not None and n is fr.head and not after:
                return "next", None
            if n is cfg.exit:
                return ("ret", False) if fr.region is None else ("leave", None)
            if n is cfg.raise_exit:
                return "raise", None
            if n.kind in ("entry",):
                n = cfg.succ(n, None)[0]
                continue
            if fr.region is not None and not fr.inside(n):
                after = True
            if n.kind == "test":
                if after:
                    truth = self._truth(fr, fr.locs.expand(n.ast, n), val, acts, env, strict=False)  # type: ignore[arg-type]
                    if truth is None:
                        if fr.follow:
                            raise AnalysisError(f"{self.label}: cannot decide `{norm(n.ast)[:60]}`, which stands between the rule the helper returns and the statement that returns it")
                        return "leave", None
                else:
                    truth = self._truth(fr, fr.expanded[n.id], val, acts, env)
                s = cfg.succ(n, "T" if truth else "F")
                if not s:
                    return "dead", None
                n = s[0]
                continue
            if n.kind != "stmt":
                if after and fr.follow:
                    raise AnalysisError(f"{self.label}: the rule the helper returns runs into `{n.text()[:40]}` before it is returned; cannot follow it")
                if after:
                    return "leave", None
                raise AnalysisError(f"{self.label}: unexpected `{n.kind}` node ({n.text()[:40]}) inside {fr.name}")
            a = n.ast
            if isinstance(a, ast.Return):
                if fr.region is None:
                    if a.value is None:
                        return "ret", False
                    return "ret", self._truth(fr, fr.expanded[n.id], val, acts, env)
                carriers = ({fr.var} if fr.var else set()) | {k for k, v in env.items() if v == "$r"}
                hit = a.value is not None and bool(carriers & astq.names_in(a.value))
                return ("hit" if hit else "leave" if after else "return-other"), None
            if isinstance(a, ast.Raise) or cfg._is_noreturn_call(a):
                # a *proposal* for this rule (slash redirect), not a match: the path as given is not admitted,
                # so no 405 bookkeeping is owed for it (whether the proposal itself is method-guarded is C12-R12.5)
                if fr.region is None:
                    return "raise", None
                return ("leave" if after and not fr.follow else "propose"), None
            v = a.value if isinstance(a, (ast.Assign, ast.AnnAssign, ast.Expr)) else None
            if isinstance(v, ast.Call) and id(v) in fr.calls and not after:
                ans = self._invoke(fr.calls[id(v)], val, acts)
                for tg in (a.targets if isinstance(a, ast.Assign) else [a.target] if isinstance(a, ast.AnnAssign) else []):
                    if isinstance(tg, ast.Name):
                        env[tg.id] = ans
            elif isinstance(a, (ast.Assign, ast.AnnAssign)) and v is not None:
                carried = (fr.var is not None and astq.is_name(v, fr.var)) or (isinstance(v, ast.Name) and env.get(v.id) == "$r")
                for tg in (a.targets if isinstance(a, ast.Assign) else [a.target]):
                    if isinstance(tg, ast.Name):
                        if carried:
                            env[tg.id] = "$r"  # `found = rule`
                        else:
                            env.pop(tg.id, None)
            if not after:
                k = self._classify(fr, n)
                if k:
                    acts.add(k)
            s = cfg.succ(n, None)
            if not s:
                return "dead", None
            n = s[0]
        raise AnalysisError(f"{self.label}: simulation did not terminate")

    def _run(self, val: dict[str, bool]) -> frozenset[str]:
        acts: set[str] = set()
        nxt = self.cfg.succ(self.head, "T")
        if len(nxt) != 1:
            raise AnalysisError(f"{self.label}: loop head has {len(nxt)} body successors")
        try:
            for pf, cond, want in self.pre:
                if self._truth(pf, cond, val, acts, {}) != want:
                    return frozenset()  # filtered out before the body
            st, _ = self._walk(self.frame, nxt[0], val, acts, {})
        except _Propose:
            st = "propose"
        if st == "hit" and self.resume[0] != "hit":
            # the helper found the rule: does the call site return it?
            how, cfr, start, v = self.resume
            st = "hit-dropped"
            if how == "walk" and cfr is not None and start is not None and v is not None:
                st2, _ = self._walk(cfr, start, val, acts, {v: "$r"})
                st = st2 if st2 in ("hit", "propose") else "hit-dropped"
        return frozenset(acts if st == "next" else acts | {st})

    # -- queries on the truth table --
    def out(self, val: dict[str, bool]) -> frozenset[str]:
        return self.table[tuple(val[k] for k in self.keys)]

    def rows(self) -> t.Iterator[dict[str, bool]]:
        for bits in sorted(self.table):
            yield dict(zip(self.keys, bits))

    def admits(self, val: dict[str, bool]) -> bool:
        """some request (method, websocket) makes this loop return / propose the rule, the admission atoms being as in val."""
        for bits in itertools.product((False, True), repeat=len(self.request)):
            v = dict(val)
            v.update(zip(self.request, bits))
            if "hit" in self.out(v):
                return True
        return False

    def fmt(self, val: dict[str, bool], keys: t.Iterable[str] | None = None) -> str:
        return ", ".join(f"{k}={'T' if val[k] else 'F'}" for k in (keys or self.keys))


def _rule_loops(ctx: Ctx, m: _Matcher) -> list[_RuleLoop]:
    out = []
    cfgs: dict[int, CFG] = {id(m.search): m.search_cfg, id(m.match.node): m.match_cfg}
    locs: dict[int, _Locals] = {}
    helpers = HelperResolver(ctx.repo, m.match)
    for n in m.rule_loops:
        fn = _enclosing_func(n)
        if fn is None or isinstance(fn, ast.Lambda):
            raise AnalysisError(f"{m.match.fq}: rule loop at line {n.lineno} outside a function")
        if id(fn) not in cfgs:
            cfgs[id(fn)] = CFG(fn)
        if id(fn) not in locs:
            a = fn.args  # type: ignore[union-attr]
            locs[id(fn)] = _Locals(cfgs[id(fn)], [x.arg for x in [*a.posonlyargs, *a.args, *a.kwonlyargs]])
        if id(n) not in m.loop_sites:
            out.append(_RuleLoop(ctx, m, cfgs[id(fn)], locs[id(fn)], fn, n, helpers))
            continue
        for call, arg in m.loop_sites[id(n)]:  # one loop per call site of the helper, over what that site hands in
            caller = _enclosing_func(call)
            if caller is None or isinstance(caller, ast.Lambda):
                raise AnalysisError(f"{m.match.fq}: `{norm(call)[:60]}` is not called from a function")
            if id(caller) not in cfgs:
                cfgs[id(caller)] = CFG(caller)
            if id(caller) not in locs:
                ca = caller.args  # type: ignore[union-attr]
                locs[id(caller)] = _Locals(cfgs[id(caller)], [x.arg for x in [*ca.posonlyargs, *ca.args, *ca.kwonlyargs]])
            out.append(_RuleLoop(ctx, m, cfgs[id(fn)], locs[id(fn)], fn, n, helpers, (call, arg, cfgs[id(caller)], locs[id(caller)])))
    out.sort(key=lambda l: (getattr(l.at, "lineno", 0), getattr(l.at, "col_offset", 0)))
    return out


def _recording_sites(m: _Matcher) -> list[ast.AST]:
    """every statement of match() (closures included) that adds methods to H or sets W: the bookkeeping the rule loops
    are judged on."""
    out: list[ast.AST] = []
    for x in ast.walk(m.match.node):
        if isinstance(x, ast.Expr) and isinstance(x.value, ast.Call):
            c = x.value
            if isinstance(c.func, ast.Attribute) and astq.is_name(c.func.value, m.H) and c.func.attr in ("update", "add", "__ior__"):
                out.append(x)
        elif isinstance(x, ast.AugAssign) and astq.is_name(x.target, m.H):
            out.append(x)
        elif isinstance(x, ast.Assign) and m.W is not None and any(astq.is_name(tg, m.W) for tg in x.targets) and isinstance(x.value, ast.Constant) and x.value.value is True:
            out.append(x)
    return out


def _r32(ctx: Ctx, m: _Matcher) -> None:
    fi = m.match
    if m.H is None:
        raise AnalysisError(f"{fi.fq}: cannot identify the set that collects the methods of discarded rules")
    loops = _rule_loops(ctx, m)
    # how many loops there are is a matter of style (two loops that do the same may be one helper, a third one may be
    # folded in): the floors only guard against finding none; that no bookkeeping escapes the analysis is asked directly
    ctx.floor("R3.2", "loops over candidate rules in the search", sum(l.weight for l in loops), 1)
    hitting = [l for l in loops if any(("hit" in o or "propose" in o) for o in l.table.values())]
    ctx.floor("R3.2", "rule loops that can return / propose a rule", sum(l.weight for l in hitting), 1)
    seen = set().union(*[l.covered for l in loops]) if loops else set()
    stray = [x for x in _recording_sites(m) if id(x) not in seen]
    if stray:
        raise AnalysisError(f"{fi.fq}: `{norm(stray[0])[:60]}` (line {getattr(stray[0], 'lineno', '?')}) records methods / a websocket mismatch outside every loop over candidate rules the analysis follows")
    for l in loops:
        odd = sorted({a for o in l.table.values() for a in o if a in ("record-other", "wsflag-other", "return-other", "dead")})
        if odd:
            raise AnalysisError(f"{l.label}: statement shapes not understood: {odd}")
    # (A) recording only for admitted rules
    for l in loops:
        if not any(o & {"record", "wsflag"} for o in l.table.values()):
            continue
        bad = None
        for v in l.rows():
            o = l.out(v)
            if o & {"record", "wsflag"} and not l.admits(v):
                bad = (v, o)
                break
        ctx.ob(
            "R3.2", f"{l.label}: methods / websocket mismatch are recorded only for rules that admit the path", bad is None,
            (f"path-admission atoms {l.admission or '(none)'}; every row that records has a row with the same admission atoms that returns the rule"
             if bad is None else
             f"row [{l.fmt(bad[0])}] performs {sorted(bad[1])} although no method / websocket makes the loop return a rule with admission atoms [{l.fmt(bad[0], l.admission)}]: a rule that does not admit the path is reported in have_match_for (405 instead of 404)"),
            fi, l.at, f"{l.label}: records only admitted rules",
        )
    # (B)+(C) an admitted rule discarded only because of its methods is recorded; siblings agree
    for l in hitting:
        bad_c = None
        for v in l.rows():
            o = l.out(v)
            if "hit" in o or not l.admits(v):
                continue
            # would it be a hit with only the method atoms changed?
            solely = False
            for bits in itertools.product((False, True), repeat=len(l.method_atoms)):
                v2 = dict(v)
                v2.update(zip(l.method_atoms, bits))
                if "hit" in l.out(v2):
                    solely = True
                    break
            if solely and "record" not in o:
                bad_c = (v, o)
                break
        bad_b = None
        for s in hitting:
            if s is l or bad_b is not None:
                continue
            keys = sorted(set(l.keys) | set(s.keys))
            for bits in itertools.product((False, True), repeat=len(keys)):
                u = dict(zip(keys, bits))
                if not (l.admits(u) and s.admits(u)):
                    continue
                ol, os_ = l.out(u), s.out(u)
                missing = sorted(a for a in ("record", "hit") if a in os_ and a not in ol)
                if missing:
                    bad_b = (s, u, missing)
                    break
        ok = bad_c is None and bad_b is None
        if ok:
            fact = f"atoms {l.keys}: every admitted rule that is discarded only because of {l.method_atoms or 'its methods'} is recorded; agrees with {len(hitting) - 1} sibling loop(s)"
        else:
            parts = []
            if bad_c is not None:
                parts.append(f"row [{l.fmt(bad_c[0])}]: the rule admits the path and only its methods exclude it, but the loop performs {sorted(bad_c[1]) or 'nothing'} - have_match_for is not updated (404 instead of 405)")
            if bad_b is not None:
                s, u, missing = bad_b
                parts.append(f"sibling `{s.label}` performs {missing} on row [{', '.join(k + '=' + ('T' if u[k] else 'F') for k in sorted(u))}] where this loop does not")
            fact = "; ".join(parts)
        ctx.ob("R3.2", f"{l.label}: a rule discarded because of its methods is recorded in {m.H} (siblings agree)", ok, fact, fi, l.at,
               f"{l.label}: discarded methods recorded")


# ----------------------------------------------------------------------
# R3.3


def _adapter_slots(ctx: Ctx) -> tuple[FuncInfo, CFG, list[ast.Call]]:
    """MapAdapter.match and the calls in it that run the matcher (`<map>._matcher.match(...)`, the receiver possibly
    held in a local)."""
    ad = ctx.repo.func("routing.map.MapAdapter.match")
    cfg = cfg_of(ad)
    ms = [c for c in astq.method_calls(ad.node, "match", nested=False) if _receiver(ad, c).endswith("._matcher")]
    if not ms:
        raise AnalysisError(f"{ad.fq}: no call of <map>._matcher.match")
    return ad, cfg, ms


def _exc_class(e: ast.AST | None) -> str | None:
    """last component of the exception class an expression evaluates to (`X(...)` or the class `X` itself)."""
    if e is None or is_opaque(e):
        return None
    d = dotted(e.func if isinstance(e, ast.Call) else e)
    return _last(d) if d else None


def _attribute_stores(cls: ClassInfo, init: FuncInfo) -> list[tuple[str, ast.AST]]:
    """(attribute, value expression) for what __init__ stores on self: `self.a = v` (also in tuple form),
    `setattr(self, "a", v)` / `object.__setattr__(self, "a", v)`, and a loop `for n, v in zip(<names>, <values>):
    setattr(self, n, v)` over written-out names (or the class's __slots__) and values, which is unrolled."""
    out: list[tuple[str, ast.AST]] = []

    def setattr_call(x: ast.AST) -> tuple[ast.AST, ast.AST] | None:
        if isinstance(x, ast.Call) and (dotted(x.func) or "") in ("setattr", "object.__setattr__", "super().__setattr__") and len(x.args) == 3 and astq.is_name(x.args[0], "self"):
            return x.args[1], x.args[2]
        return None

    def names_of(e: ast.AST) -> list[str] | None:
        if isinstance(e, ast.Attribute) and e.attr == "__slots__":  # NoMatch.__slots__ / self.__slots__ / type(self).__slots__
            e = cls.attrs.get("__slots__")  # type: ignore[assignment]
        if isinstance(e, (ast.Tuple, ast.List)) and all(isinstance(astq.const_str(x), str) for x in e.elts):
            return [astq.const_str(x) for x in e.elts]  # type: ignore[misc]
        return None

    def pairs(tg: ast.AST, v: ast.AST) -> None:
        if isinstance(tg, ast.Attribute) and astq.is_name(tg.value, "self"):
            out.append((tg.attr, v))
        elif isinstance(tg, (ast.Tuple, ast.List)) and isinstance(v, (ast.Tuple, ast.List)) and len(tg.elts) == len(v.elts):
            for t_, v_ in zip(tg.elts, v.elts):
                pairs(t_, v_)

    for st in walk_no_nested(init.node):
        if isinstance(st, ast.Assign):
            for tg in st.targets:
                pairs(tg, st.value)
        elif isinstance(st, ast.AnnAssign) and st.value is not None:
            pairs(st.target, st.value)
        elif isinstance(st, ast.For):
            it = st.iter
            body = [b for b in st.body if isinstance(b, ast.Expr)]
            sc = setattr_call(body[0].value) if len(st.body) == 1 and body else None
            if (sc is not None and isinstance(it, ast.Call) and astq.is_name(it.func, "zip") and len(it.args) == 2 and isinstance(st.target, ast.Tuple) and len(st.target.elts) == 2
                    and all(isinstance(x, ast.Name) for x in st.target.elts) and astq.is_name(sc[0], st.target.elts[0].id) and astq.is_name(sc[1], st.target.elts[1].id)):  # type: ignore[attr-defined]
                nms = names_of(it.args[0])
                if nms is not None and isinstance(it.args[1], (ast.Tuple, ast.List)):
                    out += list(zip(nms, it.args[1].elts))
        elif isinstance(st, ast.Expr):
            sc = setattr_call(st.value)
            if sc is not None and isinstance(astq.const_str(sc[0]), str):
                out.append((astq.const_str(sc[0]), sc[1]))  # type: ignore[arg-type]
    return out


def _r33(ctx: Ctx, m: _Matcher) -> None:
    repo = ctx.repo
    ad, cfg, ms = _adapter_slots(ctx)
    li = ad.module.local_imports(ad.node)

    def res(e: ast.AST | None) -> str:
        d = dotted(e.func if isinstance(e, ast.Call) else e) if e is not None else None
        return repo.resolve(ad.module, d, li) or "" if d else ""

    handlers = []
    for tr in walk_no_nested(ad.node):
        if isinstance(tr, ast.Try) and any(_inside(c, s) or c is s for c in ms for s in tr.body):
            for h in tr.handlers:
                types = h.type.elts if isinstance(h.type, ast.Tuple) else [h.type] if h.type is not None else []
                if any(_last(res(x)) == "NoMatch" for x in types):
                    handlers.append(h)
    if len(handlers) != 1 or handlers[0].name is None:
        raise AnalysisError(f"{ad.fq}: expected one `except NoMatch as e` around the matcher call, found {len(handlers)}")
    handler = handlers[0]
    hn = cfg.by_ast.get(id(handler), [None])[0]
    if hn is None:
        raise AnalysisError(f"{ad.fq}: handler has no CFG node")
    target = f"{handler.name}.have_match_for"
    helpers = HelperResolver(repo, ad)
    helpers.typed[handler.name] = repo.cls("routing.exceptions.NoMatch")  # `e.some_method()` runs NoMatch's method with self = e
    class_names = {c.name for c in repo.all_classes()}

    # which exception value leaves the handler when have_match_for is non-empty / empty: the handler is walked path by
    # path under both valuations; a raised name is followed back to the value it was given on that path
    exits: dict[bool, list[t.Any]] = {}
    for ne in (True, False):
        def decide(leaf: ast.AST, ne: bool = ne) -> bool | None:
            p = truthy_polarity(leaf, target)
            if p is None:
                cp = astq.cmp_parts(leaf)
                if astq.is_name(leaf, handler.name):
                    return True  # the caught exception object
                if cp is not None and astq.is_name(cp[0], handler.name) and astq.is_none(cp[2]) and isinstance(cp[1], (ast.Is, ast.IsNot)):
                    return isinstance(cp[1], ast.IsNot)
                if any(norm(x) == target for x in ast.walk(leaf)):
                    raise AnalysisError(f"{ad.fq}: the NoMatch handler tests `{norm(leaf)[:60]}`: a form of asking whether `{target}` is empty that the rule does not understand")
                return None
            return p == ne

        w = Walker(cfg, decide, helpers)
        xs = [x for x in w.run(hn, {}, skip_start=True) if x.kind != "loop"]
        if any(st.split(".")[0].split("[")[0] == handler.name for st in w.attr_stores):
            raise AnalysisError(f"{ad.fq}: the NoMatch handler assigns to attributes of `{handler.name}`")
        for x in xs:
            if x.kind == "caught":
                raise AnalysisError(f"{ad.fq}: a raise inside the NoMatch handler is caught again inside match(); not followed")
            if x.kind == "raise" and x.value is not None and (_exc_class(x.value) is None or _exc_class(x.value) not in class_names):
                raise AnalysisError(f"{ad.fq}: cannot determine which exception `{norm(x.node.ast)[:60] if x.node and x.node.ast is not None else '?'}` raises on the path {cfg.fmt_path(x.passed)[:200]}")
            if x.kind == "raise" and x.value is None and not (x.node is not None and isinstance(x.node.ast, ast.Raise)):
                raise AnalysisError(f"{ad.fq}: the NoMatch handler leaves through `{norm(x.node.ast)[:60] if x.node and x.node.ast is not None else '?'}`, which the rule cannot follow")
        exits[ne] = xs

    def cls_of(x: t.Any) -> str:
        if x.kind != "raise":
            return f"({x.kind})"
        return _exc_class(x.value) or "(re-raise)"

    def site(x: t.Any) -> ast.AST:
        return x.node.ast if x.node is not None and x.node.ast is not None else handler

    # 1: MethodNotAllowed only with a non-empty set; 3: NotFound only with an empty one
    for what, wrong_row, instance, construct in (
        ("MethodNotAllowed", False, "MethodNotAllowed is raised only when have_match_for is non-empty", "MethodNotAllowed guarded by have_match_for"),
        ("NotFound", True, "NotFound is raised only from the NoMatch handler with have_match_for empty", "NotFound guarded by empty have_match_for"),
    ):
        sites: dict[int, ast.AST] = {}
        for ne in (True, False):
            for x in exits[ne]:
                if cls_of(x) == what:
                    sites.setdefault(id(site(x)), site(x))
        if what == "NotFound":
            ctx.floor("R3.3", "exits of the NoMatch handler that raise NotFound", len(sites), 1)
        for sid, st in sorted(sites.items(), key=lambda p: getattr(p[1], "lineno", 0)):
            bad = [x for x in exits[wrong_row] if cls_of(x) == what and id(site(x)) == sid]
            ctx.ob("R3.3", instance, not bad,
                   (f"`{norm(st)[:70]}` lets {what} leave the handler only on paths on which `{target}` is {'empty' if wrong_row else 'non-empty'}" if not bad else
                    f"with `{target}` {'non-empty' if wrong_row else 'empty'} {what} leaves the handler: " + cfg.fmt_path(bad[0].passed)),
                   ad, st, construct)
        # the same exception raised where match() can get without a NoMatch (a raise that only the handler leads to
        # was judged above, wherever it is written)
        for r in astq.raises_of(ad.node):
            rn = cfg.node_of(r)
            if r.exc is None or rn is None or id(r) in sites or cfg.node_dominates(hn, rn):
                continue
            cands = [r.exc]
            if isinstance(r.exc, ast.Name):
                cands += [v for _, v in astq.assigns_to(ad.node, r.exc.id) if v is not None]
            if any(_exc_class(c) == what for c in cands):
                ctx.ob("R3.3", instance, False, f"`{norm(r)[:70]}` raises {what} on a path that does not come from the NoMatch handler", ad, r, construct)
    # 2: the 405 carries the recorded set
    seen_calls: set[str] = set()
    for x in exits[True] + exits[False]:
        if cls_of(x) != "MethodNotAllowed" or norm(x.value) in seen_calls:
            continue
        seen_calls.add(norm(x.value))
        arg = astq.arg_or_kw(x.value, 0, "valid_methods") if isinstance(x.value, ast.Call) else None
        uses = arg is not None and any(norm(y) == target for y in ast.walk(arg)) and not any(isinstance(y, (ast.BinOp, ast.IfExp, ast.Subscript, ast.Compare, ast.BoolOp)) for y in ast.walk(arg))
        ctx.ob("R3.3", "MethodNotAllowed lists exactly the recorded methods", uses,
               f"the exception that leaves the handler is `{norm(x.value)[:90]}`: valid_methods = {norm(arg) if arg is not None else None}", ad, site(x), "MethodNotAllowed carries have_match_for")
    # 4: a non-empty set always ends in MethodNotAllowed
    leaks = [x for x in exits[True] if cls_of(x) != "MethodNotAllowed"]
    ctx.ob("R3.3", "with have_match_for non-empty every path through the handler raises MethodNotAllowed", not leaks and bool(exits[True]),
           f"{len(exits[True])} path(s) through the handler with `{target}` non-empty, each raises MethodNotAllowed" if not leaks and exits[True] else
           (f"{cls_of(leaks[0])} leaves the handler on the path: " + cfg.fmt_path(leaks[0].passed) if leaks else "no path through the handler found"),
           ad, handler, "non-empty have_match_for always raises MethodNotAllowed")

    # plumbing: NoMatch stores its first argument under the attribute the handler reads; the matcher passes the set its loops update
    nm = repo.cls("routing.exceptions.NoMatch")
    init = nm.methods.get("__init__")
    if init is None:
        raise AnalysisError("NoMatch.__init__ missing")
    p1 = [p for p in init.params if p != "self"][:1]
    held = [v for a, v in _attribute_stores(nm, init) if a == "have_match_for"]
    if not held:
        raise AnalysisError(f"{init.fq}: cannot see where `have_match_for` is stored (plain assignment, setattr, or setattr over zip(<names>, <values>))")
    stored = all(astq.is_name(v, p1[0] if p1 else None) for v in held)
    ctx.ob("R3.3", "NoMatch stores its first argument as have_match_for", bool(p1) and stored, f"first parameter `{p1[0] if p1 else None}`; have_match_for is set to {[norm(v) for v in held]}", init, init.node, "NoMatch stores have_match_for")
    fi = m.match
    # one construction is enough (the raises may share a helper that builds the exception); zero = nothing to check
    ctx.floor("R3.3", "NoMatch(...) constructions in the matcher", len(m.nomatch_calls), 1)
    for c in m.nomatch_calls:
        a0 = c.args[0] if c.args else astq.kwarg(c, "have_match_for")
        ok = m.H is not None and astq.is_name(a0, m.H)
        ctx.ob("R3.3", "NoMatch is raised with the set the rule loops update", ok, f"`{norm(c)}`", fi, c, f"NoMatch gets {m.H or 'one set'}")
    if m.H is not None:
        # `H |= ...` updates the set in place; only true rebindings count
        binds = [(st, v) for st, v in astq.assigns_to(fi.node, m.H, nested=True) if not isinstance(st, ast.AugAssign)]
        ok = len(binds) == 1 and binds[0][1] is not None and norm(binds[0][1]) in ("set()", "{*()}") and _enclosing_func(binds[0][0]) is fi.node
        ctx.ob("R3.3", "have_match_for is one set, created empty per match() call and never rebound", ok,
               f"bindings of `{m.H}`: {[norm(st)[:50] for st, _ in binds]}", fi, binds[0][0] if binds else fi.node, f"{m.H} bound once to an empty set")
        shrink = [c for c in astq.calls(fi.node) if isinstance(c.func, ast.Attribute) and astq.is_name(c.func.value, m.H) and c.func.attr in ("clear", "discard", "remove", "pop", "difference_update", "intersection_update", "symmetric_difference_update")]
        shrink += [x for x in ast.walk(fi.node) if isinstance(x, ast.AugAssign) and astq.is_name(x.target, m.H) and isinstance(x.op, (ast.Sub, ast.BitAnd, ast.BitXor))]  # type: ignore[misc]
        ctx.ob("R3.3", "recorded methods are never removed again", not shrink, f"{[norm(c) for c in shrink]}", fi, shrink[0] if shrink else fi.node, f"{m.H} only grows")


# ----------------------------------------------------------------------
# R3.4


def _rejecting_converters(ctx: Ctx, scope: t.Callable[[ClassInfo], bool]) -> tuple[int, list[tuple[FuncInfo, list[ast.Raise], list[str]]]]:
    repo = ctx.repo
    base = repo.cls("routing.converters.BaseConverter")
    ve = repo.cls("routing.converters.ValidationError")
    classes = [c for c in repo.all_classes() if any(k.fq == base.fq for k in repo.mro(c)) and scope(c)]
    by_owner: dict[str, tuple[FuncInfo, list[ast.Raise], list[str]]] = {}
    for c in sorted(classes, key=lambda c: c.fq):
        owner, what = repo.lookup(c, "to_python")
        if not isinstance(what, FuncInfo):
            raise AnalysisError(f"{c.fq}.to_python does not resolve to a method")
        ctx.saw(what)
        rs = []
        for r in astq.raises_of(what.node):
            d = dotted(r.exc.func if isinstance(r.exc, ast.Call) else r.exc) if r.exc is not None else None
            fq = repo.resolve(what.module, d, what.module.local_imports(what.node)) if d else None
            rc = repo.try_cls(fq) if fq and fq.startswith("werkzeug") else None
            if rc is not None and any(k.fq == ve.fq for k in repo.mro(rc)):
                rs.append(r)
        if rs:
            ent = by_owner.setdefault(what.fq, (what, rs, []))
            ent[2].append(c.name)
    return len(classes), list(by_owner.values())


def _catches_validation(ctx: Ctx, fi: FuncInfo, h: ast.ExceptHandler) -> bool:
    if h.type is None:
        return True
    types = h.type.elts if isinstance(h.type, ast.Tuple) else [h.type]
    for tnode in types:
        nm = _last(dotted(tnode))
        if nm in ("ValidationError", "ValueError", "Exception", "BaseException"):
            return True
    return False


def _r34(ctx: Ctx, m: _Matcher, scope: t.Callable[[ClassInfo], bool], floor: bool = True) -> None:
    fi = m.match
    nclasses, rejecting = _rejecting_converters(ctx, scope)
    if floor:
        ctx.floor("R3.4", "converter classes examined", nclasses, 8)
    sites = [c for c in astq.calls(fi.node) if isinstance(c.func, ast.Attribute) and c.func.attr == "to_python"]
    # ... or in a private method / module function that match() hands the conversion to
    hr = HelperResolver(ctx.repo, fi)
    outside: dict[int, ast.AST] = {}
    for k in astq.calls(fi.node):
        r = hr.resolve(k)
        if r is not None and not _inside(r[0], fi.node) and r[0] is not fi.node:
            outside.setdefault(id(r[0]), r[0])
    for hf in outside.values():
        sites += [c for c in astq.calls(hf) if isinstance(c.func, ast.Attribute) and c.func.attr == "to_python"]
    if floor:
        ctx.floor("R3.4", "to_python call sites in the matcher", len(sites), 1)
    if not rejecting:
        ctx.ob("R3.4", "no converter rejects a value after its regex matched", True, f"{nclasses} converter classes, none raises ValidationError in to_python", fi, fi.node, "no late rejection")
        return
    for c in sites:
        fn = _enclosing_func(c)
        in_search = fn is m.search or (fn is not None and _inside(fn, m.search))
        cfg = m.search_cfg if fn is m.search else m.match_cfg if fn is fi.node else hr.cfg(fn)  # type: ignore[arg-type]
        # innermost try whose body contains the call and that has a handler for the exception
        handler = None
        cur = astq.parent(c)
        child: ast.AST = c
        while cur is not None and cur is not fn:
            if isinstance(cur, ast.Try) and any(child is s or _inside(child, s) or child is s for s in cur.body):
                hs = [h for h in cur.handlers if _catches_validation(ctx, fi, h)]
                if hs:
                    handler = hs[0]
                    break
            child = cur
            cur = astq.parent(cur)
        for owner, rs, users in rejecting:
            who = f"{owner.qualname} (used by {', '.join(users)})"
            cons = f"{owner.qualname} rejection does not end the match"
            guards = sorted({norm(astq.enclosing(r, (ast.If,)).test)[:70] if astq.enclosing(r, (ast.If,)) is not None else "unconditional" for r in rs})
            if handler is None:
                ctx.ob("R3.4", f"{who}: ValidationError is handled where to_python is called", False,
                       f"`{norm(c)[:60]}` is not inside a handler for ValidationError; raised under {guards}", fi, c, cons)
                continue
            hn = cfg.by_ast.get(id(handler), [None])[0]
            if hn is None:
                raise AnalysisError(f"{fi.fq}: no CFG node for the ValidationError handler")
            resume = [n for n in cfg.nodes if n.ast is not None and n.kind in ("stmt", "test") and any(isinstance(k.func, ast.Name) and k.func.id == m.search.name for k in astq.calls(n.ast, nested=False))]
            r_ = cfg.reach(hn, avoid_nodes=resume)
            if in_search:
                ends = cfg.raise_exit.id in r_
            else:
                ends = cfg.raise_exit.id in r_ or cfg.exit.id in r_
            w = None
            if ends:
                w = cfg.path(hn, cfg.raise_exit, avoid_nodes=resume) or cfg.path(hn, cfg.exit, avoid_nodes=resume)
            ctx.ob(
                "R3.4", f"{who}: a ValidationError from to_python resumes the search instead of ending the match", not ends,
                (f"handler at line {handler.lineno} returns control to the search" if not ends else
                 f"to_python raises ValidationError under {guards} on strings the regex accepted; the handler `except {norm(handler.type) if handler.type else ''}` leaves match() without trying the remaining candidates: "
                 + cfg.fmt_path(w or []) + " - another rule that admits the path is shadowed into NoMatch"),
                fi, handler, cons,
            )


# ----------------------------------------------------------------------
# R3.6: the merged-slashes retry belongs to maps with merge_slashes on


def _merges_slashes(ctx: Ctx, fi: FuncInfo, folder: Folder, c: ast.Call) -> bool:
    """`re.sub(P, "/", x)`, `re.compile(P).sub("/", x)`, `<P>.sub("/", x)` with a constant pattern that matches a run
    of slashes, or `x.replace("//", "/")`."""
    f = c.func
    li = fi.module.local_imports(fi.node)
    pat: t.Any = None
    repl: ast.AST | None = None
    d = dotted(f)
    try:
        if d and ctx.repo.resolve(fi.module, d, li) == "re.sub":
            if not c.args:
                return False
            pat = folder.expr(fi.module, c.args[0])
            repl = astq.arg_or_kw(c, 1, "repl")
        elif isinstance(f, ast.Attribute) and f.attr == "sub":
            pat = folder.expr(fi.module, f.value)
            repl = astq.arg_or_kw(c, 0, "repl")
        elif isinstance(f, ast.Attribute) and f.attr == "replace" and len(c.args) >= 2:
            return astq.const_str(c.args[0]) == "//" and astq.const_str(c.args[1]) == "/"
        else:
            return False
    except Unfoldable:
        return False
    if isinstance(pat, str):
        pat = RegexConst(pat, 0)
    if not isinstance(pat, RegexConst) or not isinstance(pat.pattern, str) or repl is None or astq.const_str(repl) != "/":
        return False
    try:
        return matches_const(pat, "//") and not matches_const(pat, "/") and not matches_const(pat, "a")
    except Exception:  # a pattern the re module rejects
        return False


def _evaluated(n: Node) -> list[ast.AST]:
    a = n.ast
    if a is None or n.kind in ("join", "handler"):
        return []
    if isinstance(a, (ast.For, ast.AsyncFor)):
        return [a.iter]
    if isinstance(a, (ast.With, ast.AsyncWith)):
        return [i.context_expr for i in a.items]
    if isinstance(a, (ast.FunctionDef, ast.AsyncFunctionDef, ast.ClassDef)):
        return []
    return [a]


def _r36(ctx: Ctx, m: _Matcher) -> None:
    fi, cfg = m.match, m.match_cfg
    folder = Folder(ctx.repo)
    rd = ReachingDefs(cfg, fi.params)
    al = guards.Aliases(cfg, rd)
    flag = "self.merge_slashes"
    local_funcs = {n.name for n in ast.walk(fi.node) if n is not fi.node and isinstance(n, (ast.FunctionDef, ast.AsyncFunctionDef))}

    # edges taken when the flag is true (the flag itself, `flag is True`, a local alias of it, ...)
    on_edges: list[tuple[Node, str]] = []
    for tn in cfg.tests():
        if tn.kind != "test":
            continue
        for e in (tn.ast, al.expand(tn.ast, tn)):
            pol = truthy_polarity(e, flag)
            if pol is not None:
                on_edges.append((tn, "T" if pol else "F"))
                break
    rebinds = [st for st in ast.walk(fi.node) if isinstance(st, (ast.Assign, ast.AugAssign, ast.AnnAssign)) and any(norm(tg) == flag for tg in (st.targets if isinstance(st, ast.Assign) else [st.target]))]
    if rebinds:
        raise AnalysisError(f"{fi.fq}: `{flag}` is assigned inside match(); its tests no longer speak about the map's setting")
    off_reach = cfg.reach(cfg.entry, avoid_edges=on_edges)

    def guarded(n: Node) -> bool:
        """no path on which every test of the flag takes its `off` edge reaches n"""
        return n.id not in off_reach

    def effectful(e: ast.AST) -> bool:
        """does evaluating e run the search (a closure of match(), a method of the matcher) or leave match()?"""
        for k in astq.calls(e):
            if isinstance(k.func, ast.Name) and k.func.id in local_funcs:
                return True
            if isinstance(k.func, ast.Attribute) and isinstance(k.func.value, ast.Name) and k.func.value.id == "self":
                return True
        return False

    merges = [c for c in astq.calls(fi.node) if _merges_slashes(ctx, fi, folder, c)]
    if not merges:
        raise AnalysisError(f"{fi.fq}: cannot find the statement that merges repeated slashes in the path (re.sub of a constant slash-run pattern with '/')")
    ctx.floor("R3.6", "slash-merging statements in the matcher", len(merges), 1)
    tainted: set[t.Any] = set()
    uses: dict[int, tuple[Node, str]] = {}
    for c in merges:
        F = _enclosing_func(c)
        if F is not fi.node:
            # inside a closure of match(): the closure's calls in match() are the uses
            if not isinstance(F, (ast.FunctionDef, ast.AsyncFunctionDef)) or _enclosing_func(F) is not fi.node:
                raise AnalysisError(f"{fi.fq}: slashes are merged inside a nested construct the rule does not follow")
            for k in astq.calls(fi.node, nested=False):
                if isinstance(k.func, ast.Name) and k.func.id == F.name:
                    kn = cfg.node_of(k)
                    if kn is None:
                        raise AnalysisError(f"{fi.fq}: no CFG node for `{norm(k)[:50]}`")
                    if _pure_binding(kn, k):
                        tainted.update(rd.gen[kn.id])
                    else:
                        uses[kn.id] = (kn, F.name + "(...)")
            continue
        n = cfg.node_of(c)
        if n is None:
            raise AnalysisError(f"{fi.fq}: no CFG node for `{norm(c)[:50]}`")
        if _pure_binding(n, None) and not effectful(n.ast.value):  # type: ignore[union-attr]
            tainted.update(rd.gen[n.id])
        else:
            uses[n.id] = (n, "the merged path")
    # everything the merged path flows into
    names = lambda: {d.name for d in tainted}  # noqa: E731
    changed = True
    while changed:
        changed = False
        for n in cfg.nodes:
            if n.id in uses:
                continue
            hit = None
            for root in _evaluated(n):
                for x in ast.walk(root):
                    if isinstance(x, ast.Name) and isinstance(x.ctx, ast.Load) and x.id in names() and rd.reaching(n, x.id) & tainted:
                        hit = x.id
            if hit is None:
                continue
            if _pure_binding(n, None) and not effectful(n.ast.value):  # type: ignore[union-attr]
                new = [d for d in rd.gen[n.id] if d not in tainted]
                if new:
                    tainted.update(new)
                    changed = True
                continue
            uses[n.id] = (n, f"`{hit}`")
            changed = True
    # a closure of match() that reads a tainted name as a free variable is outside what the flow above sees
    for F in ast.walk(fi.node):
        if F is fi.node or not isinstance(F, (ast.FunctionDef, ast.AsyncFunctionDef)):
            continue
        own = {a.arg for a in [*F.args.posonlyargs, *F.args.args, *F.args.kwonlyargs]} | {nm for nm in names() if astq.assigns_to(F, nm)}
        free = {x.id for x in ast.walk(F) if isinstance(x, ast.Name) and isinstance(x.ctx, ast.Load) and x.id in names()} - own
        if free and not any(_merges_slashes(ctx, fi, folder, k) for k in astq.calls(F)):
            raise AnalysisError(f"{fi.fq}: closure {F.name} reads {sorted(free)}, which may hold the merged path: flow not followed")
    ctx.floor("R3.6", "statements that use the merged path", len(uses), 1)
    for n, what in sorted(uses.values(), key=lambda p: p[0].lineno):
        ok = guarded(n)
        how = f"dominated by `{flag}` being true: {ok}"
        if not ok and what.startswith("`"):
            # the statement itself can also run with the flag off (a handler shared by both attempts, say), but it sees
            # the merged value only through definitions that are executed under the flag - and the flag does not change
            seen = {d for root in _evaluated(n) for x in ast.walk(root) if isinstance(x, ast.Name) and isinstance(x.ctx, ast.Load) for d in rd.reaching(n, x.id) if d in tainted}
            if seen and all(d.node is not None and guarded(d.node) for d in seen):
                ok = True
                how = f"reachable with `{flag}` off, but every definition through which it sees the merged path ({', '.join(sorted({'line ' + str(d.node.lineno) for d in seen if d.node is not None}))}) is executed only with `{flag}` true"
        ctx.ob(
            "R3.6", "the path with merged slashes is used only when the map-level merge_slashes is on", ok,
            f"`{norm(n.ast)[:70]}` uses {what}; {how}"
            + ("" if ok else " - with Map(merge_slashes=False) a path with doubled slashes is matched against the merged path: the retry's side exits (slash redirect, 405 bookkeeping) answer for a path no rule admits"),
            fi, n.ast, f"merged path used under merge_slashes: {norm(n.ast)[:60]}",
        )


# ----------------------------------------------------------------------
# R3.11: "no rule" is an answer of the search, not a shortcut around it


def _sure_calls(root: ast.AST, names: t.Collection[str]) -> list[ast.Call]:
    """calls `<name>(...)` with name in names that are evaluated whenever root is (not under a conditional expression's
    branches, the later operands of and / or, a comprehension, a lambda or a nested definition)."""
    out: list[ast.Call] = []

    def go(x: ast.AST) -> None:
        if isinstance(x, (ast.FunctionDef, ast.AsyncFunctionDef, ast.ClassDef, ast.Lambda, ast.ListComp, ast.SetComp, ast.DictComp, ast.GeneratorExp)):
            return
        if isinstance(x, ast.IfExp):
            go(x.test)
            return
        if isinstance(x, ast.BoolOp):
            go(x.values[0])
            return
        if isinstance(x, ast.Call) and isinstance(x.func, ast.Name) and x.func.id in names:
            out.append(x)
        for ch in ast.iter_child_nodes(x):
            go(ch)

    go(root)
    return out


def _r311(ctx: Ctx, m: _Matcher) -> None:
    fi = m.match
    search = m.search
    closures = [F for F in ast.walk(fi.node) if F is not fi.node and isinstance(F, (ast.FunctionDef, ast.AsyncFunctionDef)) and F is not search and not _inside(F, search)]
    by_name: dict[str, list[ast.AST]] = {}
    for F in [search, *closures]:
        by_name.setdefault(F.name, []).append(F)
    if any(len(v) > 1 for v in by_name.values()):
        raise AnalysisError(f"{fi.fq}: two functions nested in match() share a name; calls cannot be attributed")
    cfgs: dict[int, CFG] = {id(fi.node): m.match_cfg, id(search): m.search_cfg}

    def cfg_for(F: ast.AST) -> CFG:
        if id(F) not in cfgs:
            cfgs[id(F)] = CFG(F)
        return cfgs[id(F)]

    def running(c: CFG, names: t.Collection[str]) -> list[Node]:
        return [n for n in c.nodes if any(_sure_calls(r, names) for r in _evaluated(n))]

    def mentioning(c: CFG, names: t.Collection[str]) -> list[Node]:
        return [n for n in c.nodes if any(isinstance(x, ast.Name) and x.id in names for r in _evaluated(n) for x in ast.walk(r))]

    # closures of match() that run the search on every path to their normal exit / that may run it
    always: set[str] = {search.name}
    maybe: set[str] = {search.name}
    changed = True
    while changed:
        changed = False
        for F in closures:
            c = cfg_for(F)
            if F.name not in always and running(c, always) and c.all_paths_pass(c.entry, [c.exit], running(c, always)):
                always.add(F.name)
                changed = True
            if F.name not in maybe and any(isinstance(x, ast.Name) and x.id in maybe for x in ast.walk(F)):
                maybe.add(F.name)
                changed = True

    def status(F: ast.AST, node: Node, trail: tuple[int, ...] = (), own: bool = True) -> tuple[str, str]:
        """is the search run on every path from the entry of match() to `node` (a CFG node of F)?
        ok / before (no search can have run) / mixed (on some paths, or in a way not followed).
        own: a search run by `node` itself counts (not so for the call of a closure that raises before it searches)"""
        c = cfg_for(F)
        ran = [x for x in running(c, always) if own or x is not node]
        if c.all_paths_pass(c.entry, [node], ran):
            return "ok", ""
        if F is not fi.node:
            if id(F) in trail:
                return "mixed", f"{F.name}() is reached recursively"  # type: ignore[attr-defined]
            name = F.name  # type: ignore[attr-defined]
            sites = [k for k in astq.calls(fi.node) if isinstance(k.func, ast.Name) and k.func.id == name and not _inside(k, F)]
            other = [x for x in ast.walk(fi.node) if isinstance(x, ast.Name) and x.id == name and isinstance(x.ctx, ast.Load) and not _inside(x, F) and not any(x is k.func for k in sites)]
            if other:
                return "mixed", f"{name}() is handed on as a value"
            res = []
            for k in sites:
                G = _enclosing_func(k)
                if G is search or (G is not None and _inside(G, search)):
                    continue  # called from inside the search: the search is running
                if G is None or isinstance(G, ast.Lambda):
                    return "mixed", f"{name}() is called from a lambda"
                kn = cfg_for(G).node_of(k)
                if kn is None:
                    return "mixed", f"no CFG node for the call of {name}()"
                in_args = any(_sure_calls(a, always) for a in [*k.args, *[kw.value for kw in k.keywords]])
                res.append(status(G, kn, (*trail, id(F)), own=in_args))
            if any(r[0] == "before" for r in res):
                return next(r for r in res if r[0] == "before")
            if any(r[0] == "mixed" for r in res):
                return next(r for r in res if r[0] == "mixed")
            return "ok", ""
        touched = [x for x in mentioning(c, maybe) if own or x is not node]
        if touched and any(s.id == node.id or node.id in c.reach(s) for x in touched for s, _ in x.succs):
            w = c.path(c.entry, node, avoid_nodes=ran)
            return "mixed", "a path without a search that is certain to run: " + (c.fmt_path(w) if w else "?")
        w = c.path(c.entry, node)
        return "before", c.fmt_path(w) if w else ""

    # where NoMatch leaves: the raise statements in match() and in the closures / private functions that raise for it
    raises: list[tuple[ast.AST, Node, str]] = []
    inside_search = 0
    for k in m.nomatch_calls:
        F = _enclosing_func(k)
        if F is search or (F is not None and _inside(F, search)):
            inside_search += 1
            continue
        if F is None or isinstance(F, ast.Lambda):
            raise AnalysisError(f"{fi.fq}: NoMatch is built inside a lambda; where it is raised is not followed")
        c = cfg_for(F)
        n = c.node_of(k)
        if n is None:
            raise AnalysisError(f"{fi.fq}: no CFG node for `{norm(k)[:50]}`")
        # judged where it is built: the arguments (the flag above all) are read there, and a raise can only follow
        raises.append((F, n, f"`{norm(n.ast)[:70]}`"))
    # private functions outside match() that build NoMatch, called from match()
    mod = fi.module
    for G in [*m.cls.methods.values(), *mod.functions.values()]:
        if G is fi or not isinstance(G.node, (ast.FunctionDef, ast.AsyncFunctionDef)):
            continue
        if not any(_last(dotted(k.func)) == "NoMatch" for k in astq.calls(G.node)):
            continue
        is_method = G.name in m.cls.methods and m.cls.methods[G.name] is G
        for k in astq.calls(fi.node):
            hit = (is_method and isinstance(k.func, ast.Attribute) and k.func.attr == G.name and isinstance(k.func.value, ast.Name) and k.func.value.id == "self") or (
                not is_method and isinstance(k.func, ast.Name) and k.func.id == G.name and G.name not in by_name
            )
            if not hit:
                continue
            F = _enclosing_func(k)
            if F is search or (F is not None and _inside(F, search)):
                inside_search += 1
                continue
            if F is None or isinstance(F, ast.Lambda):
                raise AnalysisError(f"{fi.fq}: {G.name}() (builds NoMatch) is called from a lambda")
            n = cfg_for(F).node_of(k)
            if n is None:
                raise AnalysisError(f"{fi.fq}: no CFG node for `{norm(k)[:50]}`")
            raises.append((F, n, f"`{norm(n.ast)[:70]}` ({G.name}() builds NoMatch)"))
    if inside_search:
        ctx.note(f"R3.11: {inside_search} NoMatch construction(s) inside the search function itself are not judged (the search is running there)")
    ctx.floor("R3.11", "places in the matcher where NoMatch is built / raised", len(raises), 1)
    seen: set[int] = set()
    for F, n, what in sorted(raises, key=lambda r: r[1].lineno):
        if n.id in seen and F is fi.node:
            continue
        seen.add(n.id)
        st, why = status(F, n)
        if st == "mixed":
            raise AnalysisError(f"{fi.fq}: cannot decide whether the search has run before {what}: {why}")
        ok = st == "ok"
        ctx.ob(
            "R3.11", "NoMatch is raised only after the search over the rules has been run", ok,
            f"{what}: every path from the entry of match() runs {search.name}() first: {ok}"
            + ("" if ok else f" ({why}) - the matcher answers 'no rule admits the path' without having looked at the rules: a path some rule admits (directly, after the slash redirect or - under merge_slashes - after merging repeated slashes) becomes a 404, and have_match_for is still empty, so a 405 becomes a 404 too"),
            fi, n.ast, f"NoMatch only after the search: {norm(n.ast)[:60]}",
        )


def _pure_binding(n: Node, call: ast.Call | None) -> bool:
    """n is `name = <expr>` (a plain local binding)."""
    a = n.ast
    if n.kind != "stmt":
        return False
    if isinstance(a, ast.Assign):
        return all(isinstance(tg, ast.Name) for tg in a.targets) and (call is None or a.value is call)
    if isinstance(a, ast.AnnAssign):
        return isinstance(a.target, ast.Name) and a.value is not None and (call is None or a.value is call)
    return False


# ----------------------------------------------------------------------
# R3.5


def _r35_function(ctx: Ctx, fi: FuncInfo) -> tuple[int, int]:
    """(stores examined, mutation sites examined) for one function."""
    repo = ctx.repo
    cfg = cfg_of(fi)
    rd = ReachingDefs(cfg, fi.params)
    muts = repo.mutators("list")
    binds = _bindings(fi.node, HelperResolver(repo, fi))
    # a local that is somewhere bound to a string literal holds text: a slice of it (`content = content[:-1]`) is no list
    text_locals = {nm for _, nm, v in binds if isinstance(v, ast.JoinedStr) or (isinstance(v, ast.Constant) and isinstance(v.value, (str, bytes)))}
    list_locals = {nm for _, nm, v in binds if _is_fresh_list(v)} - text_locals
    while True:  # a name bound to another list local holds a list too (the same object: no fresh list for it)
        more = {nm for _, nm, v in binds if isinstance(v, ast.Name) and v.id in list_locals} - list_locals - text_locals
        if not more:
            break
        list_locals |= more
    stores: list[tuple[ast.Call, str, Node, str]] = []  # the list object itself is handed to the constructor
    copies: list[tuple[ast.Call, str, str]] = []  # an element-for-element copy is handed over
    for site in _ctor_sites(ctx, fi):
        c = site.site
        node = cfg.node_of(c)
        if node is None:
            continue
        seen_here: set[str] = set()
        for a in list(site.eff.args) + [k.value for k in site.eff.keywords]:
            if isinstance(a, ast.Name) and a.id not in seen_here:
                # a local that is (somewhere in the function) bound to a fresh list
                if rd.reaching(node, a.id) and a.id in list_locals:
                    seen_here.add(a.id)
                    stores.append((c, a.id, node, site.callee))
            elif _copied_list(a) in list_locals and _copied_list(a) not in seen_here:
                seen_here.add(_copied_list(a))  # type: ignore[arg-type]
                copies.append((c, _copied_list(a), site.callee))  # type: ignore[arg-type]
    if not stores and not copies:
        return 0, 0
    names = {nm for _, nm, _, _ in stores} | {nm for _, nm, _ in copies}
    mut_sites: dict[str, list[tuple[ast.AST, Node]]] = {nm: [] for nm in names}
    kills: dict[str, list[Node]] = {nm: [] for nm in names}
    for n in cfg.nodes:
        a = n.ast
        if a is None or n.kind not in ("stmt", "test", "loop", "with"):
            continue
        scan = [a.iter] if isinstance(a, (ast.For, ast.AsyncFor)) else [i.context_expr for i in a.items] if isinstance(a, (ast.With, ast.AsyncWith)) else [a]
        for root in scan:
            for x in [root, *walk_no_nested(root)]:
                if isinstance(x, ast.Call) and isinstance(x.func, ast.Attribute) and isinstance(x.func.value, ast.Name) and x.func.value.id in names and x.func.attr in muts:
                    mut_sites[x.func.value.id].append((x, n))
                elif isinstance(x, ast.AugAssign) and isinstance(x.target, ast.Name) and x.target.id in names:
                    mut_sites[x.target.id].append((x, n))
                elif isinstance(x, ast.Subscript) and isinstance(x.value, ast.Name) and x.value.id in names and isinstance(x.ctx, (ast.Store, ast.Del)):
                    mut_sites[x.value.id].append((astq.stmt_of(fi, x) or x, n))
        if isinstance(a, ast.Assign) and len(a.targets) > 1 and _is_fresh_list(a.value) and any(isinstance(tg, ast.Name) and tg.id in names for tg in a.targets):
            # one new list bound to several names: not a fresh list for each of them
            ctx.ob("R3.5", "every weight list is an object of its own", False,
                   f"`{norm(a)}` binds one list object to {len(a.targets)} names; what is appended through one shows up in the other",
                   fi, a, f"shared fresh list {norm(a)}")
    for st, nm, v in binds:
        if nm in names and _is_fresh_list(v):
            kn = cfg.node_of(st)
            if kn is not None:
                kills[nm].append(kn)
    for c, nm, callee in copies:
        ctx.ob("R3.5", f"list `{nm}` stored into {callee}(...) is not mutated afterwards", True,
               f"`{norm(c)[:80]}` stores a copy of `{nm}`: later changes of `{nm}` ({len(mut_sites[nm])} mutation site(s)) cannot reach the part", fi, c, f"{nm} stored in {callee} stays frozen")
    for c, nm, node, callee in stores:
        r = cfg.reach(node, avoid_nodes=kills[nm])
        hits = [(x, n) for x, n in mut_sites[nm] if n.id in r and n is not node]
        if not hits:
            ctx.ob("R3.5", f"list `{nm}` stored into {callee}(...) is not mutated afterwards", True,
                   f"{len(mut_sites[nm])} mutation site(s) of `{nm}`, none reachable from the store without passing a rebinding to a fresh list ({len(kills[nm])} rebinding(s))",
                   fi, c, f"{nm} stored in {callee} stays frozen")
            continue
        for x, n in hits:
            w = cfg.path(node, n, avoid_nodes=kills[nm])
            ctx.ob("R3.5", f"list `{nm}` stored into {callee}(...) is not mutated afterwards", False,
                   f"`{norm(x)}` (line {getattr(x, 'lineno', '?')}) mutates the very list object an already built {callee} holds - parts share / lose their weights; path without a fresh rebinding: {cfg.fmt_path(w or [])}",
                   fi, x, f"{nm} stored in {callee} then mutated by {norm(x)}")
    # (a list that only ever changes by being rebound to a new list has no mutation site: the rebindings count)
    return len(stores) + len(copies), sum(len(v) for v in mut_sites.values()) + sum(len(v) for v in kills.values())


def _r35(ctx: Ctx, funcs: list[FuncInfo], floor: bool = True) -> None:
    ns = nm = 0
    for fi in funcs:
        a, b = _r35_function(ctx, fi)
        ns += a
        nm += b
    if floor:
        # a part has a list of literal weights and a list of converter weights; how many constructions they are stored
        # by (two today) depends on how the parser is factored, so the floors only exclude "nothing found"
        ctx.floor("R3.5", "lists stored into Weighting / RulePart", ns, 2)
        ctx.floor("R3.5", "sites that change / rebind those lists", nm, 1)


def _weighting_builders(ctx: Ctx, module_filter: t.Callable[[str], bool]) -> list[FuncInfo]:
    out = []
    allf = ctx.repo.all_functions()
    # names of helpers that merely build and return such an object: a function calling one of them is a builder too
    # (only a module whose text names one of the classes can construct it)
    naming = {mn for mn, mod in ctx.repo.modules.items() if any(c in mod.source for c in CTORS)}
    via = {f.node.name for f in allf if f.module.name in naming and _ctor_built(ctx, f.node)}  # type: ignore[attr-defined]
    for fi in allf:
        if not module_filter(fi.module.name):
            continue
        if fi.module.name not in naming and not via:
            continue
        cs = astq.calls(fi.node, nested=False)
        if any(_last(dotted(c.func)) in CTORS for c in cs) or (any(_last(dotted(c.func)) in via for c in cs) and _ctor_sites(ctx, fi)):
            out.append(fi)
    return sorted(out, key=lambda f: f.fq)


# ----------------------------------------------------------------------
# R3.7 / R3.8: what the parser writes into a dynamic part's regex against how the matcher reads it


def _regex_applications(ctx: Ctx, m: _Matcher) -> tuple[list[tuple[str, ast.Call]], bool]:
    """how match() applies a part's `content` as a regular expression: (re method, the call) for every application, and
    whether the end position of the match object is looked at anywhere (a hand-made full-match test)."""
    fi = m.match
    repo = ctx.repo
    hr = HelperResolver(repo, fi)
    apps: list[tuple[str, ast.Call]] = []
    METHODS = ("match", "fullmatch", "search")

    def compiled_by(call: ast.Call, arg: ast.AST, depth: int = 0) -> bool:
        """the call returns `re.compile(arg)`: written out, or a private helper all of whose returns do that with the
        parameter arg is bound to (a cache in front of re.compile)."""
        if re_function(repo, fi, call) == "compile":
            return bool(call.args) and call.args[0] is arg
        if isinstance(call.func, ast.Name) and call.func.id in fi.module.assigns and call.func.id not in hr.closures:
            # a module-level alias: `_compile = re.compile`, `_compile = lru_cache(maxsize=None)(re.compile)`
            def is_compile(v: ast.AST) -> bool:
                d = dotted(v)
                if d is not None:
                    return repo.resolve(fi.module, d) == "re.compile"
                return isinstance(v, ast.Call) and len(v.args) == 1 and not v.keywords and is_compile(v.args[0]) and (dotted(v.func) or dotted(getattr(v.func, "func", None)) or "").rsplit(".", 1)[-1] in ("lru_cache", "cache")

            vals = fi.module.assigns[call.func.id]
            return bool(vals) and all(is_compile(v) for v in vals) and bool(call.args) and call.args[0] is arg
        r = hr.resolve(call)
        if r is None or depth > 1:
            return False
        bound = bind_call(r[0], call, r[1])
        if bound is None:
            return False
        params = [k for k, v in bound.items() if v is arg]
        rets = astq.returns_of(r[0])
        if len(params) != 1 or not rets or astq.assigns_to(r[0], params[0]):
            return False
        n_compiled = 0
        pending: list[tuple[str, ast.AST]] = []
        for rt in rets:
            vals = _values_of(r[0], rt.value) if rt.value is not None else []
            if not vals:
                return False
            for v in vals:
                if isinstance(v, ast.Call) and _last(dotted(v.func)) == "compile" and v.args and astq.is_name(v.args[0], params[0]):
                    n_compiled += 1
                    continue
                # read from a cache keyed by the same parameter: `cache.get(p)`, `cache[p]`, `cache.setdefault(p, re.compile(p))`
                box = None
                if isinstance(v, ast.Subscript) and astq.is_name(v.slice, params[0]):
                    box = v.value
                elif isinstance(v, ast.Call) and isinstance(v.func, ast.Attribute) and v.func.attr in ("get", "setdefault") and v.args and astq.is_name(v.args[0], params[0]):
                    box = v.func.value
                    if v.func.attr == "setdefault":
                        d = v.args[1] if len(v.args) == 2 else None
                        if not (isinstance(d, ast.Call) and _last(dotted(d.func)) == "compile" and d.args and astq.is_name(d.args[0], params[0])):
                            return False
                        n_compiled += 1
                if box is None or not (isinstance(box, ast.Name) or (isinstance(box, ast.Attribute) and astq.is_name(box.value, "self"))):
                    return False
                pending.append((norm(box), v))
        if not n_compiled:
            return False
        for text, site in pending:
            containers.setdefault(text, site)
        return True

    PASSIVE = ("pattern", "groupindex", "groups", "flags")
    containers: dict[str, ast.AST] = {}  # text of a mapping expression the compiled patterns are kept in -> a site
    followed: set[int] = set()

    def kept_in(target: ast.AST) -> None:
        """the compiled pattern is stored as `X[key] = ...`: X becomes a cache whose every reader is followed too."""
        if not isinstance(target, ast.Subscript):
            raise AnalysisError(f"{fi.fq}: the compiled regex of a rule part is stored in `{norm(target)[:60]}`: cannot tell how it is applied")
        containers.setdefault(norm(target.value), target)

    def uses_of(nm: str, F: ast.AST, what: str) -> int:
        """every load of the local `nm` (bound to a compiled pattern) in F: applications are recorded; a store into a
        mapping makes the mapping a cache; anything else is not understood."""
        n_uses = 0
        for x in ast.walk(F):
            if not (isinstance(x, ast.Name) and x.id == nm and isinstance(x.ctx, ast.Load)):
                continue
            px = astq.parent(x)
            if isinstance(px, ast.Attribute) and px.value is x:
                ppx = astq.parent(px)
                if px.attr in METHODS and isinstance(ppx, ast.Call) and ppx.func is px:
                    apps.append((px.attr, ppx))
                    n_uses += 1
                    continue
                if px.attr in PASSIVE:
                    continue
            if isinstance(px, ast.Compare):
                continue  # `pat is None`
            if isinstance(px, ast.Assign) and px.value is x and all(isinstance(tg, ast.Subscript) for tg in px.targets):
                for tg in px.targets:
                    kept_in(tg)  # `cache[key] = pat`
                continue
            if isinstance(px, ast.Call) and isinstance(px.func, ast.Attribute) and px.func.attr == "setdefault" and len(px.args) == 2 and px.args[1] is x:
                containers.setdefault(norm(px.func.value), px)
                value(px, what)  # what setdefault returns is a pattern of the cache again
                continue
            if isinstance(px, ast.Return) and F is not fi.node and F is not m.search:
                continue  # a helper returning the pattern: its call sites are followed by compiled_by / the caller
            raise AnalysisError(f"{fi.fq}: the compiled regex `{nm}` of a rule part is handed on (`{norm(px)[:60]}`): cannot tell how it is applied")
        return n_uses

    def value(pat: ast.AST, what: str) -> int:
        """pat evaluates to a compiled pattern (freshly compiled, or read from a cache): find how it is applied.
        Returns the number of applications found."""
        if id(pat) in followed:
            return 0
        followed.add(id(pat))
        p = astq.parent(pat)
        if isinstance(p, ast.Attribute) and p.value is pat:
            pc = astq.parent(p)
            if p.attr in METHODS and isinstance(pc, ast.Call) and pc.func is p:
                apps.append((p.attr, pc))
                return 1
            if p.attr in PASSIVE:
                return 0
            raise AnalysisError(f"{fi.fq}: a rule part's compiled regex is used through `.{p.attr}`: cannot tell how it is anchored")
        if isinstance(p, ast.Compare):
            return 0
        F = _enclosing_func(pat) or fi.node
        if isinstance(p, ast.Assign) and p.value is pat:
            # `pat = cache[key] = re.compile(...)`: names are followed, subscripts make a cache
            n = 0
            names = [tg.id for tg in p.targets if isinstance(tg, ast.Name)]
            for tg in p.targets:
                if not isinstance(tg, ast.Name):
                    kept_in(tg)
            for nm_ in names:
                n += uses_of(nm_, F, what)
            if names and n == 0 and what == "compiled":
                raise AnalysisError(f"{fi.fq}: the compiled regex `{names[0]}` of a rule part is never applied")
            return n
        if isinstance(p, ast.Call) and isinstance(p.func, ast.Attribute) and p.func.attr == "setdefault" and len(p.args) == 2 and p.args[1] is pat:
            containers.setdefault(norm(p.func.value), p)
            return value(p, what)
        nm, _ = _bound_name(pat) if isinstance(pat, (ast.Call, ast.Subscript)) else (None, None)
        if nm is None:
            raise AnalysisError(f"{fi.fq}: cannot tell how the compiled regex `{norm(pat)[:60]}` of a rule part is applied")
        n = uses_of(nm, F, what)
        if n == 0 and what == "compiled":
            raise AnalysisError(f"{fi.fq}: the compiled regex `{nm}` of a rule part is never applied")
        return n

    def follow(pat: ast.AST) -> None:
        value(pat, "compiled")

    def follow_caches() -> None:
        """every reader of a mapping that holds compiled part patterns applies what it reads like a pattern: the
        mapping is looked for in the whole class (an attribute of self) or in the function (a local)."""
        done: set[str] = set()
        while set(containers) - done:
            text = sorted(set(containers) - done)[0]
            done.add(text)
            scopes: list[ast.AST] = [fi.node]
            if text.startswith("self.") and text[5:].isidentifier() and fi.cls is not None:
                scopes = [fi.cls.node]
            elif not text.isidentifier():
                raise AnalysisError(f"{fi.fq}: compiled part regexes are kept in `{text}`: cannot find every reader of it")
            elif text in fi.module.assigns:
                scopes = [fi.module.tree]
            for sc in scopes:
                for x in ast.walk(sc):
                    if not (isinstance(x, (ast.Attribute, ast.Name)) and isinstance(getattr(x, "ctx", None), ast.Load) and norm(x) == text):
                        continue
                    px = astq.parent(x)
                    if isinstance(px, ast.Subscript) and px.value is x:
                        if isinstance(px.ctx, ast.Load):
                            value(px, "cached")
                        continue  # a store / del of an entry
                    if isinstance(px, ast.Attribute) and px.value is x:
                        pc = astq.parent(px)
                        if isinstance(pc, ast.Call) and pc.func is px:
                            if px.attr in ("get", "setdefault", "pop"):
                                value(pc, "cached")
                                continue
                            if px.attr in ("clear", "keys", "__contains__", "__len__"):
                                continue
                        raise AnalysisError(f"{fi.fq}: the cache `{text}` of compiled part regexes is used through `.{px.attr}`: cannot tell how the patterns in it are applied")
                    if isinstance(px, ast.Compare) or (isinstance(px, ast.Call) and _last(dotted(px.func)) in ("len", "bool")):
                        continue  # `key in cache`, `len(cache)`
                    raise AnalysisError(f"{fi.fq}: the cache `{text}` of compiled part regexes is handed on (`{norm(px)[:60]}`): cannot tell how the patterns in it are applied")

    for x in ast.walk(fi.node):
        if not (isinstance(x, ast.Attribute) and x.attr == "content" and isinstance(x.ctx, ast.Load)):
            continue
        src: ast.AST = x
        p = astq.parent(src)
        # through a local: `pattern = part.content`
        if isinstance(p, (ast.Assign, ast.AnnAssign, ast.NamedExpr)) and p.value is src:
            nm = p.targets[0].id if isinstance(p, ast.Assign) and len(p.targets) == 1 and isinstance(p.targets[0], ast.Name) else getattr(getattr(p, "target", None), "id", None)
            if nm is None:
                raise AnalysisError(f"{fi.fq}: `{norm(p)[:60]}`: cannot follow a rule part's content")
            F = _enclosing_func(src) or fi.node
            loads = [y for y in ast.walk(F) if isinstance(y, ast.Name) and y.id == nm and isinstance(y.ctx, ast.Load)]
            srcs: list[ast.AST] = list(loads)
        else:
            srcs = [src]
        for sx in srcs:
            px = astq.parent(sx)
            if isinstance(px, ast.keyword):
                px = astq.parent(px)
            if not isinstance(px, ast.Call) or px.func is sx:
                if isinstance(px, (ast.Compare, ast.Subscript, ast.JoinedStr, ast.FormattedValue)):
                    continue  # compared / used as a key / shown: not a regex application
                raise AnalysisError(f"{fi.fq}: `{norm(px)[:60] if px is not None else norm(sx)}`: cannot tell how the matcher uses a rule part's content")
            rf = re_function(repo, fi, px)
            if rf in METHODS and px.args and px.args[0] is sx:
                apps.append((rf, px))
            elif compiled_by(px, sx):
                follow(px)
            elif rf is not None:
                raise AnalysisError(f"{fi.fq}: a rule part's content is applied through re.{rf}: not a form the rule reads")
            elif isinstance(px.func, ast.Attribute) and px.func.attr in ("get", "setdefault", "pop", "__contains__") or _last(dotted(px.func)) in ("len", "repr", "str", "print"):
                continue
            else:
                raise AnalysisError(f"{fi.fq}: `{norm(px)[:60]}`: cannot tell how the matcher uses a rule part's content")
    follow_caches()
    uniq: dict[int, tuple[str, ast.Call]] = {}
    for a in apps:
        uniq.setdefault(id(a[1]), a)
    apps = list(uniq.values())
    inspected = False
    for _, call in apps:
        nm, _ = _bound_name(call)
        if nm is None:
            continue
        F = _enclosing_func(call) or fi.node
        for y in ast.walk(F):
            if isinstance(y, ast.Attribute) and astq.is_name(y.value, nm) and y.attr in ("end", "span", "endpos", "regs"):
                inspected = True
    return apps, inspected


def _some(xs: list[str], n: int = 4) -> str:
    u = sorted(set(xs), key=lambda x: (len(x), x))
    return ", ".join(u[:n]) + (f", ... ({len(u)} endings)" if len(u) > n else "")


def _end_anchored(tail: str) -> bool:
    r"""the text ends in the end-of-string assertion `\Z` (an odd number of backslashes before the Z)."""
    if not tail.endswith("Z"):
        return False
    i = len(tail) - 2
    k = 0
    while i >= 0 and tail[i] == "\\":
        k += 1
        i -= 1
    return k % 2 == 1


def _strip_anchor(tail: str) -> str:
    while _end_anchored(tail):
        tail = tail[:-2]
    return tail


def _part_builders(ctx: Ctx) -> list[FuncInfo]:
    """the functions of werkzeug.routing from which a RulePart construction is reached (directly or through private
    helpers), callers before the functions they call."""
    repo = ctx.repo
    funcs = [f for f in repo.all_functions() if f.module.name.startswith("werkzeug.routing")]
    by_node = {id(f.node): f for f in funcs}
    callees: dict[str, list[FuncInfo]] = {}
    direct: set[str] = set()
    for f in funcs:
        if "RulePart" not in f.module.source and not any(k.startswith("werkzeug.routing.rules") for k in f.module.imports.values()):
            callees[f.fq] = []
            continue
        hr = HelperResolver(repo, f)
        outs: list[FuncInfo] = []
        for c in astq.calls(f.node, nested=True):
            if _ctor_name(_enclosing_func(c), c) == "RulePart":
                direct.add(f.fq)
                continue
            r = hr.resolve(c)
            if r is not None and id(r[0]) in by_node and by_node[id(r[0])] is not f:
                outs.append(by_node[id(r[0])])
        callees[f.fq] = outs
    builds: dict[str, bool] = {}

    def reach(f: FuncInfo, trail: tuple[str, ...]) -> bool:
        if f.fq in builds:
            return builds[f.fq]
        if f.fq in trail:
            return False
        r = f.fq in direct or any(reach(g, trail + (f.fq,)) for g in callees[f.fq])
        builds[f.fq] = r
        return r

    bs = [f for f in funcs if reach(f, ())]
    # callers first: order by the longest call chain below
    depth: dict[str, int] = {}

    def height(f: FuncInfo, trail: tuple[str, ...]) -> int:
        if f.fq in depth:
            return depth[f.fq]
        if f.fq in trail:
            return 0
        h = 1 + max([height(g, trail + (f.fq,)) for g in callees[f.fq] if builds.get(g.fq)] or [0])
        depth[f.fq] = h
        return h

    return sorted(bs, key=lambda f: (-height(f, ()), f.fq))


def _part_sites(ctx: Ctx) -> tuple[list[list[PartSite]], list[str]]:
    rp = ctx.repo.cls("routing.rules.RulePart")
    fields = [st.target.id for st in rp.node.body if isinstance(st, ast.AnnAssign) and isinstance(st.target, ast.Name)]
    for need in ("content", "static", "final", "suffixed"):
        if need not in fields:
            raise AnalysisError(f"routing.rules.RulePart has no field `{need}`")
    tf = TailFlow(ctx.repo, fields, lambda fn, c: _ctor_name(fn, c) == "RulePart")
    roots = _part_builders(ctx)
    if not roots:
        raise AnalysisError("no function of werkzeug.routing builds a RulePart")
    for f in roots:
        if f in tf.analysed:
            continue
        ctx.saw(f)
        tf.run(f)
    groups: dict[int, list[PartSite]] = {}
    for st in tf.sites:
        groups.setdefault(id(st.call), []).append(st)
    out = sorted(groups.values(), key=lambda g: (getattr(g[0].where, "fq", ""), g[0].call.lineno, g[0].call.col_offset))
    return out, fields


def _r37_r38(ctx: Ctx, m: _Matcher) -> None:
    apps, inspected = _regex_applications(ctx, m)
    ctx.floor("R3.7", "places where the matcher applies a rule part's content as a regex", len(apps), 1)
    methods = sorted({a for a, _ in apps})
    fi = m.match
    # reader: anchored at the start
    for meth, call in apps:
        ok = meth in ("match", "fullmatch")
        if not ok:
            rules_fi = ctx.repo.func("routing.rules.Rule._parse_rule")
            if any(isinstance(c, ast.Constant) and isinstance(c.value, str) and c.value.lstrip("(").startswith(("\\A", "^")) for c in ast.walk(rules_fi.node)):
                raise AnalysisError(f"{fi.fq}: the part regex is applied through re `{meth}` and the parser writes a start anchor: cannot decide whether every part has it")
        ctx.ob("R3.7", "the matcher applies a dynamic part's regex from the first character of the path segment", ok,
               f"`{norm(call)[:90]}` uses `{meth}`" + ("" if ok else ": it finds the converter's pattern anywhere inside the segment"), fi, call, "part regex applied at segment start")
    need_end = any(a != "fullmatch" for a in methods)
    groups, _fields = _part_sites(ctx)
    n_dyn = n_final = n_suff = 0
    for g in groups:
        call, where = g[0].call, g[0].where
        states = [(dict(s.fields), s.murky) for s in g]
        # ---- R3.7: end anchor of every dynamic part
        dyn = [(v, mk) for v, mk in states if v.get("static", DATA) != ("b", True)]
        if dyn:
            n_dyn += 1
            bad: list[str] = []
            good: list[str] = []
            unknown: list[str] = []
            for v, mk in dyn:
                cv, sv = v.get("content", DATA), v.get("static", DATA)
                if not is_s(cv):
                    raise AnalysisError(f"{getattr(where, 'fq', where)}: `{norm(call)[:70]}`: cannot follow how the content of this (possibly dynamic) part is put together")
                anchored = _end_anchored(cv[2])
                if anchored or not need_end:
                    good.append(show(cv))
                    continue
                if sv[0] != "b":
                    raise AnalysisError(f"{getattr(where, 'fq', where)}: `{norm(call)[:70]}`: cannot tell whether the part is static on the path on which its content ends in {show(cv)}")
                if mk:
                    raise AnalysisError(f"{getattr(where, 'fq', where)}: `{norm(call)[:70]}`: the content ends in {show(cv)} on a path through {list(mk)}, a condition the rule cannot read")
                if inspected:
                    raise AnalysisError(f"{fi.fq}: the matcher looks at the end position of the match object: cannot decide whether that replaces the end anchor missing in `{norm(call)[:60]}`")
                if not cv[1] and cv[2] in ("", "Z"):
                    # nothing (or too little) is known about the end of the text: by itself that is not a missing anchor
                    unknown.append(show(cv))
                    continue
                note = " (`$` also matches before a trailing newline: it is not an end anchor)" if cv[2].endswith("$") else ""
                bad.append(show(cv) + note)
            if unknown and not bad:
                raise AnalysisError(f"{getattr(where, 'fq', where)}: `{norm(call)[:70]}`: cannot follow what the content of this dynamic part ends in on some path ({_some(unknown)})")
            how = f"the matcher applies it with {methods}"
            ctx.ob("R3.7", "the regex of a dynamic part ends in the end-of-string anchor on every path that builds the part (the matcher anchors only the start)", not bad,
                   f"`{norm(call)[:80]}`: {how}; content ends in " + (f"{_some(bad)} on some path: a segment that merely starts with what the converter accepts is admitted" if bad else _some(good) + ("" if need_end else " (fullmatch: no anchor needed)")),
                   where, call, "end anchor of dynamic part | " + norm(call)[:100])
        # ---- R3.8: a final part never requires the trailing slash; a suffixed part captures the optional slash last
        fin = [(v, mk) for v, mk in states if v.get("final", DATA) == ("b", True) and v.get("static", DATA) != ("b", True)]
        if fin:
            n_final += 1
            bad = []
            seen_tails: list[str] = []
            for v, mk in fin:
                cv = v.get("content", DATA)
                if not is_s(cv):
                    raise AnalysisError(f"{getattr(where, 'fq', where)}: `{norm(call)[:70]}`: cannot follow how the content of this final part is put together")
                body = _strip_anchor(cv[2])
                seen_tails.append(show(cv))
                if body.endswith("/"):
                    if mk:
                        raise AnalysisError(f"{getattr(where, 'fq', where)}: `{norm(call)[:70]}`: the content ends in {show(cv)} on a path through {list(mk)}, a condition the rule cannot read")
                    bad.append(show(cv))
            ctx.ob("R3.8", "the regex of a final (slash-consuming) part never requires the rule's trailing slash: the matcher decides between match, redirect and strict_slashes only after the regex matched the path without it", not bad,
                   f"`{norm(call)[:80]}`: content ends in " + (f"{_some(bad)} on some path: the branch URL without its trailing slash is not found" if bad else _some(seen_tails)),
                   where, call, "final part does not require the slash | " + norm(call)[:100])
        suff = [(v, mk) for v, mk in states if v.get("suffixed", DATA) == ("b", True)]
        if suff:
            n_suff += 1
            bad = []
            unread: list[str] = []
            for v, mk in suff:
                cv = v.get("content", DATA)
                if not is_s(cv):
                    raise AnalysisError(f"{getattr(where, 'fq', where)}: `{norm(call)[:70]}`: cannot follow how the content of this suffixed part is put together")
                verdict = _optional_slash_group(cv[2], cv[1])
                if verdict is None:
                    unread.append(show(cv))
                    continue
                if not verdict:
                    if mk:
                        raise AnalysisError(f"{getattr(where, 'fq', where)}: `{norm(call)[:70]}`: suffixed content {show(cv)} on a path through {list(mk)}, a condition the rule cannot read")
                    bad.append(show(cv))
            if unread and not bad:
                raise AnalysisError(f"{getattr(where, 'fq', where)}: `{norm(call)[:70]}`: cannot read the end {_some(unread)} of the suffixed part's regex")
            ctx.ob("R3.8", "a part marked suffixed ends in a group that captures the optional trailing slash (the matcher reads the slash from the last group)", not bad,
                   f"`{norm(call)[:80]}`: " + (f"content ends in {_some(bad)}: its last group is not the optional slash" if bad else "last group captures '' / '/'"),
                   where, call, "suffixed part captures the slash | " + norm(call)[:100])
    ctx.floor("R3.7", "constructions of a dynamic rule part", n_dyn, 1)
    ctx.floor("R3.8", "constructions of a final rule part", n_final, 1)
    ctx.floor("R3.8", "constructions of a suffixed rule part", n_suff, 1)


def _optional_slash_group(tail: str, exact: bool = True) -> bool | None:
    """the regex text ends (before the end anchor) in a capturing group that matches the empty string and '/', and
    the group is the last one: decided with the re engine on the longest suffix of the known text that is a regex of
    its own.  None: cannot tell - no suffix parses, or (only the end of the text being known) the known end may be
    the tail of a group that opens in the part that is not known."""
    import re

    parsed = grouped = False
    for i in range(len(tail)):
        frag = tail[i:]
        if frag.startswith((")", "?", "*", "+", "|", "{")) or (i and tail[i - 1] == "\\"):
            continue
        try:
            rx = re.compile(frag)
        except re.error:
            continue
        parsed = True
        if rx.groups == 0:
            continue
        grouped = True
        ok = True
        for probe in ("", "/"):
            mm = rx.match(probe)
            if mm is None or mm.end() != len(probe) or mm.groups()[-1] != probe:
                ok = False
        if ok:
            return True
    if exact or grouped:
        return False  # the whole text, or at least its last capturing group, is in view
    body = _strip_anchor(tail)
    while body and body[-1] in "?*+":
        body = body[:-1]
    if body.endswith("}") and "{" in body:
        body = body[:body.rindex("{")]
    if not body:
        return None
    if body[-1] != ")":
        return False  # whatever precedes the known end: the text does not end in a group
    # the parenthesis that closes the text: is its opener in view?  (no capturing group is, so an opener in view is
    # a non-capturing one: the text does not end in a capturing group)
    stack: list[int] = []
    k, in_class = 0, False
    while k < len(body):
        ch = body[k]
        if ch == "\\":
            k += 2
            continue
        if in_class:
            in_class = ch != "]"
        elif ch == "[":
            in_class = True
        elif ch == "(":
            stack.append(k)
        elif ch == ")":
            if k == len(body) - 1:
                return False if stack else None
            if stack:
                stack.pop()
        k += 1
    return None


# ----------------------------------------------------------------------
# R3.9 / R3.10: sample maps and paths of the property's grammar, answered by symbolic execution of the source
#
# The interpreter of _c04_helpers runs the routing source on its syntax trees (werkzeug is never imported).  Here the
# whole configuration and the request paths are concrete, so a run has exactly one path and its outcome is a value:
# (endpoint, arguments), a redirect target, NotFound, or MethodNotAllowed with its methods.  The outcome is compared
# with what the rule strings denote (the reference is written next to every case).  Nothing in this section looks at
# how the routing code is spelled.

_UUID_TEXT = "12345678-9abc-4def-8123-456789abcdef"
_HOST = "example.org"


def _M(endpoint: str, **values: t.Any) -> tuple:
    return ("match", endpoint, values)


def _RD(path: str) -> tuple:
    return ("redirect", f"http://{_HOST}{path}")


_NF: tuple = ("notfound",)


def _405(*methods: str) -> tuple:
    return ("405", frozenset(methods))


def _flag_samples() -> list[dict[str, t.Any]]:
    out = []
    for strict in (True, False):
        for merge in (True, False):
            out.append({
                "id": f"map flags strict_slashes={strict}, merge_slashes={merge}", "group": "flags", "map_kw": {"strict_slashes": strict, "merge_slashes": merge},
                "rules": [("/a/b", {"endpoint": "ab"}), ("/d/", {"endpoint": "d"}), ("/p/<int:n>/c", {"endpoint": "pc"})],
                "inherit": {"strict_slashes": strict, "merge_slashes": merge},
                "cases": [
                    ("/a/b", None, _M("ab"), "the leaf rule /a/b admits its own path"),
                    ("/d/", None, _M("d"), "the branch rule /d/ admits its own path"),
                    ("/p/7/c", None, _M("pc", n=7), "/p/<int:n>/c admits /p/7/c"),
                    ("/a//b", None, _RD("/a/b") if merge else _NF, "a doubled slash: with merge_slashes the merged path /a/b is admitted (answer: redirect to it), without it no rule admits the path"),
                    ("/p/7//c", None, _RD("/p/7/c") if merge else _NF, "a doubled slash behind a variable: redirect to the merged path under merge_slashes, no rule otherwise"),
                    ("/p//7/c", None, _RD("/p/7/c") if merge else _NF, "a doubled slash before a variable: redirect to the merged path under merge_slashes, no rule otherwise"),
                    ("/a/b/", None, _NF if strict else _M("ab"), "a leaf rule admits the path with a trailing slash only when strict_slashes is off"),
                    ("/d", None, _RD("/d/") if strict else _M("d"), "a branch rule visited without its slash: redirect under strict_slashes, plain match otherwise"),
                    ("/a", None, _NF, "a proper prefix of a rule is admitted by no rule"),
                ],
            })
    return out


def _deep_slash_samples() -> list[dict[str, t.Any]]:
    """request paths that are several parts deeper than every rule of the map and still denote an admitted path once the
    runs of slashes are merged: two doubled slashes, a doubled slash plus a doubled trailing slash."""
    out = []
    for strict in (True, False):
        for merge in (True, False):
            rd = lambda p: _RD(p) if merge else _NF  # noqa: E731
            out.append({
                "id": f"several doubled slashes, strict_slashes={strict}, merge_slashes={merge}", "group": "deep", "map_kw": {"strict_slashes": strict, "merge_slashes": merge},
                "rules": [("/a/b/c", {"endpoint": "abc"}), ("/a/<int:n>/", {"endpoint": "an", "methods": ["POST"]}), ("/x", {"endpoint": "x"})],
                "cases": [
                    ("/a/b/c", None, _M("abc"), "the leaf rule /a/b/c admits its own path"),
                    ("/a/7/", "POST", _M("an", n=7), "the branch rule /a/<int:n>/ admits /a/7/ for POST"),
                    ("/a//b//c", None, rd("/a/b/c"), "two doubled slashes: the merged path /a/b/c is admitted under merge_slashes (redirect to it), no rule admits the path otherwise"),
                    ("/a//b//d", None, _NF, "no rule admits the path, merged or not"),
                    ("//a//b//c", None, rd("/a/b/c"), "leading slashes do not count; the rest merges to /a/b/c"),
                    ("/a//7//", "POST", rd("/a/7/"), "a doubled slash and a doubled trailing slash: merges to /a/7/, which the branch rule admits for POST"),
                    ("/a//7//", "GET", _405("POST") if merge else _NF, "merges to /a/7/, admitted only for POST: 405 listing POST under merge_slashes, no rule otherwise"),
                    ("/a//b//c//", None, _RD("/a/b/c/") if merge and not strict else _NF, "merges to /a/b/c/, which the leaf rule admits only when strict_slashes is off"),
                    ("/x//", None, _RD("/x/") if merge and not strict else _NF, "merges to /x/, which the leaf rule /x admits only when strict_slashes is off"),
                ],
            })
    return out


def _norm_samples() -> list[dict[str, t.Any]]:
    out = []
    for merge in (True, False):
        out.append({
            "id": f"leading slashes, merge_slashes={merge}", "group": "norm", "map_kw": {"merge_slashes": merge},
            "rules": [("/a", {"endpoint": "a"}), ("/b/<int:n>", {"endpoint": "b"}), ("/d/", {"endpoint": "d"}), ("/<path:rest>/end", {"endpoint": "e"})],
            "cases": [
                (k * "/" + rest, None, exp, f"a request path with {k} leading slash(es) is routed like the path with one")
                for rest, exp in (("a", _M("a")), ("b/5", _M("b", n=5)), ("d/", _M("d")), ("zz", _NF), ("x/y/end", _M("e", rest="x/y")))
                for k in (1, 2, 3)
            ],
        })
    return out


_CONVERTER_SAMPLE: dict[str, t.Any] = {
    "id": "converter options", "group": "conv", "map_kw": {},
    "rules": [
        ("/t/<v>", {"endpoint": "t"}), ("/s/<string(minlength=2):v>", {"endpoint": "s"}), ("/l/<string(length=2):v>", {"endpoint": "l"}),
        ("/x/<string(maxlength=2):v>", {"endpoint": "x"}), ("/r/<string(minlength=2, maxlength=3):v>", {"endpoint": "r"}),
        ("/i/<int:n>", {"endpoint": "i"}), ("/fd/<int(fixed_digits=2):n>", {"endpoint": "fd"}), ("/fl/<float:x>", {"endpoint": "fl"}),
        ("/any/<any(about, help):k>", {"endpoint": "any"}), ("/u/<uuid:u>", {"endpoint": "u"}), ("/w/pre<int:n>post", {"endpoint": "w"}),
        ("/files/<path:p>", {"endpoint": "files"}),
    ],
    "cases": [
        ("/t/a", None, _M("t", v="a"), "<v> admits a non-empty segment"),
        ("/t/a/b", None, _NF, "<v> admits one segment, not two"),
        ("/t/", None, _NF, "<v> does not admit the empty segment"),
        ("/s/a", None, _NF, "string(minlength=2) does not admit 1 character"),
        ("/s/ab", None, _M("s", v="ab"), "string(minlength=2) admits 2 characters"),
        ("/s/abcdefgh", None, _M("s", v="abcdefgh"), "string(minlength=2) has no upper bound"),
        ("/l/a", None, _NF, "string(length=2) does not admit 1 character"),
        ("/l/ab", None, _M("l", v="ab"), "string(length=2) admits 2 characters"),
        ("/l/abc", None, _NF, "string(length=2) does not admit 3 characters"),
        ("/x/a", None, _M("x", v="a"), "string(maxlength=2) admits 1 character"),
        ("/x/ab", None, _M("x", v="ab"), "string(maxlength=2) admits 2 characters"),
        ("/x/abc", None, _NF, "string(maxlength=2) does not admit 3 characters"),
        ("/r/a", None, _NF, "string(minlength=2, maxlength=3) does not admit 1 character"),
        ("/r/ab", None, _M("r", v="ab"), "string(minlength=2, maxlength=3) admits 2 characters"),
        ("/r/abc", None, _M("r", v="abc"), "string(minlength=2, maxlength=3) admits 3 characters"),
        ("/r/abcd", None, _NF, "string(minlength=2, maxlength=3) does not admit 4 characters"),
        ("/i/12", None, _M("i", n=12), "int admits digits"),
        ("/i/-1", None, _NF, "int (unsigned) does not admit a sign"),
        ("/i/1.5", None, _NF, "int does not admit a fraction"),
        ("/i/1x", None, _NF, "int does not admit a segment that merely starts with digits"),
        ("/fd/7", None, _NF, "int(fixed_digits=2) does not admit 1 digit"),
        ("/fd/07", None, _M("fd", n=7), "int(fixed_digits=2) admits 2 digits"),
        ("/fd/007", None, _NF, "int(fixed_digits=2) does not admit 3 digits"),
        ("/fl/1.5", None, _M("fl", x=1.5), "float admits digits.digits"),
        ("/fl/1", None, _NF, "float does not admit an integer"),
        ("/any/about", None, _M("any", k="about"), "any(about, help) admits an item"),
        ("/any/help", None, _M("any", k="help"), "any(about, help) admits an item"),
        ("/any/abou", None, _NF, "any(about, help) does not admit a prefix of an item"),
        ("/any/aboutx", None, _NF, "any(about, help) does not admit an item with a suffix"),
        ("/u/" + _UUID_TEXT, None, ("match", "u", {"u": ("uuid", _UUID_TEXT)}), "uuid admits a canonical UUID"),
        ("/u/1234", None, _NF, "uuid does not admit other text"),
        ("/w/pre5post", None, _M("w", n=5), "literal decoration around a variable"),
        ("/w/pre5", None, _NF, "the literal suffix is required"),
        ("/w/5post", None, _NF, "the literal prefix is required"),
        ("/files/a", None, _M("files", p="a"), "path admits one segment"),
        ("/files/a/b", None, _M("files", p="a/b"), "path admits several segments"),
    ],
}


def _priority_samples() -> list[dict[str, t.Any]]:
    rules = [("/<path:p>", {"endpoint": "path"}), ("/<s>", {"endpoint": "str"}), ("/<int:n>", {"endpoint": "int"}), ("/lit", {"endpoint": "lit"}), ("/<s>/x", {"endpoint": "strx"}), ("/lit/<int:n>", {"endpoint": "litn"})]
    cases = [
        ("/lit", None, _M("lit"), "a literal segment beats every variable"),
        ("/12", None, _M("int", n=12), "int beats string and path"),
        ("/ab", None, _M("str", s="ab"), "string beats path; int does not admit it"),
        ("/a/b", None, _M("path", p="a/b"), "only the path rule admits two free segments"),
        ("/a/x", None, _M("strx", s="a"), "<s>/x beats <path:p>"),
        ("/lit/3", None, _M("litn", n=3), "literal first segment + int beats path"),
        ("/lit/x", None, _M("strx", s="lit"), "the literal branch does not admit /lit/x, <s>/x does: the search has to come back"),
    ]
    return [{"id": f"priority, insertion order {name}", "group": "prio", "map_kw": {}, "rules": rs, "cases": cases} for name, rs in (("as written", rules), ("reversed", rules[::-1]))]


_METHOD_SAMPLE: dict[str, t.Any] = {
    "id": "methods", "group": "405", "map_kw": {},
    "rules": [("/m", {"endpoint": "mg", "methods": ["GET"]}), ("/m", {"endpoint": "mp", "methods": ["POST"]}), ("/o/<int:n>", {"endpoint": "o", "methods": ["POST"]}), ("/any", {"endpoint": "all"})],
    "cases": [
        ("/m", "GET", _M("mg"), "the GET rule"),
        ("/m", "POST", _M("mp"), "the POST rule"),
        ("/m", "PUT", _405("GET", "HEAD", "POST"), "rules admit /m, none for PUT: 405 listing their methods"),
        ("/o/5", "GET", _405("POST"), "the rule admits /o/5 but not GET"),
        ("/o/x", "GET", _NF, "no rule admits /o/x, whatever the method"),
        ("/any", "PUT", _M("all"), "a rule without methods takes every method"),
    ],
}


def _exc_name(e: t.Any) -> str:
    c = getattr(e, "cls", None)
    return c.cls.name if isinstance(c, _I.ClsVal) else getattr(c, "__name__", str(c))


def _run_sample(repo: t.Any, sc: dict[str, t.Any]) -> dict[str, t.Any]:
    """one world: the sample map is built and bound once, every case is one MapAdapter.match call."""

    def scen(w: t.Any) -> dict[str, t.Any]:
        Map, Rule = w.resolve_fq("werkzeug.routing.Map"), w.resolve_fq("werkzeug.routing.Rule")
        if not isinstance(Map, _I.ClsVal) or not isinstance(Rule, _I.ClsVal):
            raise AnalysisError("werkzeug.routing.Map / Rule do not resolve to classes")
        rules = [w.call(Rule, [string], {k: (list(v) if isinstance(v, list) else v) for k, v in kw.items()}) for string, kw in sc["rules"]]
        m = w.call(Map, [rules], dict(sc["map_kw"]))
        ad = w.call(w.getattr(m, "bind"), [_HOST], {})
        flags: dict[str, list[t.Any]] = {}
        for name in sc.get("inherit", {}):
            flags[name] = [w.getattr(r, name) for r in w.iterate(w.call(w.getattr(m, "iter_rules"), [], {}))]
        seen = []
        for path, method, _exp, _why in sc["cases"]:
            try:
                rv = w.call(w.getattr(ad, "match"), [path], {"method": method} if method else {})
            except _I.Raised as r:
                e = r.exc
                nm = _exc_name(e)
                if nm == "RequestRedirect":
                    seen.append(("redirect", e.args[0] if e.args else e.attrs.get("new_url")))
                elif nm == "NotFound":
                    seen.append(_NF)
                elif nm == "MethodNotAllowed":
                    vm = e.attrs.get("valid_methods")
                    seen.append(("405", frozenset(vm) if isinstance(vm, (list, tuple, set, frozenset)) and _I.deep_concrete(vm) else vm))
                else:
                    seen.append(("raises", nm))
                continue
            if isinstance(rv, tuple) and len(rv) == 2 and isinstance(rv[1], dict) and _I.deep_concrete(rv):
                seen.append(("match", rv[0], dict(rv[1])))
            else:
                seen.append(("returns", _I._key(rv)[:120]))
        return {"seen": seen, "flags": flags}

    outs = _I.explore(scen, repo)
    if len(outs) != 1:
        raise AnalysisError(f"sample {sc['id']}: the concrete sample forked on {[c[0][:80] for c in outs[0].conds]}")
    if outs[0].kind != "return":
        e = outs[0].value
        raise AnalysisError(f"sample {sc['id']}: building / binding the sample map raised {_exc_name(e)}{e.args!r}")
    return outs[0].value


def _same_outcome(seen: tuple, want: tuple) -> bool:
    if seen[0] != want[0] or len(seen) != len(want):
        return False
    if want[0] != "match":
        return seen == want
    if seen[1] != want[1] or set(seen[2]) != set(want[2]):
        return False
    for k, wv in want[2].items():
        sv = seen[2][k]
        if isinstance(wv, tuple) and wv[0] == "uuid":
            import uuid

            if not (isinstance(sv, uuid.UUID) and str(sv) == wv[1]):
                return False
        elif type(sv) is not type(wv) or sv != wv:
            return False
    return True


def _show_outcome(o: tuple) -> str:
    if o[0] == "match":
        return f"match {o[1]!r} {o[2]!r}"
    if o[0] == "redirect":
        return f"redirect to {o[1]!r}"
    if o[0] == "notfound":
        return "NotFound"
    if o[0] == "405":
        return f"MethodNotAllowed {sorted(o[1]) if isinstance(o[1], frozenset) else o[1]!r}"
    return " ".join(str(x) for x in o)


_SAMPLE_WHERE = {
    "flags": ("routing.rules.Rule.bind", "routing.map.MapAdapter.match"),
    "norm": ("routing.map.MapAdapter.match",),
    "conv": ("routing.rules.Rule._parse_rule", "routing.rules.Rule.compile", "routing.map.MapAdapter.match"),
    "prio": ("routing.matcher.StateMachineMatcher.match", "routing.map.MapAdapter.match"),
    "405": ("routing.matcher.StateMachineMatcher.match", "routing.map.MapAdapter.match"),
    "deep": ("routing.matcher.StateMachineMatcher.match", "routing.map.MapAdapter.match"),
}


def _r39_r310(ctx: Ctx) -> None:
    repo = ctx.repo
    samples = [*_flag_samples(), *_deep_slash_samples(), *_norm_samples(), _CONVERTER_SAMPLE, *_priority_samples(), _METHOD_SAMPLE]
    n_cases = n_flags = 0
    for sc in samples:
        where: FuncInfo | str = next((f for f in (repo.try_func(fq) for fq in _SAMPLE_WHERE[sc["group"]]) if f is not None), _SAMPLE_WHERE[sc["group"]][0])
        node = where.node if isinstance(where, FuncInfo) else None
        try:
            res = _run_sample(repo, sc)
        except AnalysisError as exc:  # this sample is not understood; the others still count
            ctx.error(f"R3.10 sample {sc['id']}: {exc}")
            continue
        mk = ", ".join(f"{k}={v}" for k, v in sc["map_kw"].items())
        for name, want in sc.get("inherit", {}).items():
            got = res["flags"][name]
            n_flags += 1
            ctx.ob(
                "R3.9", f"Map({mk}): a rule written without `{name}` takes the map's `{name}`", bool(got) and all(g is want for g in got),
                f"after binding, rule.{name} of the {len(got)} sample rules is {got}; the map was created with {name}={want}"
                + ("" if got and all(g is want for g in got) else f" - the rule-level flag decides the trailing-slash / merged-slash answer for the rule, so the map-level `{name}` is lost or replaced by another setting"),
                where, node, f"inherited {name} under {mk}",
            )
        for (path, method, want, why), seen in zip(sc["cases"], res["seen"]):
            n_cases += 1
            ok = _same_outcome(seen, want)
            ctx.ob(
                "R3.10", f"sample ({sc['id']}): {method or 'GET'} {path}", ok,
                f"rules {[r for r, _ in sc['rules']]}{' on Map(' + mk + ')' if mk else ''}: the source answers {_show_outcome(seen)}; the rules denote {_show_outcome(want)} ({why})",
                where, node, f"sample {sc['id']}: {method or 'GET'} {path}",
            )
    ctx.floor("R3.9", "inherited rule flags read back from bound sample rules", n_flags, 8)
    ctx.floor("R3.10", "sample paths answered", n_cases, 100)


# ----------------------------------------------------------------------


def run(ctx: Ctx) -> None:
    ctx.rule("R3.1", "priority order: static transition before dynamic ones; dynamic transitions sorted ascending by part weight in every state; the map is re-sorted before every match; converter weights int/float < string < path; a part's Weighting counts literal pieces negatively and carries its converters' weights")
    ctx.rule("R3.2", "405 bookkeeping: in every loop over candidate rules, methods are recorded only for rules passing the admission tests that guard `return rule, values`, an admitted rule discarded only for its methods is recorded, and sibling loops agree (truth tables over condition atoms)")
    ctx.rule("R3.3", "MapAdapter.match raises MethodNotAllowed iff NoMatch.have_match_for is non-empty, with exactly that set, NotFound only otherwise; the matcher passes NoMatch the one set its loops update")
    ctx.rule("R3.4", "a ValidationError raised by a converter's to_python on a string its regex accepted must resume the search, not end the whole match")
    ctx.rule("R3.5", "a list stored into a Weighting / RulePart is not mutated afterwards: the variable is rebound to a fresh list before the next append / clear")
    ctx.rule("R3.6", "the path with repeated slashes merged (and the retry of the search on it) is used only under the map-level merge_slashes flag")
    ctx.rule("R3.7", "writer/reader agreement on anchoring: the matcher applies a dynamic part's regex from the start of the path segment, and unless it applies it with fullmatch every path through the parser that builds a dynamic part ends its regex in the end-of-string anchor")
    ctx.rule("R3.8", "writer/reader agreement on the trailing slash of a final part: its regex never requires the slash, and a part marked suffixed ends in a last group capturing the optional slash")
    ctx.rule("R3.9", "a rule written without strict_slashes / merge_slashes is bound with the map's setting of the same name (read back from sample rules under all four map-level combinations)")
    ctx.rule("R3.10", "sample maps and request paths of the property's grammar (map flags x doubled / trailing slashes, leading slashes, each converter option at its boundaries, priority in both insertion orders, methods), answered by symbolic execution of the source, get the answer the rule strings denote")
    ctx.rule("R3.11", "the matcher raises NoMatch only after the search over the rules has been run on the request path (no shortcut to 'no rule' around the search, the merged-slashes retry and the 405 bookkeeping)")
    m = _Matcher(ctx)
    # R3.1
    _r31_order(ctx, m)
    _r31_sort(ctx, m)
    _r31_update_calls(ctx)
    _r31_weights(ctx)
    _r31_weighting(ctx)
    # R3.2
    _r32(ctx, m)
    # R3.3
    _r33(ctx, m)
    # R3.4
    _r34(ctx, m, lambda c: c.module.name.startswith("werkzeug.routing"))
    # R3.5
    funcs = _weighting_builders(ctx, lambda mn: mn.startswith("werkzeug.routing"))
    _r35(ctx, funcs)
    # R3.6
    _r36(ctx, m)
    # R3.11
    _r311(ctx, m)
    # R3.7, R3.8
    _r37_r38(ctx, m)
    # R3.9, R3.10
    _r39_r310(ctx)


def run_thorough(ctx: Ctx) -> None:
    """scope widened to the whole package: converter subclasses and Weighting / RulePart builders outside werkzeug.routing."""
    m = _Matcher(ctx)
    outside = lambda c: not c.module.name.startswith("werkzeug.routing")  # noqa: E731
    n, rej = _rejecting_converters(ctx, outside)
    ctx.note(f"thorough: {n} converter class(es) outside werkzeug.routing, {len(rej)} with a rejecting to_python")
    if rej:
        _r34(ctx, m, outside, floor=False)
    funcs = _weighting_builders(ctx, lambda mn: not mn.startswith("werkzeug.routing"))
    ctx.note(f"thorough: {len(funcs)} function(s) outside werkzeug.routing build Weighting / RulePart objects")
    _r35(ctx, funcs, floor=False)
    # every acyclic path of the search function, for the record
    paths = m.search_cfg.acyclic_paths(limit=5000)
    ctx.note(f"thorough: {len(paths)} acyclic CFG paths through {m.match.fq}.{m.search.name}")
