"""C03 - URL matching agrees with the declarative meaning of the rules (structural clauses).

Six rules.  None of them interprets the per-part regular expressions or the
backtracking search as a language recogniser: what is decided is the priority
order, the 405 bookkeeping of the rule loops, the mapping of NoMatch onto HTTP
exceptions, that a converter's late rejection does not end the search, that
the weight of a rule part is frozen once it was built, and that the retry on the
path with merged slashes happens only for maps that merge slashes.

Conditions are compared through canonical atoms (wzsa.guards.canon) with local
flags / aliases replaced by what they stand for, and a Weighting / RulePart
construction is followed one level into a helper that merely builds the object,
so that neutral restructurings of the matcher and the rule parser stay silent.
"""

from __future__ import annotations

import ast
import itertools
import typing as t

from .. import astq, guards
from ..cfg import CFG, Node, cfg_of
from ..dataflow import ReachingDefs
from ..fold import Folder, RegexConst, Unfoldable, matches_const
from ..loader import AnalysisError, ClassInfo, FuncInfo, dotted, norm, walk_no_nested
from ..report import Ctx

LEVEL_TEXT = (
    "Static decision of structural clauses of C03 on /repo's current source: (R3.1) priority order - in the matcher's "
    "recursive search the static transition is tried, and its result returned, before the loop over the dynamic "
    "transitions; StateMachineMatcher.update sorts every state's dynamic transitions ascending by the rule part's weight "
    "(stable list sort, every state visited); MapAdapter.match calls Map.update before the matcher on every path, Map.update "
    "reaches the matcher's update whenever _remap is set and Map.add sets _remap after adding; the converters' class-level "
    "weights, resolved through the MRO, satisfy int/float < string/default < path; the Weighting of a part counts its literal "
    "pieces negatively and carries the weights of the converters obtained from get_converter; (R3.2) 405 bookkeeping - the "
    "loops over candidate rules in the search are evaluated as truth tables over their condition atoms: methods are recorded "
    "(and websocket_mismatch set) only for rules that pass the same path-admission tests that guard `return rule, values`, an "
    "admitted rule that is discarded only because of its methods is recorded, and sibling loops agree; (R3.3) in "
    "MapAdapter.match MethodNotAllowed is raised iff NoMatch.have_match_for is non-empty, with exactly that set, NotFound "
    "only on the remaining path, and the matcher hands NoMatch the one set its loops update; (R3.4) a converter whose "
    "to_python raises ValidationError must not end the whole match: the handler around the to_python call has to resume "
    "the search; (R3.5) a list stored into a Weighting / RulePart is never mutated afterwards (it is rebound to a fresh "
    "list first), so parts never share or lose their weights; (R3.6) in StateMachineMatcher.match the path with repeated "
    "slashes merged - and hence the retry of the search on it, its slash redirect and its 405 bookkeeping - is used only on "
    "paths on which the map-level `self.merge_slashes` is true. Not decided: that the compiled per-part regular "
    "expressions plus backtracking accept exactly the language the rule grammar denotes (regex / state-machine "
    "semantics, including under which conditions _parse_rule augments a final part's regex with the optional-slash suffix), "
    "and the relative order of parts whose literal decoration differs *and* whose converters differ."
)
TRUSTED = [
    "CPython ast",
    "list.sort / sorted are stable and order ascending by the key",
    "tuple (NamedTuple) comparison is lexicographic, list comparison is lexicographic",
    "the statement-level CFG of the engine (short-circuit conditions split into atoms)",
]
ASSUMPTIONS = [
    "converters are the classes deriving from routing.converters.BaseConverter inside the package; user converters are outside the claim",
    "an explicit `raise ValidationError` in a to_python is reachable for some string the converter's regex accepts (it would be dead code otherwise)",
    "condition atoms of a rule loop are treated as independent booleans; infeasible combinations only add rows in which short-circuit evaluation never looks at the dependent atom",
    "the request-dependent atoms of a rule loop are those mentioning a parameter of StateMachineMatcher.match (method, websocket)",
    "a local flag / alias is replaced by its defining expression only when that is its single reaching definition, the expression is pure (names, attributes, constants, comparisons, and/or/not) and none of its names is rebound in between",
    "a helper is taken for a constructor call only if its body is nothing but `return Weighting(...)` / `return RulePart(...)` over its parameters",
    "`self.merge_slashes` of the matcher is the map-level setting (it is not assigned inside match(); checked)",
]

MATCHER = "routing.matcher.StateMachineMatcher"
FRESH_CALLS = ("list",)


# ----------------------------------------------------------------------
# small helpers


def _last(d: str | None) -> str:
    return d.rsplit(".", 1)[-1] if d else ""


def _inside(node: ast.AST, anc: ast.AST) -> bool:
    cur = astq.parent(node)
    while cur is not None:
        if cur is anc:
            return True
        cur = astq.parent(cur)
    return False


def _enclosing_func(node: ast.AST) -> ast.AST | None:
    return astq.enclosing(node, (ast.FunctionDef, ast.AsyncFunctionDef, ast.Lambda))


def _mirror(op: ast.cmpop) -> type:
    return {ast.Gt: ast.Lt, ast.Lt: ast.Gt, ast.GtE: ast.LtE, ast.LtE: ast.GtE}.get(type(op), type(op))


def truthy_polarity(atom: ast.AST, target: str) -> bool | None:
    """True: the atom is true exactly when `target` is truthy (non-empty / set);
    False: exactly when it is falsy; None: the atom does not decide it."""
    txt = norm(atom)
    if txt in (target, f"bool({target})", f"len({target})"):
        return True
    cp = astq.cmp_parts(atom)
    if cp is None:
        return None
    left, op, right = cp
    for a, b, flip in ((left, right, False), (right, left, True)):
        at = norm(a)
        if not isinstance(b, ast.Constant):
            continue
        if at == target and isinstance(b.value, bool):
            if isinstance(op, (ast.Is, ast.Eq)):
                return b.value
            if isinstance(op, (ast.IsNot, ast.NotEq)):
                return not b.value
        if at == f"len({target})" and isinstance(b.value, int) and not isinstance(b.value, bool):
            o = _mirror(op) if flip else type(op)
            if (o, b.value) in ((ast.Gt, 0), (ast.NotEq, 0), (ast.GtE, 1)):
                return True
            if (o, b.value) in ((ast.Eq, 0), (ast.Lt, 1), (ast.LtE, 0)):
                return False
    return None


def _polar_edges(cfg: CFG, target: str) -> tuple[list[tuple[Node, str]], list[tuple[Node, str]]]:
    """(edges taken when target is truthy, edges taken when it is falsy) over all test atoms that decide it."""
    yes: list[tuple[Node, str]] = []
    no: list[tuple[Node, str]] = []
    for tn in cfg.tests():
        if tn.kind != "test":
            continue
        p = truthy_polarity(tn.ast, target)
        if p is None:
            continue
        yes.append((tn, "T" if p else "F"))
        no.append((tn, "F" if p else "T"))
    return yes, no


def _is_fresh_list(e: ast.AST | None) -> bool:
    if isinstance(e, (ast.List, ast.ListComp)):
        return True
    if isinstance(e, ast.Call) and isinstance(e.func, ast.Name) and e.func.id in FRESH_CALLS:
        return True
    if isinstance(e, ast.Subscript) and isinstance(e.slice, ast.Slice):
        return True  # a slice of a list is a new list
    return False


class _Rename(ast.NodeTransformer):
    def __init__(self, mapping: dict[str, str]):
        self.mapping = mapping

    def visit_Name(self, n: ast.Name) -> ast.AST:
        if n.id in self.mapping:
            return ast.copy_location(ast.Name(id=self.mapping[n.id], ctx=n.ctx), n)
        return n


def _text(e: ast.AST, mapping: dict[str, str]) -> str:
    # re-parse instead of deepcopy: the loader hangs `_parent` links on every node
    fresh = ast.parse(ast.unparse(e), mode="eval").body
    return norm(_Rename(mapping).visit(fresh))


def _renamed(e: ast.AST, mapping: dict[str, str]) -> ast.AST:
    # re-parse instead of deepcopy: the loader hangs `_parent` links on every node
    return _Rename(mapping).visit(ast.parse(ast.unparse(e), mode="eval").body)


def canon_atom(e: ast.AST, mapping: dict[str, str]) -> tuple[str, bool]:
    """(canonical key, polarity): the atom is true iff key is `polarity` (guards.canon after renaming the loop variable):
    `a != b` and `b == a`, `x is not None` and `not (x is None)`, `a > b` and `b < a` share one key."""
    return guards.canon(_renamed(e, mapping))


_PURE = (ast.Name, ast.Attribute, ast.Constant, ast.Compare, ast.BoolOp, ast.UnaryOp, ast.Subscript, ast.Load, ast.cmpop, ast.boolop, ast.unaryop, ast.expr_context)


def _is_pure(e: ast.AST) -> bool:
    """names, attribute chains, constants and boolean / comparison combinations of them: evaluating the expression a
    second time, later, gives the same value as long as the names in it are not rebound."""
    return all(isinstance(x, _PURE) for x in ast.walk(e))


class _Locals:
    """copy / flag propagation inside one function: a local name whose single reaching definition is a plain
    assignment of a pure expression (`methods = rule.methods`, `method_ok = rule.methods is None or method in
    rule.methods`) is replaced by that expression, provided no name in it is rebound in between."""

    def __init__(self, cfg: CFG, params: t.Iterable[str]):
        self.cfg = cfg
        self.rd = ReachingDefs(cfg, params)

    def value_of(self, name: str, node: Node, depth: int = 0) -> ast.AST | None:
        defs = self.rd.reaching(node, name)
        if len(defs) != 1 or depth > 4:
            return None
        d = next(iter(defs))
        if d.kind != "assign" or d.index is not None or d.value is None or d.node is None or d.stmt is None:
            return None
        if not _is_pure(d.value):
            return None
        for nm in astq.names_in(d.value):
            if self.rd.reaching(d.node, nm) != self.rd.reaching(node, nm):
                return None
        return self.expand(d.value, d.node, depth + 1)

    def expand(self, e: ast.AST, node: Node, depth: int = 0) -> ast.AST:
        fresh = ast.parse(ast.unparse(e), mode="eval").body
        outer = self

        class T(ast.NodeTransformer):
            def visit_Name(self, n: ast.Name) -> ast.AST:  # noqa: N802
                if isinstance(n.ctx, ast.Load):
                    v = outer.value_of(n.id, node, depth)
                    if v is not None:
                        return v
                return n

        return ast.fix_missing_locations(T().visit(fresh))


def _leaves(e: ast.AST) -> list[ast.AST]:
    if isinstance(e, ast.BoolOp):
        return [x for v in e.values for x in _leaves(v)]
    if isinstance(e, ast.UnaryOp) and isinstance(e.op, ast.Not):
        return _leaves(e.operand)
    return [e]


def _eval(e: ast.AST, truth: t.Callable[[ast.AST], bool]) -> bool:
    if isinstance(e, ast.BoolOp):
        vals = [_eval(v, truth) for v in e.values]
        return all(vals) if isinstance(e.op, ast.And) else any(vals)
    if isinstance(e, ast.UnaryOp) and isinstance(e.op, ast.Not):
        return not _eval(e.operand, truth)
    return truth(e)


# ----------------------------------------------------------------------
# slots of the matcher


class _Matcher:
    def __init__(self, ctx: Ctx):
        repo = ctx.repo
        self.cls = repo.cls(MATCHER)
        for nm in ("match", "update", "add"):
            if nm not in self.cls.methods:
                raise AnalysisError(f"{MATCHER}.{nm} missing")
        self.match: FuncInfo = self.cls.methods["match"]
        self.update: FuncInfo = self.cls.methods["update"]
        self.add: FuncInfo = self.cls.methods["add"]
        ctx.saw(self.match, self.update, self.add)
        # the recursive search: the function nested in match() that calls itself
        rec = []
        for n in ast.walk(self.match.node):
            if n is not self.match.node and isinstance(n, (ast.FunctionDef, ast.AsyncFunctionDef)):
                if any(isinstance(c.func, ast.Name) and c.func.id == n.name for c in astq.calls(n, nested=False)):
                    rec.append(n)
        if len(rec) != 1:
            raise AnalysisError(f"{self.match.fq}: expected one recursive search function nested in match(), found {len(rec)}")
        self.search: ast.FunctionDef = rec[0]
        self.search_cfg = CFG(self.search)
        self.match_cfg = cfg_of(self.match)
        self.request_params = [p for p in self.match.params if p != "self"]
        # the bookkeeping variables, by role: H is the set the rule loops add `<rule>.methods` to, W the flag they set;
        # when the loops no longer record anything, the names every NoMatch(...) is raised with
        nm_calls = [c for c in astq.calls(self.match.node) if _last(dotted(c.func)) == "NoMatch"]
        self.nomatch_calls = nm_calls
        # loops over candidate rules: in the search function or in any helper nested in match()
        self.rule_loops = [n for n in ast.walk(self.match.node) if isinstance(n, ast.For) and isinstance(n.iter, ast.Attribute) and n.iter.attr == "rules"]
        self.loop_weight: dict[int, int] = {id(n): 1 for n in self.rule_loops}
        # ... or over a parameter of such a helper that every call site fills with `<state>.rules`
        for n in ast.walk(self.match.node):
            if not (isinstance(n, ast.For) and isinstance(n.iter, ast.Name)):
                continue
            F = _enclosing_func(n)
            if not isinstance(F, (ast.FunctionDef, ast.AsyncFunctionDef)) or F is self.match.node:
                continue
            params = [a.arg for a in F.args.args]
            if n.iter.id not in params or astq.assigns_to(F, n.iter.id):
                continue
            pos = params.index(n.iter.id)
            sites = [c for c in astq.calls(self.match.node) if isinstance(c.func, ast.Name) and c.func.id == F.name]
            filled = [astq.arg_or_kw(c, pos, n.iter.id) for c in sites]
            if sites and all(isinstance(a, ast.Attribute) and a.attr == "rules" for a in filled):
                self.rule_loops.append(n)
                self.loop_weight[id(n)] = len(sites)
        hs: list[str] = []
        ws: list[str] = []
        for lp in self.rule_loops:
            for st in lp.body:
                for x in ast.walk(st):
                    if isinstance(x, ast.Call) and isinstance(x.func, ast.Attribute) and isinstance(x.func.value, ast.Name) and x.func.attr in ("update", "add") and any(
                        isinstance(a, ast.Attribute) and a.attr == "methods" for arg in x.args for a in ast.walk(arg)
                    ):
                        hs.append(x.func.value.id)
                    elif isinstance(x, ast.AugAssign) and isinstance(x.target, ast.Name) and any(isinstance(a, ast.Attribute) and a.attr == "methods" for a in ast.walk(x.value)):
                        hs.append(x.target.id)
                    elif isinstance(x, ast.Assign) and len(x.targets) == 1 and isinstance(x.targets[0], ast.Name) and isinstance(x.value, ast.Constant) and x.value.value is True:
                        ws.append(x.targets[0].id)
        if not hs:
            hs = [c.args[0].id for c in nm_calls if c.args and isinstance(c.args[0], ast.Name)]
        if not ws:
            ws = [c.args[1].id for c in nm_calls if len(c.args) > 1 and isinstance(c.args[1], ast.Name)]
        if len(set(hs)) > 1:
            raise AnalysisError(f"{self.match.fq}: the rule loops record methods into several sets: {sorted(set(hs))}")
        self.H: str | None = hs[0] if hs else None
        self.W: str | None = max(set(ws), key=ws.count) if ws else None


# ----------------------------------------------------------------------
# R3.1


def _sub_of_attr(e: ast.AST, attr: str) -> ast.AST | None:
    """the key expression of `<x>.<attr>[key]` / `<x>.<attr>.get(key)`."""
    if isinstance(e, ast.Subscript) and isinstance(e.value, ast.Attribute) and e.value.attr == attr:
        return e.slice
    if isinstance(e, ast.Call) and isinstance(e.func, ast.Attribute) and e.func.attr == "get" and isinstance(e.func.value, ast.Attribute) and e.func.value.attr == attr and e.args:
        return e.args[0]
    return None


def _values_of(fn: ast.AST, e: ast.AST) -> list[ast.AST]:
    """the expression itself, or - for a local name - the values it is assigned in fn."""
    if isinstance(e, ast.Name):
        vals = [v for _, v in astq.assigns_to(fn, e.id) if v is not None]
        if vals:
            return vals
    return [e]


def _bound_name(call: ast.Call) -> str | None:
    p = astq.parent(call)
    if isinstance(p, ast.Assign) and len(p.targets) == 1 and isinstance(p.targets[0], ast.Name):
        return p.targets[0].id
    if isinstance(p, ast.AnnAssign) and isinstance(p.target, ast.Name):
        return p.target.id
    if isinstance(p, ast.NamedExpr):
        return p.target.id
    return None


def _r31_order(ctx: Ctx, m: _Matcher) -> None:
    fn, cfg, fi = m.search, m.search_cfg, m.match
    rec_calls = [c for c in astq.calls(fn, nested=False) if isinstance(c.func, ast.Name) and c.func.id == fn.name]
    dyn_loops = [n for n in walk_no_nested(fn) if isinstance(n, ast.For) and isinstance(n.iter, ast.Attribute) and n.iter.attr == "dynamic"]
    static_calls = []
    for c in rec_calls:
        if not c.args:
            continue
        for v in _values_of(fn, c.args[0]):
            s = _sub_of_attr(v, "static")
            if s is not None and not (isinstance(s, ast.Constant) and s.value == ""):
                static_calls.append(c)
                break
    dyn_calls = [c for c in rec_calls if any(_inside(c, l) for l in dyn_loops)]
    if not static_calls or not dyn_loops or not dyn_calls:
        raise AnalysisError(
            f"{fi.fq}.{fn.name}: cannot find the static attempt ({len(static_calls)}), the loop over .dynamic ({len(dyn_loops)}) "
            f"and the recursive call inside it ({len(dyn_calls)})"
        )
    n = 0
    for sc in static_calls:
        S = cfg.node_of(sc)
        for dl in dyn_loops:
            D = cfg.by_ast.get(id(dl), [None])[0]
            if S is None or D is None:
                raise AnalysisError(f"{fi.fq}.{fn.name}: no CFG node for the static / dynamic attempt")
            n += 1
            fwd = D.id in cfg.reach(S)
            back = S.id in cfg.reach(D)
            ctx.ob(
                "R3.1", "static transition is tried before the dynamic transitions", fwd and not back,
                f"`{norm(sc)}` {'reaches' if fwd else 'does NOT reach'} `for ... in {norm(dl.iter)}`; the loop {'can flow back into the static attempt (dynamic first)' if back else 'never flows back into it'}",
                fi, sc, "static attempt precedes dynamic loop",
            )
            v = _bound_name(sc)
            if v is None:
                ctx.ob("R3.1", "a successful static attempt is returned before any dynamic transition is tried", False,
                       f"the result of `{norm(sc)}` is not bound to a name that is tested and returned", fi, sc, "static result returned first")
                continue
            tests_v = [tn for tn in cfg.tests() if tn.kind == "test" and v in astq.names_in(tn.ast)]
            rets = [rn for rn in cfg.nodes if rn.kind == "stmt" and isinstance(rn.ast, ast.Return) and astq.is_name(rn.ast.value, v)]
            r_before = [rn for rn in rets if rn.id in cfg.reach(S, avoid_nodes=[D])]
            tested = any(tn is S for tn in tests_v) or D.id not in cfg.reach(S, avoid_nodes=tests_v)
            ctx.ob(
                "R3.1", "a successful static attempt is returned before any dynamic transition is tried", bool(r_before) and tested,
                f"`return {v}` reachable from the static attempt without entering the dynamic loop: {bool(r_before)}; every path from it to the loop tests `{v}`: {tested}",
                fi, sc, "static result returned first",
            )
    ctx.floor("R3.1", "static-before-dynamic orderings", n, 1)


def _part_index_in_dynamic(m: _Matcher) -> tuple[int, int]:
    """(index of the RulePart, length) in the tuples appended to State.dynamic by add()."""
    fn = m.add.node
    for c in astq.method_calls(fn, "append"):
        recv = c.func.value  # type: ignore[attr-defined]
        if isinstance(recv, ast.Attribute) and recv.attr == "dynamic" and c.args and isinstance(c.args[0], ast.Tuple):
            elts = c.args[0].elts
            for i, e in enumerate(elts):
                if isinstance(e, ast.Name):
                    for st, _ in astq.assigns_to(fn, e.id):
                        if isinstance(st, ast.For) and isinstance(st.iter, ast.Attribute) and st.iter.attr == "_parts":
                            return i, len(elts)
    raise AnalysisError(f"{m.add.fq}: no `<state>.dynamic.append((part, state))` with part iterating over rule._parts")


def _r31_sort(ctx: Ctx, m: _Matcher) -> None:
    fi = m.update
    idx, width = _part_index_in_dynamic(m)
    sorts: list[tuple[ast.Call, ast.AST]] = []  # (call, receiver expr `X.dynamic`)
    for c in astq.calls(fi.node):
        if isinstance(c.func, ast.Attribute) and c.func.attr == "sort" and isinstance(c.func.value, ast.Attribute) and c.func.value.attr == "dynamic":
            sorts.append((c, c.func.value))
        elif isinstance(c.func, ast.Name) and c.func.id == "sorted" and c.args and isinstance(c.args[0], ast.Attribute) and c.args[0].attr == "dynamic":
            p = astq.parent(c)
            if isinstance(p, ast.Assign) and len(p.targets) == 1 and norm(p.targets[0]) == norm(c.args[0]):
                sorts.append((c, c.args[0]))
    ctx.floor("R3.1", "sorts of State.dynamic in update()", len(sorts), 1)
    for c, recv in sorts:
        key = astq.kwarg(c, "key")
        rev = astq.kwarg(c, "reverse")
        asc = rev is None or (isinstance(rev, ast.Constant) and rev.value is False)
        shape = False
        if isinstance(key, ast.Lambda) and len(key.args.args) == 1:
            p = key.args.args[0].arg
            b = key.body
            shape = (
                isinstance(b, ast.Attribute) and b.attr == "weight" and isinstance(b.value, ast.Subscript)
                and astq.is_name(b.value.value, p) and isinstance(b.value.slice, ast.Constant) and b.value.slice.value in (idx, idx - width)
            )
        ctx.ob(
            "R3.1", "dynamic transitions are sorted ascending by the weight of their rule part", asc and shape,
            f"`{norm(c)}`: key is element {idx} (the RulePart appended by add()) `.weight`: {shape}; ascending (no reverse): {asc}",
            fi, c, "dynamic sorted ascending by part weight",
        )
        # every state is visited: the sorting function recurses into static values and dynamic targets, and starts at the root
        F = _enclosing_func(c)
        if F is None or not isinstance(F, (ast.FunctionDef, ast.AsyncFunctionDef)):
            raise AnalysisError(f"{fi.fq}: sort site outside a function")
        if F is fi.node or not isinstance(recv.value, ast.Name) or recv.value.id not in [a.arg for a in F.args.args]:
            raise AnalysisError(f"{fi.fq}: the sort is not inside a per-state helper taking the state as parameter (traversal shape not recognised)")
        p = recv.value.id
        rec = [k for k in astq.calls(F, nested=False) if isinstance(k.func, ast.Name) and k.func.id == F.name and k.args]
        into_static = into_dynamic = False
        for k in rec:
            loop = astq.enclosing(k, (ast.For,))
            if loop is None or not isinstance(k.args[0], ast.Name):
                continue
            it = norm(loop.iter)
            tgt = loop.target
            if it == f"{p}.static.values()" and astq.is_name(tgt, k.args[0].id):
                into_static = True
            if it == f"{p}.static.items()" and isinstance(tgt, ast.Tuple) and len(tgt.elts) == 2 and astq.is_name(tgt.elts[1], k.args[0].id):
                into_static = True
            if it == f"{p}.dynamic" and isinstance(tgt, ast.Tuple) and len(tgt.elts) == width:
                others = [e for i, e in enumerate(tgt.elts) if i != idx]
                if any(astq.is_name(e, k.args[0].id) for e in others):
                    into_dynamic = True
        roots = [k for k in astq.calls(fi.node, nested=False) if isinstance(k.func, ast.Name) and k.func.id == F.name and k.args]
        from_root = any(any(norm(v) == "self._root" for v in _values_of(fi.node, k.args[0])) for k in roots)
        ctx.ob(
            "R3.1", "the sort visits every state of the machine", into_static and into_dynamic and from_root,
            f"{F.name} recurses into {p}.static values: {into_static}, into the targets of {p}.dynamic: {into_dynamic}; started at self._root: {from_root}",
            fi, F, "sort traversal covers static and dynamic successors from the root",
        )


def _r31_update_calls(ctx: Ctx) -> None:
    repo = ctx.repo
    ad = repo.func("routing.map.MapAdapter.match")
    cfg = cfg_of(ad)
    ups = [c for c in astq.method_calls(ad.node, "update", nested=False) if norm(c.func.value) == "self.map" and not c.args]  # type: ignore[attr-defined]
    ms = [c for c in astq.method_calls(ad.node, "match", nested=False) if norm(c.func.value).endswith("._matcher")]  # type: ignore[attr-defined]
    if not ms:
        raise AnalysisError(f"{ad.fq}: no call of <map>._matcher.match")
    n = 0
    for mc in ms:
        M = cfg.node_of(mc)
        ok = any(cfg.node_dominates(cfg.node_of(u), M) for u in ups if cfg.node_of(u) is not None) if M is not None else False
        n += 1
        ctx.ob("R3.1", "MapAdapter.match brings the map up to date before matching, on every path", ok,
               f"{len(ups)} `self.map.update()` call(s); one dominates `{norm(mc)[:60]}`: {ok}", ad, mc, "map.update dominates matcher.match")
    mu = repo.func("routing.map.Map.update")
    cfg = cfg_of(mu)
    inner = [c for c in astq.method_calls(mu.node, "update", nested=False) if norm(c.func.value) == "self._matcher"]  # type: ignore[attr-defined]
    if not inner:
        ctx.ob("R3.1", "Map.update re-sorts the matcher whenever _remap is set", False, "no `self._matcher.update()` call", mu, mu.node, "Map.update reaches matcher.update")
        n += 1
    else:
        inodes = [x for x in (cfg.node_of(c) for c in inner) if x is not None]
        _, clean = _polar_edges(cfg, "self._remap")  # edges taken when _remap is false
        r = cfg.reach(avoid_nodes=inodes, avoid_edges=clean)
        ok = cfg.exit.id not in r
        w = cfg.path(cfg.entry, cfg.exit, avoid_nodes=inodes, avoid_edges=clean)
        ctx.ob("R3.1", "Map.update re-sorts the matcher whenever _remap is set", ok,
               "every path to the exit takes a `_remap is false` edge or calls self._matcher.update()" if ok else "path with _remap set that never sorts: " + cfg.fmt_path(w or []),
               mu, inner[0], "Map.update reaches matcher.update")
        n += 1
        for st in walk_no_nested(mu.node):
            if isinstance(st, ast.Assign) and any(norm(tg) == "self._remap" for tg in st.targets) and isinstance(st.value, ast.Constant) and st.value.value is False:
                sn = cfg.node_of(st)
                ok = sn is not None and any(cfg.node_dominates(i, sn) for i in inodes)
                ctx.ob("R3.1", "_remap is cleared only after the matcher was re-sorted", ok, f"`{norm(st)}` dominated by self._matcher.update(): {ok}", mu, st, "remap cleared after sort")
    ma = repo.func("routing.map.Map.add")
    cfg = cfg_of(ma)
    adds = [c for c in astq.method_calls(ma.node, "add", nested=False) if norm(c.func.value) == "self._matcher"]  # type: ignore[attr-defined]
    if not adds:
        raise AnalysisError(f"{ma.fq}: no call of self._matcher.add")
    sets = [cfg.node_of(st) for st in walk_no_nested(ma.node) if isinstance(st, ast.Assign) and any(norm(tg) == "self._remap" for tg in st.targets) and isinstance(st.value, ast.Constant) and st.value.value is True]
    sets = [s for s in sets if s is not None]
    for c in adds:
        A = cfg.node_of(c)
        ok = bool(sets) and A is not None and cfg.all_paths_pass(A, [cfg.exit], sets)
        n += 1
        ctx.ob("R3.1", "Map.add marks the map for re-sorting after handing a rule to the matcher", ok,
               f"every path from `{norm(c)}` to the exit passes `self._remap = True`: {ok}", ma, c, "Map.add sets _remap")
    ctx.floor("R3.1", "update call sites", n, 3)


def _converter_table(ctx: Ctx) -> tuple[dict[str, ClassInfo], ast.AST]:
    mod = ctx.repo.module("routing.converters")
    vals = mod.assigns.get("DEFAULT_CONVERTERS")
    if not vals or not isinstance(vals[-1], ast.Dict):
        raise AnalysisError("routing.converters.DEFAULT_CONVERTERS is not a dict literal")
    d = vals[-1]
    out: dict[str, ClassInfo] = {}
    for k, v in zip(d.keys, d.values):
        ks = astq.const_str(k) if k is not None else None
        dn = dotted(v)
        if ks is None or dn is None:
            raise AnalysisError("DEFAULT_CONVERTERS: non-literal entry")
        fq = ctx.repo.resolve(mod, dn)
        ci = ctx.repo.try_cls(fq) if fq else None
        if ci is None:
            raise AnalysisError(f"DEFAULT_CONVERTERS[{ks!r}]: class {dn} not found")
        out[ks] = ci
    return out, d


def _weight_of(ctx: Ctx, folder: Folder, c: ClassInfo) -> tuple[int, str]:
    owner, what = ctx.repo.lookup(c, "weight")
    if owner is None or not isinstance(what, ast.AST):
        raise AnalysisError(f"{c.fq}: `weight` does not resolve to a class attribute")
    try:
        v = folder.expr(owner.module, what)
    except Unfoldable as e:
        raise AnalysisError(f"{owner.fq}.weight is not a constant: {e}")
    if not isinstance(v, (int, float)) or isinstance(v, bool):
        raise AnalysisError(f"{owner.fq}.weight folds to {v!r}")
    return v, owner.name


def _r31_weights(ctx: Ctx) -> None:
    repo = ctx.repo
    folder = Folder(repo)
    table, dnode = _converter_table(ctx)
    mod = repo.module("routing.converters")
    w: dict[str, tuple[int, str]] = {}
    for key, c in sorted(table.items()):
        val, owner = _weight_of(ctx, folder, c)
        w[key] = (val, owner)
        # no instance-level or property override anywhere in the MRO
        over = []
        for k in repo.mro(c):
            if not isinstance(k, ClassInfo):
                continue
            for mn, mfi in k.methods.items():
                if mn.split(".")[0] == "weight":
                    over.append(f"{k.name}.{mn}")
                for st in ast.walk(mfi.node):
                    tg = st.targets if isinstance(st, ast.Assign) else [st.target] if isinstance(st, (ast.AugAssign, ast.AnnAssign)) else []
                    if any(isinstance(x, ast.Attribute) and x.attr == "weight" and isinstance(x.value, ast.Name) and x.value.id in ("self", "cls") for x in tg):
                        over.append(f"{k.name}.{mn}: {norm(st)}")
        ctx.ob("R3.1", f"converter `{key}` ({c.name}) has a class-level constant weight", not over,
               f"weight = {val} (from {owner})" + (f"; overridden by {over}" if over else ""), mod.name, dnode, f"{key} weight is a class constant")
    ctx.floor("R3.1", "converter classes in DEFAULT_CONVERTERS", len(w), 7)
    need = [("int", "string"), ("float", "string"), ("int", "default"), ("float", "default"), ("string", "path"), ("default", "path")]
    for a, b in need:
        if a not in w or b not in w:
            raise AnalysisError(f"DEFAULT_CONVERTERS lacks `{a}` or `{b}`")
        ctx.ob("R3.1", f"weight({a}) < weight({b})", w[a][0] < w[b][0], f"{a}: {w[a][0]} (from {w[a][1]}), {b}: {w[b][0]} (from {w[b][1]})",
               mod.name, table[a].node, f"weight {a} < {b}")
    # the table the rules look converters up in is this one
    mp = repo.cls("routing.map.Map")
    dc = mp.attrs.get("default_converters")
    ctx.ob("R3.1", "Map.default_converters is built from DEFAULT_CONVERTERS", dc is not None and "DEFAULT_CONVERTERS" in astq.names_in(dc),
           norm(dc) if dc is not None else "attribute missing", mp.fq, dc, "Map.default_converters source")


CTORS = ("Weighting", "RulePart")


class _Site(t.NamedTuple):
    site: ast.Call  # the call as written in the function under analysis
    eff: ast.Call  # the constructor call it amounts to, over the function's own names
    callee: str  # Weighting / RulePart
    via: str | None  # name of the helper the construction was moved into


def _ctor_returned(fn: ast.AST) -> ast.Call | None:
    """fn's body is nothing but `return Ctor(...)` (optionally `v = Ctor(...); return v`, after a docstring)."""
    body = list(getattr(fn, "body", []))
    if body and isinstance(body[0], ast.Expr) and isinstance(body[0].value, ast.Constant) and isinstance(body[0].value.value, str):
        body = body[1:]
    call: ast.AST | None = None
    if len(body) == 1 and isinstance(body[0], ast.Return):
        call = body[0].value
    elif len(body) == 2 and isinstance(body[1], ast.Return) and isinstance(body[1].value, ast.Name):
        st = body[0]
        tg = st.targets[0] if isinstance(st, ast.Assign) and len(st.targets) == 1 else st.target if isinstance(st, ast.AnnAssign) else None
        if isinstance(tg, ast.Name) and tg.id == body[1].value.id:
            call = st.value  # type: ignore[union-attr]
    if isinstance(call, ast.Call) and _last(dotted(call.func)) in CTORS:
        return call
    return None


def _inline(helper: ast.AST, inner: ast.Call, call: ast.Call, skip_first: bool) -> ast.Call | None:
    """`inner` (the constructor call inside helper) with helper's parameters replaced by the arguments of `call`."""
    a = helper.args  # type: ignore[attr-defined]
    if a.vararg or a.kwarg or any(isinstance(x, ast.Starred) for x in call.args) or any(k.arg is None for k in call.keywords):
        return None
    pos = [x.arg for x in [*a.posonlyargs, *a.args]]
    if skip_first:
        pos = pos[1:]
    defaults: dict[str, ast.AST] = {}
    pa = [*a.posonlyargs, *a.args]
    for x, d in zip(pa[len(pa) - len(a.defaults):], a.defaults):
        defaults[x.arg] = d
    for x, d in zip(a.kwonlyargs, a.kw_defaults):
        if d is not None:
            defaults[x.arg] = d
    if len(call.args) > len(pos):
        return None
    bound: dict[str, ast.AST] = dict(zip(pos, call.args))
    names = set(pos) | {x.arg for x in a.kwonlyargs}
    for k in call.keywords:
        if k.arg not in names or k.arg in bound:
            return None
        bound[k.arg] = k.value  # type: ignore[index]
    for nm in names:
        if nm not in bound:
            if nm not in defaults:
                return None
            bound[nm] = defaults[nm]
    fresh = ast.parse(ast.unparse(inner), mode="eval").body

    class T(ast.NodeTransformer):
        def visit_Name(self, n: ast.Name) -> ast.AST:  # noqa: N802
            if n.id in bound:
                return ast.parse(ast.unparse(bound[n.id]), mode="eval").body
            return n

    out = ast.fix_missing_locations(T().visit(fresh))
    return out if isinstance(out, ast.Call) else None


def _ctor_sites(ctx: Ctx, fi: FuncInfo) -> list[_Site]:
    """every construction of a Weighting / RulePart in fi: written out, or moved into a helper (function of the module,
    method of the class, closure of fi) that does nothing but build and return the object from its parameters."""
    repo = ctx.repo
    li = fi.module.local_imports(fi.node)
    closures = {n.name: n for n in walk_no_nested(fi.node) if isinstance(n, (ast.FunctionDef, ast.AsyncFunctionDef))}
    out: list[_Site] = []
    for c in astq.calls(fi.node, nested=False):
        d = dotted(c.func)
        if d is None:
            continue
        if _last(d) in CTORS:
            out.append(_Site(c, c, _last(d), None))
            continue
        helper: ast.AST | None = None
        skip = False
        if isinstance(c.func, ast.Name):
            if d in closures:
                helper = closures[d]
            else:
                fq = repo.resolve(fi.module, d, li)
                h = repo.try_func(fq) if fq and fq.startswith("werkzeug") else None
                helper = h.node if h is not None else None
        elif isinstance(c.func, ast.Attribute) and isinstance(c.func.value, ast.Name) and c.func.value.id in ("self", "cls") and fi.cls is not None:
            _, what = repo.lookup(fi.cls, c.func.attr)
            if isinstance(what, FuncInfo):
                helper = what.node
                skip = "staticmethod" not in what.decorators
        if helper is None:
            continue
        inner = _ctor_returned(helper)
        if inner is None:
            continue
        eff = _inline(helper, inner, c, skip)
        if eff is None:
            raise AnalysisError(f"{fi.fq}: cannot map the arguments of `{norm(c)[:60]}` onto the parameters of the helper that builds a {_last(dotted(inner.func))}")
        out.append(_Site(c, eff, _last(dotted(inner.func)), _last(d)))
    return out


def _weighting_fields(ctx: Ctx) -> list[tuple[str, str]]:
    wc = ctx.repo.cls("routing.rules.Weighting")
    fields = [(st.target.id, norm(st.annotation)) for st in wc.node.body if isinstance(st, ast.AnnAssign) and isinstance(st.target, ast.Name)]
    if len(fields) < 2:
        raise AnalysisError("routing.rules.Weighting: fields not found")
    return fields


def _call_fields(call: ast.Call, fields: list[tuple[str, str]]) -> dict[str, ast.AST]:
    out: dict[str, ast.AST] = {}
    for i, a in enumerate(call.args):
        if isinstance(a, ast.Starred) or i >= len(fields):
            raise AnalysisError(f"cannot map the arguments of `{norm(call)}` onto Weighting's fields")
        out[fields[i][0]] = a
    for kw in call.keywords:
        if kw.arg is None:
            raise AnalysisError(f"cannot map the arguments of `{norm(call)}` onto Weighting's fields")
        out[kw.arg] = kw.value
    return out


def _list_growth(fn: ast.AST) -> list[tuple[ast.AST, str, list[ast.AST]]]:
    """(site, local list, elements) for `xs.append(e)`, `xs.extend([e, ...])`, `xs += [e, ...]` in fn."""
    out: list[tuple[ast.AST, str, list[ast.AST]]] = []
    for x in walk_no_nested(fn):
        if isinstance(x, ast.Call) and isinstance(x.func, ast.Attribute) and isinstance(x.func.value, ast.Name) and x.args:
            if x.func.attr == "append":
                out.append((x, x.func.value.id, [x.args[0]]))
            elif x.func.attr == "extend" and isinstance(x.args[0], (ast.List, ast.Tuple)):
                out.append((x, x.func.value.id, list(x.args[0].elts)))
        elif isinstance(x, ast.AugAssign) and isinstance(x.op, ast.Add) and isinstance(x.target, ast.Name) and isinstance(x.value, (ast.List, ast.Tuple)):
            out.append((x, x.target.id, list(x.value.elts)))
    out.sort(key=lambda p: (getattr(p[0], "lineno", 0), getattr(p[0], "col_offset", 0)))
    return out


def _r31_weighting(ctx: Ctx) -> None:
    repo = ctx.repo
    fi = repo.func("routing.rules.Rule._parse_rule")
    fields = _weighting_fields(ctx)
    names = [f for f, _ in fields]
    list_fields = [f for f, a in fields if a.startswith("list")]
    int_fields = [f for f, a in fields if a == "int"]
    if len(list_fields) != 2 or len(int_fields) != 2:
        raise AnalysisError(f"Weighting fields are {fields}: expected two counts and two lists")
    cfg = cfg_of(fi)
    rd = ReachingDefs(cfg, fi.params)
    # which local list receives converter weights: X.append(<conv>.weight) with <conv> bound from self.get_converter(...)
    conv_lists: set[str] = set()
    lit_lists: set[str] = set()
    nconv = 0
    al = guards.Aliases(cfg, rd)
    for c, recv_id, elems in _list_growth(fi.node):
        node = cfg.node_of(c)
        for a0 in elems:
            a = al.expand(a0, node) if node is not None and isinstance(a0, ast.Name) else a0  # `w = conv.weight; xs.append(w)`
            if isinstance(a, ast.Attribute) and a.attr == "weight" and isinstance(a.value, ast.Name):
                at = node
                if a is not a0 and node is not None:
                    wd = rd.reaching(node, a0.id)  # type: ignore[union-attr]
                    at = next(iter(wd)).node if len(wd) == 1 else node
                defs = rd.reaching(at, a.value.id) if at is not None else frozenset()
                from_conv = bool(defs) and all(d.kind == "assign" and isinstance(d.value, ast.Call) and isinstance(d.value.func, ast.Attribute) and d.value.func.attr == "get_converter" for d in defs)
                nconv += 1
                ctx.ob("R3.1", "a variable contributes the weight of the converter that get_converter returned for it", from_conv,
                       f"`{norm(c)}`: `{a.value.id}` bound from {[norm(d.value)[:50] if d.value is not None else d.kind for d in defs]}", fi, c, "argument weight is the converter's weight")
                if from_conv:
                    conv_lists.add(recv_id)
            else:
                lit_lists.add(recv_id)
    if nconv == 0:
        ctx.ob("R3.1", "a variable contributes the weight of the converter that get_converter returned for it", False,
               "no `<list>.append(<converter>.weight)` in _parse_rule: the converters' weights never reach the part's Weighting", fi, fi.node, "argument weight is the converter's weight")
    wsites = [x for x in _ctor_sites(ctx, fi) if x.callee == "Weighting"]
    # one construction is enough (the two of today's tree may be folded into one helper / closure); zero = nothing to check
    ctx.floor("R3.1", "Weighting constructions in _parse_rule", len(wsites), 1)
    for site in wsites:
        c = site.site
        f = _call_fields(site.eff, fields)
        lists = {k: f.get(k) for k in list_fields}
        arg_f = [k for k, v in lists.items() if isinstance(v, ast.Name) and v.id in conv_lists]
        ok_arg = len(arg_f) == 1
        ctx.ob("R3.1", "Weighting carries the list of converter weights", ok_arg,
               f"`{norm(site.eff)}`{' (through ' + site.via + ')' if site.via else ''}: list fields {[(k, norm(v) if v is not None else None) for k, v in lists.items()]}, converter-weight lists {sorted(conv_lists)}", fi, c, "Weighting has the converter weights")
        if not ok_arg:
            continue
        lit_f = [k for k in list_fields if k != arg_f[0]][0]
        lit_v = lists[lit_f]
        # the count that precedes the literal list in the tuple is minus its length
        pos = names.index(lit_f)
        cnt_f = names[pos - 1] if pos > 0 and names[pos - 1] in int_fields else None
        cnt_v = f.get(cnt_f) if cnt_f else None
        ok_cnt = (
            cnt_v is not None and lit_v is not None and isinstance(cnt_v, ast.UnaryOp) and isinstance(cnt_v.op, ast.USub)
            and isinstance(cnt_v.operand, ast.Call) and astq.is_name(cnt_v.operand.func, "len") and len(cnt_v.operand.args) == 1
            and norm(cnt_v.operand.args[0]) == norm(lit_v) and isinstance(lit_v, ast.Name) and lit_v.id in lit_lists and lit_v.id not in conv_lists
        )
        ctx.ob("R3.1", "more literal pieces sort first: the count before the literal list is minus its length", ok_cnt,
               f"`{norm(site.eff)}`: {cnt_f} = {norm(cnt_v) if cnt_v is not None else None}, {lit_f} = {norm(lit_v) if lit_v is not None else None}", fi, c, "literal count is -len(literal list)")


# ----------------------------------------------------------------------
# R3.2: the rule loops as truth tables


class _RuleLoop:
    def __init__(self, m: _Matcher, cfg: CFG, locs: _Locals, fn: ast.AST, loop: ast.For):
        self.loop = loop
        self.cfg = cfg
        if not isinstance(loop.target, ast.Name):
            raise AnalysisError(f"rule loop at line {loop.lineno}: target is not a single name")
        self.var = loop.target.id
        self.map = {self.var: "$r"}
        heads = cfg.by_ast.get(id(loop))
        if not heads:
            raise AnalysisError(f"rule loop at line {loop.lineno}: no CFG node")
        self.head = heads[0]
        self.body_ids = {id(x) for st in loop.body for x in ast.walk(st)}
        enc = astq.enclosing(loop, (ast.If,))
        under = norm(enc.test) if isinstance(enc, ast.If) and _inside(enc, fn) else "always"
        self.label = f"rule loop over {norm(loop.iter)} under `{under}`"
        self.weight = m.loop_weight.get(id(loop), 1)
        self.m = m
        # atoms: the leaves of every test in the body, local flags / aliases replaced by what they stand for
        self.locals = locs
        self.expanded: dict[int, ast.AST] = {}
        self.atoms: dict[str, bool] = {}  # key -> request dependent
        for tn in cfg.nodes:
            if tn.kind == "test" and id(tn.ast) in self.body_ids:
                ex = self.expanded[tn.id] = locs.expand(tn.ast, tn)
                for leaf in _leaves(ex):
                    key, _ = canon_atom(leaf, self.map)
                    self.atoms[key] = self.atoms.get(key, False) or bool(astq.names_in(leaf) & set(m.request_params))
        self.keys = sorted(self.atoms)
        self.admission = [k for k in self.keys if not self.atoms[k]]
        self.request = [k for k in self.keys if self.atoms[k]]
        self.method_atoms = [k for k in self.request if "$r.methods" in k]
        if len(self.keys) > 10:
            raise AnalysisError(f"{self.label}: {len(self.keys)} condition atoms, truth table too large")
        self.table: dict[tuple[bool, ...], frozenset[str]] = {}
        for bits in itertools.product((False, True), repeat=len(self.keys)):
            self.table[bits] = self._run(dict(zip(self.keys, bits)))

    def _classify(self, n: Node) -> str | None:
        m = self.m
        st = n.ast
        txt = lambda e: _text(self.locals.expand(e, n), self.map)  # noqa: E731
        if isinstance(st, ast.Expr) and isinstance(st.value, ast.Call):
            c = st.value
            if isinstance(c.func, ast.Attribute) and astq.is_name(c.func.value, m.H) and c.func.attr in ("update", "add", "__ior__"):
                return "record" if any(txt(a).startswith("$r.methods") for a in c.args) else "record-other"
        if isinstance(st, ast.AugAssign) and astq.is_name(st.target, m.H):
            return "record" if txt(st.value).startswith("$r.methods") else "record-other"
        if isinstance(st, ast.Assign) and any(astq.is_name(tg, m.W) for tg in st.targets):
            return "wsflag" if isinstance(st.value, ast.Constant) and st.value.value is True else "wsflag-other"
        return None

    def _run(self, val: dict[str, bool]) -> frozenset[str]:
        cfg = self.cfg
        acts: set[str] = set()
        nxt = cfg.succ(self.head, "T")
        if len(nxt) != 1:
            raise AnalysisError(f"{self.label}: loop head has {len(nxt)} body successors")
        n = nxt[0]
        for _ in range(400):
            if n is self.head:
                return frozenset(acts)
            if n is cfg.exit or n is cfg.raise_exit or n.ast is None or id(n.ast) not in self.body_ids:
                return frozenset(acts | {"leave"})
            if n.kind == "test":
                def leaf_truth(leaf: ast.AST) -> bool:
                    key, pos = canon_atom(leaf, self.map)
                    return val[key] if pos else not val[key]

                truth = _eval(self.expanded[n.id], leaf_truth)
                s = cfg.succ(n, "T" if truth else "F")
                if not s:
                    return frozenset(acts | {"dead"})
                n = s[0]
                continue
            if n.kind != "stmt":
                raise AnalysisError(f"{self.label}: unexpected `{n.kind}` node ({n.text()[:40]}) inside a rule loop")
            a = n.ast
            if isinstance(a, ast.Return):
                hit = a.value is not None and self.var in astq.names_in(a.value)
                return frozenset(acts | {"hit" if hit else "return-other"})
            if isinstance(a, ast.Raise) or cfg._is_noreturn_call(a):
                # a *proposal* for this rule (slash redirect), not a match: the path as given is not admitted,
                # so no 405 bookkeeping is owed for it (whether the proposal itself is method-guarded is C12-R12.5)
                return frozenset(acts | {"propose"})
            k = self._classify(n)
            if k:
                acts.add(k)
            s = cfg.succ(n, None)
            if not s:
                return frozenset(acts | {"dead"})
            n = s[0]
        raise AnalysisError(f"{self.label}: simulation did not terminate")

    # -- queries on the truth table --
    def out(self, val: dict[str, bool]) -> frozenset[str]:
        return self.table[tuple(val[k] for k in self.keys)]

    def rows(self) -> t.Iterator[dict[str, bool]]:
        for bits in sorted(self.table):
            yield dict(zip(self.keys, bits))

    def admits(self, val: dict[str, bool]) -> bool:
        """some request (method, websocket) makes this loop return / propose the rule, the admission atoms being as in val."""
        for bits in itertools.product((False, True), repeat=len(self.request)):
            v = dict(val)
            v.update(zip(self.request, bits))
            if "hit" in self.out(v):
                return True
        return False

    def fmt(self, val: dict[str, bool], keys: t.Iterable[str] | None = None) -> str:
        return ", ".join(f"{k}={'T' if val[k] else 'F'}" for k in (keys or self.keys))


def _rule_loops(m: _Matcher) -> list[_RuleLoop]:
    out = []
    cfgs: dict[int, CFG] = {id(m.search): m.search_cfg, id(m.match.node): m.match_cfg}
    locs: dict[int, _Locals] = {}
    for n in m.rule_loops:
        fn = _enclosing_func(n)
        if fn is None or isinstance(fn, ast.Lambda):
            raise AnalysisError(f"{m.match.fq}: rule loop at line {n.lineno} outside a function")
        if id(fn) not in cfgs:
            cfgs[id(fn)] = CFG(fn)
        if id(fn) not in locs:
            a = fn.args  # type: ignore[union-attr]
            locs[id(fn)] = _Locals(cfgs[id(fn)], [x.arg for x in [*a.posonlyargs, *a.args, *a.kwonlyargs]])
        out.append(_RuleLoop(m, cfgs[id(fn)], locs[id(fn)], fn, n))
    out.sort(key=lambda l: l.loop.lineno)
    return out


def _r32(ctx: Ctx, m: _Matcher) -> None:
    fi = m.match
    if m.H is None:
        raise AnalysisError(f"{fi.fq}: cannot identify the set that collects the methods of discarded rules")
    loops = _rule_loops(m)
    ctx.floor("R3.2", "loops over candidate rules in the search", sum(l.weight for l in loops), 3)
    hitting = [l for l in loops if any(("hit" in o or "propose" in o) for o in l.table.values())]
    ctx.floor("R3.2", "rule loops that can return / propose a rule", sum(l.weight for l in hitting), 3)
    for l in loops:
        odd = sorted({a for o in l.table.values() for a in o if a in ("record-other", "wsflag-other", "return-other", "dead")})
        if odd:
            raise AnalysisError(f"{l.label}: statement shapes not understood: {odd}")
    # (A) recording only for admitted rules
    for l in loops:
        if not any(o & {"record", "wsflag"} for o in l.table.values()):
            continue
        bad = None
        for v in l.rows():
            o = l.out(v)
            if o & {"record", "wsflag"} and not l.admits(v):
                bad = (v, o)
                break
        ctx.ob(
            "R3.2", f"{l.label}: methods / websocket mismatch are recorded only for rules that admit the path", bad is None,
            (f"path-admission atoms {l.admission or '(none)'}; every row that records has a row with the same admission atoms that returns the rule"
             if bad is None else
             f"row [{l.fmt(bad[0])}] performs {sorted(bad[1])} although no method / websocket makes the loop return a rule with admission atoms [{l.fmt(bad[0], l.admission)}]: a rule that does not admit the path is reported in have_match_for (405 instead of 404)"),
            fi, l.loop, f"{l.label}: records only admitted rules",
        )
    # (B)+(C) an admitted rule discarded only because of its methods is recorded; siblings agree
    for l in hitting:
        bad_c = None
        for v in l.rows():
            o = l.out(v)
            if "hit" in o or not l.admits(v):
                continue
            # would it be a hit with only the method atoms changed?
            solely = False
            for bits in itertools.product((False, True), repeat=len(l.method_atoms)):
                v2 = dict(v)
                v2.update(zip(l.method_atoms, bits))
                if "hit" in l.out(v2):
                    solely = True
                    break
            if solely and "record" not in o:
                bad_c = (v, o)
                break
        bad_b = None
        for s in hitting:
            if s is l or bad_b is not None:
                continue
            keys = sorted(set(l.keys) | set(s.keys))
            for bits in itertools.product((False, True), repeat=len(keys)):
                u = dict(zip(keys, bits))
                if not (l.admits(u) and s.admits(u)):
                    continue
                ol, os_ = l.out(u), s.out(u)
                missing = sorted(a for a in ("record", "hit") if a in os_ and a not in ol)
                if missing:
                    bad_b = (s, u, missing)
                    break
        ok = bad_c is None and bad_b is None
        if ok:
            fact = f"atoms {l.keys}: every admitted rule that is discarded only because of {l.method_atoms or 'its methods'} is recorded; agrees with {len(hitting) - 1} sibling loop(s)"
        else:
            parts = []
            if bad_c is not None:
                parts.append(f"row [{l.fmt(bad_c[0])}]: the rule admits the path and only its methods exclude it, but the loop performs {sorted(bad_c[1]) or 'nothing'} - have_match_for is not updated (404 instead of 405)")
            if bad_b is not None:
                s, u, missing = bad_b
                parts.append(f"sibling `{s.label}` performs {missing} on row [{', '.join(k + '=' + ('T' if u[k] else 'F') for k in sorted(u))}] where this loop does not")
            fact = "; ".join(parts)
        ctx.ob("R3.2", f"{l.label}: a rule discarded because of its methods is recorded in {m.H} (siblings agree)", ok, fact, fi, l.loop,
               f"{l.label}: discarded methods recorded")


# ----------------------------------------------------------------------
# R3.3


def _r33(ctx: Ctx, m: _Matcher) -> None:
    repo = ctx.repo
    ad = repo.func("routing.map.MapAdapter.match")
    cfg = cfg_of(ad)
    li = ad.module.local_imports(ad.node)

    def res(e: ast.AST | None) -> str:
        d = dotted(e.func if isinstance(e, ast.Call) else e) if e is not None else None
        return repo.resolve(ad.module, d, li) or "" if d else ""

    handler = None
    for tr in walk_no_nested(ad.node):
        if isinstance(tr, ast.Try) and any(isinstance(c.func, ast.Attribute) and c.func.attr == "match" and norm(c.func.value).endswith("._matcher") for s in tr.body for c in astq.calls(s)):
            for h in tr.handlers:
                if h.type is not None and _last(res(h.type)) == "NoMatch":
                    handler = h
    if handler is None or handler.name is None:
        raise AnalysisError(f"{ad.fq}: no `except NoMatch as e` around the matcher call")
    hn = cfg.by_ast.get(id(handler), [None])[0]
    if hn is None:
        raise AnalysisError(f"{ad.fq}: handler has no CFG node")
    target = f"{handler.name}.have_match_for"
    nonempty, empty = _polar_edges(cfg, target)
    nonempty = [(tn, l) for tn, l in nonempty if _inside(tn.ast, handler)]
    empty = [(tn, l) for tn, l in empty if _inside(tn.ast, handler)]
    if not nonempty:
        raise AnalysisError(f"{ad.fq}: the NoMatch handler never tests `{target}` in a form the rule understands")
    raises = [r for r in astq.raises_of(ad.node)]
    mna = [r for r in raises if _last(res(r.exc)) == "MethodNotAllowed"]
    nf = [r for r in raises if _last(res(r.exc)) == "NotFound"]
    ctx.floor("R3.3", "raise MethodNotAllowed in MapAdapter.match", len(mna), 1)
    ctx.floor("R3.3", "raise NotFound in MapAdapter.match", len(nf), 1)
    for r in mna:
        rn = cfg.node_of(r)
        inh = _inside(r, handler)
        dom = rn is not None and any(cfg.edge_dominates(tn, l, rn) for tn, l in nonempty)
        arg = astq.arg_or_kw(r.exc, 0, "valid_methods") if isinstance(r.exc, ast.Call) else None
        uses = arg is not None and any(norm(x) == target for x in ast.walk(arg)) and not any(isinstance(x, (ast.BinOp, ast.IfExp, ast.Subscript)) for x in ast.walk(arg))
        ctx.ob("R3.3", "MethodNotAllowed is raised only when have_match_for is non-empty", inh and dom,
               f"inside the NoMatch handler: {inh}; dominated by the non-empty edge of `{target}`: {dom}", ad, r, "MethodNotAllowed guarded by have_match_for")
        ctx.ob("R3.3", "MethodNotAllowed lists exactly the recorded methods", uses,
               f"valid_methods = {norm(arg) if arg is not None else None}", ad, r, "MethodNotAllowed carries have_match_for")
    for r in nf:
        rn = cfg.node_of(r)
        inh = _inside(r, handler)
        dom = rn is not None and any(cfg.edge_dominates(tn, l, rn) for tn, l in empty)
        ctx.ob("R3.3", "NotFound is raised only from the NoMatch handler with have_match_for empty", inh and dom,
               f"inside the NoMatch handler: {inh}; dominated by the empty edge of `{target}`: {dom}", ad, r, "NotFound guarded by empty have_match_for")
    mnodes = [x for x in (cfg.node_of(r) for r in mna) if x is not None]
    r_ = cfg.reach(hn, avoid_nodes=mnodes, avoid_edges=empty)
    leak = cfg.exit.id in r_ or cfg.raise_exit.id in r_
    w = None
    if leak:
        w = cfg.path(hn, cfg.raise_exit, avoid_nodes=mnodes, avoid_edges=empty) or cfg.path(hn, cfg.exit, avoid_nodes=mnodes, avoid_edges=empty)
    ctx.ob("R3.3", "with have_match_for non-empty every path through the handler raises MethodNotAllowed", not leak,
           "no path from the handler to an exit avoids the raise unless it takes an `empty` edge" if not leak else "path: " + cfg.fmt_path(w or []), ad, handler, "non-empty have_match_for always raises MethodNotAllowed")

    # plumbing: NoMatch stores its first argument under the attribute the handler reads; the matcher passes the set its loops update
    nm = repo.cls("routing.exceptions.NoMatch")
    init = nm.methods.get("__init__")
    if init is None:
        raise AnalysisError("NoMatch.__init__ missing")
    p1 = [p for p in init.params if p != "self"][:1]
    stored = any(isinstance(st, ast.Assign) and any(astq.is_self_attr(tg, "have_match_for") for tg in st.targets) and astq.is_name(st.value, p1[0] if p1 else None) for st in walk_no_nested(init.node))
    ctx.ob("R3.3", "NoMatch stores its first argument as have_match_for", bool(p1) and stored, f"first parameter `{p1[0] if p1 else None}`", init, init.node, "NoMatch stores have_match_for")
    fi = m.match
    ctx.floor("R3.3", "NoMatch(...) raises in the matcher", len(m.nomatch_calls), 3)
    for c in m.nomatch_calls:
        a0 = c.args[0] if c.args else astq.kwarg(c, "have_match_for")
        ok = m.H is not None and astq.is_name(a0, m.H)
        ctx.ob("R3.3", "NoMatch is raised with the set the rule loops update", ok, f"`{norm(c)}`", fi, c, f"NoMatch gets {m.H or 'one set'}")
    if m.H is not None:
        # `H |= ...` updates the set in place; only true rebindings count
        binds = [(st, v) for st, v in astq.assigns_to(fi.node, m.H, nested=True) if not isinstance(st, ast.AugAssign)]
        ok = len(binds) == 1 and binds[0][1] is not None and norm(binds[0][1]) in ("set()", "{*()}") and _enclosing_func(binds[0][0]) is fi.node
        ctx.ob("R3.3", "have_match_for is one set, created empty per match() call and never rebound", ok,
               f"bindings of `{m.H}`: {[norm(st)[:50] for st, _ in binds]}", fi, binds[0][0] if binds else fi.node, f"{m.H} bound once to an empty set")
        shrink = [c for c in astq.calls(fi.node) if isinstance(c.func, ast.Attribute) and astq.is_name(c.func.value, m.H) and c.func.attr in ("clear", "discard", "remove", "pop", "difference_update", "intersection_update", "symmetric_difference_update")]
        shrink += [x for x in ast.walk(fi.node) if isinstance(x, ast.AugAssign) and astq.is_name(x.target, m.H) and isinstance(x.op, (ast.Sub, ast.BitAnd, ast.BitXor))]  # type: ignore[misc]
        ctx.ob("R3.3", "recorded methods are never removed again", not shrink, f"{[norm(c) for c in shrink]}", fi, shrink[0] if shrink else fi.node, f"{m.H} only grows")


# ----------------------------------------------------------------------
# R3.4


def _rejecting_converters(ctx: Ctx, scope: t.Callable[[ClassInfo], bool]) -> tuple[int, list[tuple[FuncInfo, list[ast.Raise], list[str]]]]:
    repo = ctx.repo
    base = repo.cls("routing.converters.BaseConverter")
    ve = repo.cls("routing.converters.ValidationError")
    classes = [c for c in repo.all_classes() if any(k.fq == base.fq for k in repo.mro(c)) and scope(c)]
    by_owner: dict[str, tuple[FuncInfo, list[ast.Raise], list[str]]] = {}
    for c in sorted(classes, key=lambda c: c.fq):
        owner, what = repo.lookup(c, "to_python")
        if not isinstance(what, FuncInfo):
            raise AnalysisError(f"{c.fq}.to_python does not resolve to a method")
        ctx.saw(what)
        rs = []
        for r in astq.raises_of(what.node):
            d = dotted(r.exc.func if isinstance(r.exc, ast.Call) else r.exc) if r.exc is not None else None
            fq = repo.resolve(what.module, d, what.module.local_imports(what.node)) if d else None
            rc = repo.try_cls(fq) if fq and fq.startswith("werkzeug") else None
            if rc is not None and any(k.fq == ve.fq for k in repo.mro(rc)):
                rs.append(r)
        if rs:
            ent = by_owner.setdefault(what.fq, (what, rs, []))
            ent[2].append(c.name)
    return len(classes), list(by_owner.values())


def _catches_validation(ctx: Ctx, fi: FuncInfo, h: ast.ExceptHandler) -> bool:
    if h.type is None:
        return True
    types = h.type.elts if isinstance(h.type, ast.Tuple) else [h.type]
    for tnode in types:
        nm = _last(dotted(tnode))
        if nm in ("ValidationError", "ValueError", "Exception", "BaseException"):
            return True
    return False


def _r34(ctx: Ctx, m: _Matcher, scope: t.Callable[[ClassInfo], bool], floor: bool = True) -> None:
    fi = m.match
    nclasses, rejecting = _rejecting_converters(ctx, scope)
    if floor:
        ctx.floor("R3.4", "converter classes examined", nclasses, 8)
    sites = [c for c in astq.calls(fi.node) if isinstance(c.func, ast.Attribute) and c.func.attr == "to_python"]
    if floor:
        ctx.floor("R3.4", "to_python call sites in the matcher", len(sites), 1)
    if not rejecting:
        ctx.ob("R3.4", "no converter rejects a value after its regex matched", True, f"{nclasses} converter classes, none raises ValidationError in to_python", fi, fi.node, "no late rejection")
        return
    for c in sites:
        fn = _enclosing_func(c)
        in_search = fn is m.search or (fn is not None and _inside(fn, m.search))
        cfg = m.search_cfg if fn is m.search else m.match_cfg if fn is fi.node else CFG(fn)  # type: ignore[arg-type]
        # innermost try whose body contains the call and that has a handler for the exception
        handler = None
        cur = astq.parent(c)
        child: ast.AST = c
        while cur is not None and cur is not fn:
            if isinstance(cur, ast.Try) and any(child is s or _inside(child, s) or child is s for s in cur.body):
                hs = [h for h in cur.handlers if _catches_validation(ctx, fi, h)]
                if hs:
                    handler = hs[0]
                    break
            child = cur
            cur = astq.parent(cur)
        for owner, rs, users in rejecting:
            who = f"{owner.qualname} (used by {', '.join(users)})"
            cons = f"{owner.qualname} rejection does not end the match"
            guards = sorted({norm(astq.enclosing(r, (ast.If,)).test)[:70] if astq.enclosing(r, (ast.If,)) is not None else "unconditional" for r in rs})
            if handler is None:
                ctx.ob("R3.4", f"{who}: ValidationError is handled where to_python is called", False,
                       f"`{norm(c)[:60]}` is not inside a handler for ValidationError; raised under {guards}", fi, c, cons)
                continue
            hn = cfg.by_ast.get(id(handler), [None])[0]
            if hn is None:
                raise AnalysisError(f"{fi.fq}: no CFG node for the ValidationError handler")
            resume = [n for n in cfg.nodes if n.ast is not None and n.kind in ("stmt", "test") and any(isinstance(k.func, ast.Name) and k.func.id == m.search.name for k in astq.calls(n.ast, nested=False))]
            r_ = cfg.reach(hn, avoid_nodes=resume)
            if in_search:
                ends = cfg.raise_exit.id in r_
            else:
                ends = cfg.raise_exit.id in r_ or cfg.exit.id in r_
            w = None
            if ends:
                w = cfg.path(hn, cfg.raise_exit, avoid_nodes=resume) or cfg.path(hn, cfg.exit, avoid_nodes=resume)
            ctx.ob(
                "R3.4", f"{who}: a ValidationError from to_python resumes the search instead of ending the match", not ends,
                (f"handler at line {handler.lineno} returns control to the search" if not ends else
                 f"to_python raises ValidationError under {guards} on strings the regex accepted; the handler `except {norm(handler.type) if handler.type else ''}` leaves match() without trying the remaining candidates: "
                 + cfg.fmt_path(w or []) + " - another rule that admits the path is shadowed into NoMatch"),
                fi, handler, cons,
            )


# ----------------------------------------------------------------------
# R3.6: the merged-slashes retry belongs to maps with merge_slashes on


def _merges_slashes(ctx: Ctx, fi: FuncInfo, folder: Folder, c: ast.Call) -> bool:
    """`re.sub(P, "/", x)`, `re.compile(P).sub("/", x)`, `<P>.sub("/", x)` with a constant pattern that matches a run
    of slashes, or `x.replace("//", "/")`."""
    f = c.func
    li = fi.module.local_imports(fi.node)
    pat: t.Any = None
    repl: ast.AST | None = None
    d = dotted(f)
    try:
        if d and ctx.repo.resolve(fi.module, d, li) == "re.sub":
            if not c.args:
                return False
            pat = folder.expr(fi.module, c.args[0])
            repl = astq.arg_or_kw(c, 1, "repl")
        elif isinstance(f, ast.Attribute) and f.attr == "sub":
            pat = folder.expr(fi.module, f.value)
            repl = astq.arg_or_kw(c, 0, "repl")
        elif isinstance(f, ast.Attribute) and f.attr == "replace" and len(c.args) >= 2:
            return astq.const_str(c.args[0]) == "//" and astq.const_str(c.args[1]) == "/"
        else:
            return False
    except Unfoldable:
        return False
    if isinstance(pat, str):
        pat = RegexConst(pat, 0)
    if not isinstance(pat, RegexConst) or not isinstance(pat.pattern, str) or repl is None or astq.const_str(repl) != "/":
        return False
    try:
        return matches_const(pat, "//") and not matches_const(pat, "/") and not matches_const(pat, "a")
    except Exception:  # a pattern the re module rejects
        return False


def _evaluated(n: Node) -> list[ast.AST]:
    a = n.ast
    if a is None or n.kind in ("join", "handler"):
        return []
    if isinstance(a, (ast.For, ast.AsyncFor)):
        return [a.iter]
    if isinstance(a, (ast.With, ast.AsyncWith)):
        return [i.context_expr for i in a.items]
    if isinstance(a, (ast.FunctionDef, ast.AsyncFunctionDef, ast.ClassDef)):
        return []
    return [a]


def _r36(ctx: Ctx, m: _Matcher) -> None:
    fi, cfg = m.match, m.match_cfg
    folder = Folder(ctx.repo)
    rd = ReachingDefs(cfg, fi.params)
    al = guards.Aliases(cfg, rd)
    flag = "self.merge_slashes"
    local_funcs = {n.name for n in ast.walk(fi.node) if n is not fi.node and isinstance(n, (ast.FunctionDef, ast.AsyncFunctionDef))}

    # edges taken when the flag is true (the flag itself, `flag is True`, a local alias of it, ...)
    on_edges: list[tuple[Node, str]] = []
    for tn in cfg.tests():
        if tn.kind != "test":
            continue
        for e in (tn.ast, al.expand(tn.ast, tn)):
            pol = truthy_polarity(e, flag)
            if pol is not None:
                on_edges.append((tn, "T" if pol else "F"))
                break
    rebinds = [st for st in ast.walk(fi.node) if isinstance(st, (ast.Assign, ast.AugAssign, ast.AnnAssign)) and any(norm(tg) == flag for tg in (st.targets if isinstance(st, ast.Assign) else [st.target]))]
    if rebinds:
        raise AnalysisError(f"{fi.fq}: `{flag}` is assigned inside match(); its tests no longer speak about the map's setting")
    off_reach = cfg.reach(cfg.entry, avoid_edges=on_edges)

    def guarded(n: Node) -> bool:
        """no path on which every test of the flag takes its `off` edge reaches n"""
        return n.id not in off_reach

    def effectful(e: ast.AST) -> bool:
        """does evaluating e run the search (a closure of match(), a method of the matcher) or leave match()?"""
        for k in astq.calls(e):
            if isinstance(k.func, ast.Name) and k.func.id in local_funcs:
                return True
            if isinstance(k.func, ast.Attribute) and isinstance(k.func.value, ast.Name) and k.func.value.id == "self":
                return True
        return False

    merges = [c for c in astq.calls(fi.node) if _merges_slashes(ctx, fi, folder, c)]
    if not merges:
        raise AnalysisError(f"{fi.fq}: cannot find the statement that merges repeated slashes in the path (re.sub of a constant slash-run pattern with '/')")
    ctx.floor("R3.6", "slash-merging statements in the matcher", len(merges), 1)
    tainted: set[t.Any] = set()
    uses: dict[int, tuple[Node, str]] = {}
    for c in merges:
        F = _enclosing_func(c)
        if F is not fi.node:
            # inside a closure of match(): the closure's calls in match() are the uses
            if not isinstance(F, (ast.FunctionDef, ast.AsyncFunctionDef)) or _enclosing_func(F) is not fi.node:
                raise AnalysisError(f"{fi.fq}: slashes are merged inside a nested construct the rule does not follow")
            for k in astq.calls(fi.node, nested=False):
                if isinstance(k.func, ast.Name) and k.func.id == F.name:
                    kn = cfg.node_of(k)
                    if kn is None:
                        raise AnalysisError(f"{fi.fq}: no CFG node for `{norm(k)[:50]}`")
                    if _pure_binding(kn, k):
                        tainted.update(rd.gen[kn.id])
                    else:
                        uses[kn.id] = (kn, F.name + "(...)")
            continue
        n = cfg.node_of(c)
        if n is None:
            raise AnalysisError(f"{fi.fq}: no CFG node for `{norm(c)[:50]}`")
        if _pure_binding(n, None) and not effectful(n.ast.value):  # type: ignore[union-attr]
            tainted.update(rd.gen[n.id])
        else:
            uses[n.id] = (n, "the merged path")
    # everything the merged path flows into
    names = lambda: {d.name for d in tainted}  # noqa: E731
    changed = True
    while changed:
        changed = False
        for n in cfg.nodes:
            if n.id in uses:
                continue
            hit = None
            for root in _evaluated(n):
                for x in ast.walk(root):
                    if isinstance(x, ast.Name) and isinstance(x.ctx, ast.Load) and x.id in names() and rd.reaching(n, x.id) & tainted:
                        hit = x.id
            if hit is None:
                continue
            if _pure_binding(n, None) and not effectful(n.ast.value):  # type: ignore[union-attr]
                new = [d for d in rd.gen[n.id] if d not in tainted]
                if new:
                    tainted.update(new)
                    changed = True
                continue
            uses[n.id] = (n, f"`{hit}`")
            changed = True
    # a closure of match() that reads a tainted name as a free variable is outside what the flow above sees
    for F in ast.walk(fi.node):
        if F is fi.node or not isinstance(F, (ast.FunctionDef, ast.AsyncFunctionDef)):
            continue
        own = {a.arg for a in [*F.args.posonlyargs, *F.args.args, *F.args.kwonlyargs]} | {nm for nm in names() if astq.assigns_to(F, nm)}
        free = {x.id for x in ast.walk(F) if isinstance(x, ast.Name) and isinstance(x.ctx, ast.Load) and x.id in names()} - own
        if free and not any(_merges_slashes(ctx, fi, folder, k) for k in astq.calls(F)):
            raise AnalysisError(f"{fi.fq}: closure {F.name} reads {sorted(free)}, which may hold the merged path: flow not followed")
    ctx.floor("R3.6", "statements that use the merged path", len(uses), 1)
    for n, what in sorted(uses.values(), key=lambda p: p[0].lineno):
        ok = guarded(n)
        ctx.ob(
            "R3.6", "the path with merged slashes is used only when the map-level merge_slashes is on", ok,
            f"`{norm(n.ast)[:70]}` uses {what}; dominated by `{flag}` being true: {ok}"
            + ("" if ok else " - with Map(merge_slashes=False) a path with doubled slashes is matched against the merged path: the retry's side exits (slash redirect, 405 bookkeeping) answer for a path no rule admits"),
            fi, n.ast, f"merged path used under merge_slashes: {norm(n.ast)[:60]}",
        )


def _pure_binding(n: Node, call: ast.Call | None) -> bool:
    """n is `name = <expr>` (a plain local binding)."""
    a = n.ast
    if n.kind != "stmt":
        return False
    if isinstance(a, ast.Assign):
        return all(isinstance(tg, ast.Name) for tg in a.targets) and (call is None or a.value is call)
    if isinstance(a, ast.AnnAssign):
        return isinstance(a.target, ast.Name) and a.value is not None and (call is None or a.value is call)
    return False


# ----------------------------------------------------------------------
# R3.5


def _r35_function(ctx: Ctx, fi: FuncInfo) -> tuple[int, int]:
    """(stores examined, mutation sites examined) for one function."""
    repo = ctx.repo
    cfg = cfg_of(fi)
    rd = ReachingDefs(cfg, fi.params)
    muts = repo.mutators("list")
    stores: list[tuple[ast.Call, str, Node, str]] = []
    for site in _ctor_sites(ctx, fi):
        c = site.site
        node = cfg.node_of(c)
        if node is None:
            continue
        seen_here: set[str] = set()
        for a in list(site.eff.args) + [k.value for k in site.eff.keywords]:
            if isinstance(a, ast.Name) and a.id not in seen_here:
                # a local that is (somewhere in the function) bound to a fresh list
                if rd.reaching(node, a.id) and any(_is_fresh_list(v) for _, v in astq.assigns_to(fi.node, a.id)):
                    seen_here.add(a.id)
                    stores.append((c, a.id, node, site.callee))
    if not stores:
        return 0, 0
    names = {nm for _, nm, _, _ in stores}
    mut_sites: dict[str, list[tuple[ast.AST, Node]]] = {nm: [] for nm in names}
    kills: dict[str, list[Node]] = {nm: [] for nm in names}
    for n in cfg.nodes:
        a = n.ast
        if a is None or n.kind not in ("stmt", "test", "loop", "with"):
            continue
        scan = [a.iter] if isinstance(a, (ast.For, ast.AsyncFor)) else [i.context_expr for i in a.items] if isinstance(a, (ast.With, ast.AsyncWith)) else [a]
        for root in scan:
            for x in [root, *walk_no_nested(root)]:
                if isinstance(x, ast.Call) and isinstance(x.func, ast.Attribute) and isinstance(x.func.value, ast.Name) and x.func.value.id in names and x.func.attr in muts:
                    mut_sites[x.func.value.id].append((x, n))
                elif isinstance(x, ast.AugAssign) and isinstance(x.target, ast.Name) and x.target.id in names:
                    mut_sites[x.target.id].append((x, n))
                elif isinstance(x, ast.Subscript) and isinstance(x.value, ast.Name) and x.value.id in names and isinstance(x.ctx, (ast.Store, ast.Del)):
                    mut_sites[x.value.id].append((astq.stmt_of(fi, x) or x, n))
        if isinstance(a, (ast.Assign, ast.AnnAssign)):
            tgs = a.targets if isinstance(a, ast.Assign) else [a.target]
            if len(tgs) > 1 and _is_fresh_list(a.value) and any(isinstance(tg, ast.Name) and tg.id in names for tg in tgs):
                # one new list bound to several names: not a fresh list for each of them
                ctx.ob("R3.5", "every weight list is an object of its own", False,
                       f"`{norm(a)}` binds one list object to {len(tgs)} names; what is appended through one shows up in the other",
                       fi, a, f"shared fresh list {norm(a)}")
            for tg in tgs:
                if isinstance(tg, ast.Name) and tg.id in names and _is_fresh_list(a.value):
                    kills[tg.id].append(n)
    for c, nm, node, callee in stores:
        r = cfg.reach(node, avoid_nodes=kills[nm])
        hits = [(x, n) for x, n in mut_sites[nm] if n.id in r and n is not node]
        if not hits:
            ctx.ob("R3.5", f"list `{nm}` stored into {callee}(...) is not mutated afterwards", True,
                   f"{len(mut_sites[nm])} mutation site(s) of `{nm}`, none reachable from the store without passing a rebinding to a fresh list ({len(kills[nm])} rebinding(s))",
                   fi, c, f"{nm} stored in {callee} stays frozen")
            continue
        for x, n in hits:
            w = cfg.path(node, n, avoid_nodes=kills[nm])
            ctx.ob("R3.5", f"list `{nm}` stored into {callee}(...) is not mutated afterwards", False,
                   f"`{norm(x)}` (line {getattr(x, 'lineno', '?')}) mutates the very list object an already built {callee} holds - parts share / lose their weights; path without a fresh rebinding: {cfg.fmt_path(w or [])}",
                   fi, x, f"{nm} stored in {callee} then mutated by {norm(x)}")
    return len(stores), sum(len(v) for v in mut_sites.values())


def _r35(ctx: Ctx, funcs: list[FuncInfo], floor: bool = True) -> None:
    ns = nm = 0
    for fi in funcs:
        a, b = _r35_function(ctx, fi)
        ns += a
        nm += b
    if floor:
        # a part has a list of literal weights and a list of converter weights; how many constructions they are stored
        # by (two today) depends on how the parser is factored, so the floors only exclude "nothing found"
        ctx.floor("R3.5", "lists stored into Weighting / RulePart", ns, 2)
        ctx.floor("R3.5", "mutation sites of those lists", nm, 1)


def _weighting_builders(ctx: Ctx, module_filter: t.Callable[[str], bool]) -> list[FuncInfo]:
    out = []
    allf = ctx.repo.all_functions()
    # names of helpers that merely build and return such an object: a function calling one of them is a builder too
    via = {f.node.name for f in allf if _ctor_returned(f.node) is not None}  # type: ignore[attr-defined]
    for fi in allf:
        if not module_filter(fi.module.name):
            continue
        cs = astq.calls(fi.node, nested=False)
        if any(_last(dotted(c.func)) in CTORS for c in cs) or (any(_last(dotted(c.func)) in via for c in cs) and _ctor_sites(ctx, fi)):
            out.append(fi)
    return sorted(out, key=lambda f: f.fq)


# ----------------------------------------------------------------------


def run(ctx: Ctx) -> None:
    ctx.rule("R3.1", "priority order: static transition before dynamic ones; dynamic transitions sorted ascending by part weight in every state; the map is re-sorted before every match; converter weights int/float < string < path; a part's Weighting counts literal pieces negatively and carries its converters' weights")
    ctx.rule("R3.2", "405 bookkeeping: in every loop over candidate rules, methods are recorded only for rules passing the admission tests that guard `return rule, values`, an admitted rule discarded only for its methods is recorded, and sibling loops agree (truth tables over condition atoms)")
    ctx.rule("R3.3", "MapAdapter.match raises MethodNotAllowed iff NoMatch.have_match_for is non-empty, with exactly that set, NotFound only otherwise; the matcher passes NoMatch the one set its loops update")
    ctx.rule("R3.4", "a ValidationError raised by a converter's to_python on a string its regex accepted must resume the search, not end the whole match")
    ctx.rule("R3.5", "a list stored into a Weighting / RulePart is not mutated afterwards: the variable is rebound to a fresh list before the next append / clear")
    ctx.rule("R3.6", "the path with repeated slashes merged (and the retry of the search on it) is used only under the map-level merge_slashes flag")
    m = _Matcher(ctx)
    # R3.1
    _r31_order(ctx, m)
    _r31_sort(ctx, m)
    _r31_update_calls(ctx)
    _r31_weights(ctx)
    _r31_weighting(ctx)
    # R3.2
    _r32(ctx, m)
    # R3.3
    _r33(ctx, m)
    # R3.4
    _r34(ctx, m, lambda c: c.module.name.startswith("werkzeug.routing"))
    # R3.5
    funcs = _weighting_builders(ctx, lambda mn: mn.startswith("werkzeug.routing"))
    _r35(ctx, funcs)
    # R3.6
    _r36(ctx, m)


def run_thorough(ctx: Ctx) -> None:
    """scope widened to the whole package: converter subclasses and Weighting / RulePart builders outside werkzeug.routing."""
    m = _Matcher(ctx)
    outside = lambda c: not c.module.name.startswith("werkzeug.routing")  # noqa: E731
    n, rej = _rejecting_converters(ctx, outside)
    ctx.note(f"thorough: {n} converter class(es) outside werkzeug.routing, {len(rej)} with a rejecting to_python")
    if rej:
        _r34(ctx, m, outside, floor=False)
    funcs = _weighting_builders(ctx, lambda mn: not mn.startswith("werkzeug.routing"))
    ctx.note(f"thorough: {len(funcs)} function(s) outside werkzeug.routing build Weighting / RulePart objects")
    _r35(ctx, funcs, floor=False)
    # every acyclic path of the search function, for the record
    paths = m.search_cfg.acyclic_paths(limit=5000)
    ctx.note(f"thorough: {len(paths)} acyclic CFG paths through {m.match.fq}.{m.search.name}")
