"""C19 - the development server transports requests and responses faithfully (structural clauses)."""

from __future__ import annotations

import ast
import re
import typing as t

from .. import astq
from ..cfg import CFG, Node, cfg_of
from ..dataflow import ReachingDefs
from ..loader import AnalysisError, ClassInfo, FuncInfo, dotted, is_self_attr, norm, walk_no_nested
from ..report import Ctx
from . import _c19_helpers as H
from .. import guards as G

LEVEL_TEXT = (
    "Static decision of structural clauses of C19 on /repo's current source (serving.py): (R19.1) the response writer "
    "switches chunked framing on only under a guard that excludes a Content-Length header (compared in the case the "
    "header names were folded to: a membership test in a set / list / dict of the folded names - filled in the loop that sends the pairs or "
    "built by a comprehension over the headers sent -, an any() search, or a boolean flag set in that loop under `<name>.lower() == 'content-length'`), "
    "HEAD, every 1xx status, 204 and 304 (the guard atoms are evaluated over all status "
    "codes 100-599, module-level constants folded; a disjunction such as `code < 100 or code >= 200`, whose atoms dominate nothing on their own, is followed on the CFG: a code is "
    "admitted when some way to the decision leaves every test that can be evaluated for it by the edge the code takes; a guard that calls a side-effect-free predicate helper - a nested function or handler method made only of "
    "`if` / `return` - is replaced by the helper's condition) and requires protocol HTTP/1.1, and `Transfer-Encoding: chunked` is sent under exactly that guard, "
    "before end_headers; (R19.2) on every path through write() the bytes put on the wire are `hex(len) CRLF data CRLF` "
    "for non-empty data under chunking, the data alone otherwise, and nothing for an empty piece (pieces may be collected in a local list "
    "that is joined with b'' or handed to writelines); the last-chunk "
    "`0 CRLF CRLF` is written once, after the iteration and after the headers were forced out, only under chunking; "
    "status (int of the first token of a split / partition, however indexed) and every header pair (`for k, v in H: send_header(k, v)`, `for h in H: send_header(*h)` / `(h[0], h[1])`) reach send_response / send_header unfiltered, and the test that guards the status line / "
    "header block is a latch that the block closes with a constant or a value established as non-None / truthy by a "
    "dominating assert or guard - never by the truthiness of application data (a nested function of run_wsgi that is only ever called as a statement from a sibling nested function - the header block moved out of "
    "the writer - is expanded where it is called, its guard-clause `return`s turned into if / else and its nonlocal declarations moved along; `a, b = x, y` is read as `a = x`, `b = y` where the two mean the same); (R19.3) the chunk-size reader "
    "(the method that hands the size back and calls int() itself or through a helper - a method of the class or a function of the module whose every `return` ends a path - which is expanded into it) turns "
    "every parse failure and a negative size into OSError (in the reader itself, or around / right after every call of it in readinto) and parses base 16; the reader accepts every well-formed "
    "size line that ends the way the chunk terminator may end - sibling agreement of the two line readers on the framings the property lists: followed statement by "
    "statement on 8 sample size lines (hex digits in both cases, several digits, leading zeros, zero) for each of CRLF and LF, `readline()` answered by the sample, "
    "decode / strip / split / partition / slicing / int() executed on it, an int() failure taken to the handler that covers ValueError, methods of the class and "
    "functions of the module followed two levels, it must return the size the digits denote and never raise (a check of the line end that is stricter than the "
    "terminator check - endswith CRLF, a two-byte tail, partition at CRLF -, a digit class or a length limit that is too narrow refuses or misreads a sample; a size "
    "line cut off after a bare CR cannot belong to a complete body and is not judged; a step outside the evaluable subset is an analysis error); DechunkedInput.readinto reads a chunk "
    "header only when the previous chunk and its terminator are consumed (a size kept in a local until it is stored is followed when it is stored on every path and nothing in between touches the state), consumes the terminator exactly when the "
    "residual length reaches zero, raises OSError unless it is a line terminator (decided by following the CFG from the read for sample lines: CRLF and LF continue, "
    "every other sample - the empty line included - ends in raise OSError), sets the end flag only on a freshly "
    "read zero size (`= True` under a guard, or `= <test of the residual length>`), the end flag is a latch: once it is set - in this call or, entered with the flag set, in a later one - "
    "no chunk header and no chunk data is read any more, only the terminator of the zero chunk (decided when every read of the flag in readinto is a condition that can be evaluated for both of its "
    "values; a flag copied to a local or handed on leaves this clause undecided and nothing is claimed; `if <flag>: return 0` guard clauses in front of `count = 0` are read as `count = 0` / `if <flag>: return count`), and on every path of one loop iteration the residual length decreases by exactly the number of "
    "bytes requested from the stream, stored at the fill position and added to the returned count (a local or an arithmetic expression over locals such as `size - free`), never asking for more "
    "than the residual length or the free space (linear arithmetic over the path: loop-invariant locals bound before the loop such as `size = len(buf)` / a memoryview of the buffer, min / max also spelled as conditional "
    "expressions, tuple assignments, walrus bindings, the loop guard and every comparison on the path as facts); every buffer store must be length-exact (private methods of the "
    "de-chunker that readinto calls as statements, and single-expression predicates, are inlined one level; a helper "
    "with early returns is followed only if it does nothing but read and validate the terminator); (R19.4) make_environ splits the request target with urlsplit, sets "
    "wsgi.input_terminated under exactly the guard under which it wraps wsgi.input in DechunkedInput (the same guard edges, or two guards that admit the same sample header values), skips header names "
    "containing '_', leaves CONTENT_TYPE / CONTENT_LENGTH unprefixed, prefixes and comma-joins the others (decided by "
    "evaluating every path of one loop iteration on sample header names - generic, underscore, Content-Type/-Length "
    "spellings and every name derived from a string constant of the loop or of a pure helper it calls - with the value and the earlier environ "
    "content symbolic; pure helper functions / handler methods made of assignments, `if` and `return` are evaluated on their arguments; a filter or a mapping in a generator / list comprehension over self.headers.items() is moved into the loop; "
    "a condition that does not depend on the header is followed on both edges, one on the header's own name / value that cannot be decided is an analysis error; inside the loop `try: S` / `except KeyError: H` around a single "
    "call-free statement with one `d[k]` read is taken as `if k in d: S` / `else: H`; fixed entries may also be added by `environ |= {...}` / `environ.update({...})` / `environ['K'] = v` as unconditional statements between the literal and the loop); the loop may fill a local dict instead, "
    "provided that dict starts empty, is changed by the loop only and is merged into the environ once after the loop on every path (update / `|=` / `{**environ, **d}` / `|` / dict(environ, **d) / `**d` in the literal) with the received header winning "
    "or no earlier environ key in the header key space; looks Transfer-Encoding up after the header "
    "loop (after the merge) and de-chunks for 'chunked' in any letter case but not for '' / 'gzip' / 'identity' / no header (lookups by get / subscript / `in`, through hoisted locals and `try: ... except KeyError` defaults), unquotes the "
    "path and only re-encodes the query, values held in locals followed to their definitions; the raw path is decided by evaluating every path from the entry to the unquote call on sample URL components "
    "(scheme and netloc empty / non-empty): '/' + netloc + path exactly when there is no scheme but a netloc, the path alone otherwise; statement helpers that are methods of the handler are inlined one level; (R19.5) the premise under R19.3 and under "
    "exact Content-Length reads - `rfile.read(n)` returns fewer than n bytes only at end of stream - holds for the stream "
    "the handler hands on: no class of the package in the request handler's hierarchy (bases and subclasses), no "
    "attribute store / setattr / class namespace anywhere in the package binds `rbufsize` (the size "
    "socketserver.StreamRequestHandler.setup passes to makefile) to a value that constant-folds to 0 (both arms of an "
    "unfoldable conditional are taken), `rfile` is rebound only to a buffered reader (makefile / open with non-zero "
    "buffering, io.BufferedReader; never socket.SocketIO, `.raw`, `.detach()`), a setup() override runs the inherited "
    "setup() on every path, and the connection stays blocking (`timeout` not 0, no setblocking(False) / settimeout(0) in "
    "the handler); (R19.6) make_environ is followed statement by statement from its entry to every return once per sample request target (scheme / authority empty and non-empty), with the "
    "locals that can be evaluated (constants, the components of urlsplit(self.path) however bound, boolean / conditional / f-string / comparison expressions, all() / any() of a display, side-effect-free predicate "
    "helpers, module-level constants) and, for every local dict, what it holds under HTTP_HOST - nothing, an evaluated value, whatever the header loop left (the client's Host header, joined, or none), or something "
    "not followed - through subscript stores, update / setdefault / pop / del / clear / `|=` / `|` / dict(...) / `{**a, ...}` / copy, membership tests and get / subscript reads of that entry (a value that reads the entry "
    "the header loop left is evaluated for a client that sent a Host header and for one that sent none), statement helpers (handler methods and functions of the module, guard-clause returns turned into if / else) expanded one "
    "level: for an absolute-form target (scheme and authority present) HTTP_HOST on return is the authority on every path - setdefault after the header loop, `if 'HTTP_HOST' not in environ`, `get('HTTP_HOST') or netloc`, a store "
    "placed before the header loop or before the merge of the header dict, a store skipped on some path are violations -, and for every other target no value evaluated from the URL is returned under HTTP_HOST; an entry "
    "written by something that is not followed, or a verdict that rests on a URL condition that cannot be evaluated, is an analysis error (a component other than scheme / netloc / path / query / fragment, e.g. "
    "`.hostname`, is not evaluated: such a store is undecided, not judged).  It decides these clauses on all paths of "
    "the named functions; a shape outside what is described here ends in an analysis error, not in a verdict; handler classes supplied by the caller of make_server / run_simple, socket options set outside "
    "the handler classes, other socket-level behaviour, http.server's own parsing and byte equality of whole exchanges are not decided."
)
TRUSTED = [
    "CPython ast",
    "http.server.BaseHTTPRequestHandler parses the request line and headers and send_response/send_header/end_headers emit what they are given",
    "socketserver.StreamRequestHandler.setup: connection = request; settimeout(self.timeout) unless it is None (class default None); rfile = connection.makefile('rb', self.rbufsize) (class default rbufsize = -1); http.server.BaseHTTPRequestHandler derives from it and overrides none of these",
    "socket.makefile('rb', k): the raw socket.SocketIO for k == 0, io.BufferedReader for every other k (None / negative: io.DEFAULT_BUFFER_SIZE > 0)",
    "io.BufferedReader over a blocking raw stream returns at most k bytes for read(k), and fewer only at end of stream; a raw stream (socket.SocketIO, io.FileIO) or a non-blocking socket returns what one system call yields",
    "RFC 9112 s.6.1/7.1: no chunked framing with Content-Length, for HEAD, 1xx, 204, 304; chunk-size is hexadecimal",
]
ASSUMPTIONS = ["status codes are three-digit integers 100..599", "chunk extensions and trailers are absent (as the property states)"]

OSERRORS = {"OSError", "IOError", "EnvironmentError", "ConnectionError", "BrokenPipeError", "ConnectionAbortedError", "ConnectionResetError", "ConnectionRefusedError", "TimeoutError"}
COVERS_VALUEERROR = {"ValueError", "Exception", "BaseException"}
LINE_TERMINATORS = {b"\r\n", b"\n", b"\r"}
CRLF = ("B", b"\r\n")


def _gids(cfg: CFG, node: Node) -> set[tuple[int, str]]:
    return {(t_.id, l) for t_, l in cfg.guards(node)}


def _gtext(cfg: CFG, node: Node) -> list[str]:
    return sorted(f"{norm(t_.ast) if t_.kind == 'test' else t_.text()}:{l}" for t_, l in cfg.guards(node))


class _Atom:
    """a guard atom recovered from the definition of a local boolean (same interface as a CFG test node)."""

    kind = "test"

    def __init__(self, expr: ast.AST, via: Node):
        self.ast = expr
        self.id = via.id
        self.lineno = getattr(expr, "lineno", 0)

    def text(self) -> str:
        return norm(self.ast)


def _implied(expr: ast.AST, truth: bool) -> list[tuple[ast.AST, str]]:
    """atoms whose value follows from `expr` being `truth` (conjunction true / disjunction false / negation)."""
    if isinstance(expr, ast.UnaryOp) and isinstance(expr.op, ast.Not):
        return _implied(expr.operand, not truth)
    if isinstance(expr, ast.BoolOp):
        if isinstance(expr.op, ast.And) == truth:
            out: list[tuple[ast.AST, str]] = []
            for v in expr.values:
                out += _implied(v, truth)
            return out
        return []
    return [(expr, "T" if truth else "F")]


def _predicate_expr(fn: ast.AST) -> ast.AST | None:
    """the boolean expression a side-effect-free predicate function returns: its body is nothing but `if` statements and
    `return <expr>` (early returns), e.g. `if a: return False` / `if b: return False` / `return c` -> `not a and not b and c`.
    None when the body has any other statement, or a path without a return."""

    def is_const(e: ast.AST, v: bool) -> bool:
        return isinstance(e, ast.Constant) and e.value is v

    def mk(c: ast.AST, a: ast.AST, b: ast.AST) -> ast.AST:
        neg = ast.UnaryOp(op=ast.Not(), operand=c)
        if is_const(a, False):
            return ast.BoolOp(op=ast.And(), values=[neg, b])
        if is_const(a, True):
            return ast.BoolOp(op=ast.Or(), values=[c, b])
        if is_const(b, False):
            return ast.BoolOp(op=ast.And(), values=[c, a])
        if is_const(b, True):
            return ast.BoolOp(op=ast.Or(), values=[neg, a])
        return ast.IfExp(test=c, body=a, orelse=b)

    def block(stmts: list[ast.stmt], fuel: int = 64) -> ast.AST | None:
        stmts = [s_ for s_ in stmts if not isinstance(s_, ast.Pass) and not (isinstance(s_, ast.Expr) and isinstance(s_.value, ast.Constant))]
        if not stmts or fuel <= 0:
            return None
        st = stmts[0]
        if isinstance(st, ast.Return):
            return st.value
        if isinstance(st, ast.If):
            a = block(list(st.body) + stmts[1:], fuel - 1)
            b = block(list(st.orelse) + stmts[1:], fuel - 1)
            if a is None or b is None:
                return None
            return mk(st.test, a, b)
        return None

    if not isinstance(fn, (ast.FunctionDef, ast.Lambda)):
        return None
    if isinstance(fn, ast.Lambda):
        return fn.body
    return block(list(fn.body))


def _inline_predicate(call: ast.Call, helpers: dict[str, ast.AST]) -> ast.AST | None:
    """`helper(a, b)` / `self._helper(a, b)` -> the helper's boolean expression with its parameters replaced by the
    argument expressions (helpers: name -> FunctionDef; methods are keyed `self.<name>`).  Only plain positional calls
    of predicates whose parameters are plain positionals; free names of the helper are closure / instance reads that
    mean the same at the call (a predicate has no assignments)."""
    if call.keywords or any(isinstance(a, ast.Starred) for a in call.args):
        return None
    key = call.func.id if isinstance(call.func, ast.Name) else (f"self.{call.func.attr}" if isinstance(call.func, ast.Attribute) and is_self_attr(call.func) else None)
    fn = helpers.get(key) if key else None
    if fn is None:
        return None
    a = fn.args  # type: ignore[attr-defined]
    if a.vararg or a.kwarg or a.kwonlyargs or a.defaults:
        return None
    params = [x.arg for x in a.posonlyargs + a.args]
    if key.startswith("self."):
        params = params[1:]
    if len(params) != len(call.args):
        return None
    body = _predicate_expr(fn)
    if body is None:
        return None
    # a parameter must not be shadowed inside (comprehension targets / lambdas): keep it simple
    if any(isinstance(x, (ast.Lambda, ast.comprehension, ast.NamedExpr)) for x in ast.walk(body)):
        return None
    sub = dict(zip(params, call.args))

    class T(ast.NodeTransformer):
        def visit_Name(self, n: ast.Name) -> ast.AST:  # noqa: N802
            return H.clone(sub[n.id]) if n.id in sub and isinstance(n.ctx, ast.Load) else n

    return ast.fix_missing_locations(T().visit(H.clone(body)))


def _expanded_guards(cfg: CFG, rd: ReachingDefs, node: Node, depth: int = 2, widen: t.Callable[[ast.AST], bool] | None = None, helpers: dict[str, ast.AST] | None = None) -> list[tuple[t.Any, str]]:
    """dominating guard edges of node; a guard that tests a local boolean with a single definition is replaced by the
    atoms that definition implies (helper variable extracted from a condition), provided no name used in the
    definition is rebound between the definition and the test.  With ``widen``, locals inside an atom whose single
    definition satisfies ``widen`` are replaced by that definition as well.  With ``helpers``, a guard that calls a
    predicate helper (see _inline_predicate) is replaced by the atoms the helper's result implies."""

    def expand(expr: ast.AST, label: str, at: Node, via: t.Any, d: int) -> list[tuple[t.Any, str]]:
        if isinstance(expr, ast.UnaryOp) and isinstance(expr.op, ast.Not) and helpers and d > 0:
            return expand(expr.operand, "F" if label == "T" else "T", at, via, d)
        if isinstance(expr, ast.Call) and helpers and d > 0:
            inl = _inline_predicate(expr, helpers)
            if inl is not None:
                out_: list[tuple[t.Any, str]] = []
                for a, lab in _implied(inl, label == "T"):
                    out_ += expand(a, lab, at, _Atom(a, at), d - 1)
                return out_
        if isinstance(expr, ast.Name) and d > 0:
            defs = list(rd.reaching(at, expr.id))
            if len(defs) == 1 and defs[0].kind == "assign" and defs[0].node is not None and isinstance(defs[0].value, (ast.BoolOp, ast.Compare, ast.UnaryOp, ast.Call)):
                df = defs[0]
                stable = all(rd.reaching(df.node, n.id) == rd.reaching(at, n.id) for n in ast.walk(df.value) if isinstance(n, ast.Name))
                if stable:
                    out: list[tuple[t.Any, str]] = []
                    for a, lab in _implied(df.value, label == "T"):
                        out += expand(a, lab, df.node, _Atom(a, df.node), d - 1)
                    return out
        if widen is not None:
            # hoisted sub-expressions (`klass = code // 100` ... `klass != 1`): expand locals whose value mentions a tested quantity
            ex, used = _expand_locals(expr, at, rd, only_if=widen)
            if used:
                return [(_Atom(ex, at), label)]
        return [(via, label)]

    res: list[tuple[t.Any, str]] = []
    for t_, l in cfg.guards(node):
        if t_.kind != "test" or t_.ast is None:
            res.append((t_, l))
        else:
            res += expand(t_.ast, l, t_, t_, depth)
    return res


def _nested(fi: FuncInfo, node: ast.AST) -> FuncInfo:
    return FuncInfo(fi.module, node, f"{fi.qualname}.{node.name}", fi.cls)  # type: ignore[attr-defined]


def _self_call(c: ast.AST, attr: str) -> bool:
    return isinstance(c, ast.Call) and isinstance(c.func, ast.Attribute) and is_self_attr(c.func, attr)


def _const_str(n: ast.AST | None) -> str | None:
    return n.value if isinstance(n, ast.Constant) and isinstance(n.value, str) else None


def _handler_names(h: ast.ExceptHandler) -> list[str]:
    if h.type is None:
        return ["BaseException"]
    elts = h.type.elts if isinstance(h.type, ast.Tuple) else [h.type]
    return [(dotted(e) or "?").rsplit(".", 1)[-1] for e in elts]


def is_method(x: ast.AST) -> bool:
    """the request method: self.command, environ['REQUEST_METHOD'] or environ.get('REQUEST_METHOD', ...)."""
    if is_self_attr(x, "command"):
        return True
    if isinstance(x, ast.Subscript) and _const_str(x.slice) == "REQUEST_METHOD":
        return True
    return isinstance(x, ast.Call) and isinstance(x.func, ast.Attribute) and x.func.attr == "get" and bool(x.args) and _const_str(x.args[0]) == "REQUEST_METHOD"


def _is_emit(c: ast.AST) -> bool:
    """a call that puts bytes on the response socket directly."""
    if not (isinstance(c, ast.Call) and isinstance(c.func, ast.Attribute) and c.func.attr in ("write", "writelines", "sendall", "send")):
        return False
    return is_self_attr(c.func.value, "wfile") or is_self_attr(c.func.value, "connection") or is_self_attr(c.func.value, "request")


def run(ctx: Ctx) -> None:
    for rid, text in {
        "R19.1": "chunk_response becomes true only under a guard implying no Content-Length, not HEAD, not 1xx/204/304 and protocol >= HTTP/1.1; `Transfer-Encoding: chunked` is sent exactly there, before end_headers; the flag is otherwise only ever False",
        "R19.2": "write(): wire bytes per path are size-line CRLF data CRLF iff chunking and data non-empty, the data alone without chunking, nothing for empty data; execute(): `0 CRLF CRLF` once after the iteration and after headers were forced, only under chunking; status / header pairs are passed on unfiltered",
        "R19.3": "de-chunker: header parse failures and negative sizes raise OSError (base 16); header / terminator / end-flag protocol holds on all paths (typestate); per loop iteration residual decrement == bytes requested == bytes stored at the fill position == count increment, within residual and buffer bounds; buffer stores are length-exact",
        "R19.4": "make_environ: wsgi.input_terminated set under exactly the guard that wraps wsgi.input in DechunkedInput; '_' header names skipped; CONTENT_TYPE/LENGTH unprefixed, others HTTP_-prefixed and comma-joined in order; path unquoted then re-encoded, query only re-encoded; '//' first segment re-attached",
        "R19.5": "premise of the exactness argument: the request stream is the io.BufferedReader that StreamRequestHandler.setup creates over a blocking socket - `rbufsize` is bound to 0 nowhere (class bodies of the handler hierarchy, attribute stores, setattr, class namespaces), `rfile` is rebound only to a buffered reader, setup() overrides run the inherited setup(), `timeout` is not 0 and the handler never makes the connection non-blocking",
        "R19.6": "make_environ: for an absolute-form request target (scheme and authority present) HTTP_HOST holds the authority of the target on return, whatever Host header the client sent (the last effective write on every path is the store of the netloc); for every other target no URL component is written over the client's Host header",
    }.items():
        ctx.rule(rid, text)

    repo = ctx.repo
    handler = repo.cls("serving.WSGIRequestHandler")
    rw = handler.methods.get("run_wsgi")
    me = handler.methods.get("make_environ")
    if rw is None or me is None:
        raise AnalysisError("WSGIRequestHandler.run_wsgi / make_environ missing")
    ctx.saw(rw, me)
    rw = _inline_own_helpers(ctx, rw, handler)
    rw = _normalise_response_fn(rw)
    me = _inline_own_helpers(ctx, me, handler, with_functions=True)
    me_node, me_split = H.split_parallel_assigns(me.node)  # `scheme, netloc = url.scheme, url.netloc` is two bindings
    if me_split:
        me = FuncInfo(me.module, me_node, me.qualname, me.cls)
    _response_rules(ctx, rw)
    dech = _environ_rules(ctx, me)
    _dechunker_rules(ctx, dech)
    H.StreamPremise(ctx, handler, "R19.5").run()


# methods of http.server.BaseHTTPRequestHandler / socketserver.StreamRequestHandler: API, never a helper of this code base
HANDLER_API = {
    "handle", "handle_one_request", "handle_expect_100", "send_error", "send_response", "send_response_only", "send_header",
    "end_headers", "flush_headers", "log_request", "log_error", "log_message", "version_string", "date_time_string",
    "log_date_time_string", "address_string", "parse_request", "setup", "finish",
}


def _inline_own_helpers(ctx: Ctx, fi: FuncInfo, handler: ClassInfo, with_functions: bool = False) -> FuncInfo:
    """logic moved into a method of the handler: `self._h(a, b)` as a statement (the method has no `return <value>`) is
    replaced by the method's body, one level, also inside nested functions (see _c19_helpers.inline_methods).  The
    function is returned unchanged when it calls no such method."""
    def trivial(fn: ast.AST) -> bool:  # a hook with an empty body: nothing to follow
        return all(isinstance(st, ast.Pass) or (isinstance(st, ast.Expr) and isinstance(st.value, ast.Constant)) for st in fn.body)  # type: ignore[attr-defined]

    own = {nm: m.node for nm, m in handler.methods.items() if nm not in HANDLER_API and nm not in ("make_environ", "run_wsgi") and isinstance(m.node, ast.FunctionDef) and not trivial(m.node)}
    called = {st.value.func.attr for st in ast.walk(fi.node) if isinstance(st, ast.Expr) and isinstance(st.value, ast.Call) and isinstance(st.value.func, ast.Attribute) and is_self_attr(st.value.func) and st.value.func.attr in own}
    functions: dict[str, ast.AST] = {}
    if with_functions:
        # `_helper(environ, url)` as a statement: a function of the module that is handed a local and returns nothing
        functions = {nm: f.node for nm, f in fi.module.functions.items() if isinstance(f.node, ast.FunctionDef) and not trivial(f.node) and not any(isinstance(x, ast.Return) and x.value is not None for x in walk_no_nested(f.node))}
        called |= {st.value.func.id for st in ast.walk(fi.node) if isinstance(st, ast.Expr) and isinstance(st.value, ast.Call) and isinstance(st.value.func, ast.Name) and st.value.func.id in functions and any(isinstance(a, ast.Name) for a in st.value.args)}
    if not called:
        return fi
    node, inlined = H.inline_methods(fi.node, own, nested=True, functions=functions, guard_returns=with_functions)
    if not inlined:
        return fi
    ctx.saw(*[handler.methods[nm] if nm in handler.methods else fi.module.functions[nm] for nm in sorted(inlined)])
    return FuncInfo(fi.module, node, fi.qualname, fi.cls)


def _normalise_response_fn(rw: FuncInfo) -> FuncInfo:
    """run_wsgi in the shape the response rules read: a nested function that is only ever called as a statement from a
    sibling nested function (the header block moved out of the writer, say) is expanded into its caller
    (_c19_helpers.inline_nested_helpers), and `a, b = x, y` is read as `a = x` ; `b = y` where the two mean the same."""
    node, inlined = H.inline_nested_helpers(rw.node)
    node2, nsplit = H.split_parallel_assigns(node)
    if not inlined and not nsplit:
        return rw
    return FuncInfo(rw.module, node2, rw.qualname, rw.cls)


def _admitted(cfg: CFG, rd: ReachingDefs, node: Node, G_: list[tuple[t.Any, str]], is_var: t.Callable[[ast.AST], bool], domain: t.Iterable[t.Any], fold: t.Callable[[ast.AST], t.Any] | None, widen: t.Callable[[ast.AST], bool] | None = None) -> tuple[list[t.Any], list[tuple[t.Any, str]]]:
    """values of the tested quantity under which `node` is reached.  Two readings, both necessary conditions, intersected:
    (a) every dominating guard atom (expanded: predicate helpers, hoisted booleans) holds for the value (H.admitted);
    (b) there is a way from the entry to the node on which every test that can be evaluated for the value is left by the
    edge the value takes - this sees a disjunction (`code < 100 or code >= 200`), whose atoms dominate nothing on their
    own.  A test of the quantity that cannot be evaluated constrains nothing in (b); it is an analysis error when
    reported by (a)."""
    domain = list(domain)
    adm_a, atoms = H.admitted(G_, is_var, domain, fold=fold)
    tests: list[tuple[Node, ast.AST]] = []
    for tn in cfg.nodes:
        if tn.kind != "test" or tn.ast is None or tn is node:
            continue
        ex = tn.ast
        if widen is not None:
            ex2, used = _expand_locals(tn.ast, tn, rd, only_if=widen)
            if used:
                ex = ex2
        if H.mentions(ex, is_var):
            tests.append((tn, ex))
    if not tests:
        return adm_a, atoms
    out = []
    followed: dict[int, tuple[t.Any, str]] = {}
    for v in adm_a:
        def bind(x: ast.AST, v: t.Any = v) -> tuple[bool, t.Any]:
            if is_var(x):
                return True, v
            if fold is not None and isinstance(x, (ast.Name, ast.Attribute)):
                try:
                    return True, fold(x)
                except Exception:
                    return False, None
            return False, None

        avoid = []
        for tn, ex in tests:
            try:
                r = bool(H.ev(ex, bind))
            except H.Unknown:
                continue
            avoid.append((tn, "F" if r else "T"))
            followed.setdefault(tn.id, (_Atom(ex, tn), "*"))
        if node.id in cfg.reach(avoid_edges=avoid):
            out.append(v)
    have = {a.id for a, _ in atoms if isinstance(a, Node)} | {id(a.ast) for a, _ in atoms}
    return out, atoms + [(a, l) for tid, (a, l) in sorted(followed.items()) if tid not in have and id(a.ast) not in have]


# =====================================================================
# R19.1 / R19.2


def _response_rules(ctx: Ctx, rw: FuncInfo) -> None:
    nested = [n for n in walk_no_nested(rw.node) if isinstance(n, (ast.FunctionDef, ast.AsyncFunctionDef))]
    writers = [n for n in nested if any(_self_call(c, "end_headers") for c in astq.calls(n))]
    if len(writers) != 1:
        raise AnalysisError(f"run_wsgi: expected one nested function that ends the headers (the writer), found {len(writers)}")
    wnode = writers[0]
    wfi = _nested(rw, wnode)
    ctx.saw(wfi)
    if not wfi.params:
        raise AnalysisError("writer has no data parameter")
    dataname = wfi.params[0]
    nonlocals = {nm for s in walk_no_nested(wnode) if isinstance(s, ast.Nonlocal) for nm in s.names}
    flag_cands = sorted({nm for nm in nonlocals for s, v in astq.assigns_to(wnode, nm) if isinstance(v, ast.Constant) and v.value is True})
    if len(flag_cands) != 1:
        raise AnalysisError(f"writer: expected one nonlocal flag assigned True (the chunking decision), found {flag_cands}")
    flag = flag_cands[0]
    executors = [n for n in nested if n is not wnode and any(isinstance(c.func, ast.Name) and c.func.id == wnode.name for c in astq.calls(n))]
    if len(executors) != 1:
        raise AnalysisError(f"run_wsgi: expected one nested function that calls {wnode.name}() (the executor), found {len(executors)}")
    xfi = _nested(rw, executors[0])
    starters = [n for n in nested if n is not wnode and any(isinstance(r.value, ast.Name) and r.value.id == wnode.name for r in astq.returns_of(n))]
    ctx.saw(xfi)

    wcfg = cfg_of(wfi)
    rdw = ReachingDefs(wcfg, wfi.params)
    # predicate helpers a guard may call: sibling nested functions, the writer's own nested functions, methods of the handler
    pred_helpers: dict[str, ast.AST] = {n.name: n for n in nested if n is not wnode}
    pred_helpers.update({n.name: n for n in ast.walk(wnode) if isinstance(n, ast.FunctionDef) and n is not wnode})
    if rw.cls is not None:
        pred_helpers.update({f"self.{nm}": fi.node for nm, fi in rw.cls.methods.items() if isinstance(fi.node, ast.FunctionDef)})

    # ---------------- R19.1 -------------------------------------------
    # every binding of the flag: constants only; True only inside the writer
    for scope_fi, scope in [(rw, rw.node)] + [(_nested(rw, n), n) for n in nested]:
        for s, v in astq.assigns_to(scope, flag):
            is_true = isinstance(v, ast.Constant) and v.value is True
            is_false = isinstance(v, ast.Constant) and v.value is False
            if is_true and scope is wnode:
                continue
            ctx.ob("R19.1", f"`{flag}` is assigned outside the guarded decision only as False", is_false, f"`{norm(s)}` in {scope_fi.qualname}", scope_fi, s, f"flag binding {norm(s)} in {scope_fi.name}")
    sr_calls = [c for c in astq.calls(wnode, nested=False) if _self_call(c, "send_response")]
    if len(sr_calls) != 1 or not sr_calls[0].args or not isinstance(sr_calls[0].args[0], ast.Name):
        raise AnalysisError("writer: expected one self.send_response(<code name>, ...) call")
    code_name = sr_calls[0].args[0].id
    sr_node = wcfg.node_of(sr_calls[0])
    eh_nodes = [wcfg.node_of(c) for c in astq.calls(wnode, nested=False) if _self_call(c, "end_headers")]
    after_eh: set[int] = set()
    for e in eh_nodes:
        for s, _ in e.succs:  # type: ignore[union-attr]
            after_eh |= wcfg.reach(s)
    te_calls = [c for c in astq.calls(wnode, nested=False) if _self_call(c, "send_header") and c.args and (_const_str(c.args[0]) or "").lower() == "transfer-encoding"]

    flag_nodes = [wcfg.node_of(s) for s, v in astq.assigns_to(wnode, flag) if isinstance(v, ast.Constant) and v.value is True]
    ctx.floor("R19.1", "chunking decisions (flag := True)", len(flag_nodes), 1)
    for fnode in flag_nodes:
        assert fnode is not None
        is_code = lambda x: isinstance(x, ast.Name) and x.id == code_name  # noqa: E731
        is_proto = lambda x: is_self_attr(x, "protocol_version")  # noqa: E731
        tested = lambda v: any(is_code(x) or is_method(x) or is_proto(x) for x in ast.walk(v))  # noqa: E731
        G = _expanded_guards(wcfg, rdw, fnode, widen=tested, helpers=pred_helpers)
        gtxt = sorted(f"{norm(t_.ast) if t_.kind == 'test' else t_.text()}:{l}" for t_, l in G)
        # status classes
        fold_w = _folder_of(ctx, wfi)
        adm, atoms = _admitted(wcfg, rdw, fnode, G, is_code, range(100, 600), fold_w, widen=tested)
        adm_s = set(adm)
        desc = f"status atoms {[norm(a.ast) + ':' + l for a, l in atoms]}; chunking admitted for {_ranges(adm)}"
        for what, bad in (("any 1xx status", set(range(100, 200))), ("204", {204}), ("304", {304})):
            hit = sorted(adm_s & bad)
            ctx.ob("R19.1", f"no chunked framing for {what}", bool(atoms) and not hit, desc + (f"; admitted from the excluded class: {_ranges(hit)}" if hit else ""), wfi, fnode.ast, f"chunk decision excludes {what}")
        # the tested code is the one sent
        same = rdw.reaching(fnode, code_name) == rdw.reaching(sr_node, code_name) and bool(rdw.reaching(sr_node, code_name))  # type: ignore[arg-type]
        ctx.ob("R19.1", "the status tested is the status sent", same, f"`{code_name}` at send_response and at the decision have the same definitions: {same}", wfi, fnode.ast, "decision code is sent code")
        # HEAD
        # a Subscript/Call matcher must not also match its own children
        madm, matoms = _admitted(wcfg, rdw, fnode, G, is_method, ["GET", "HEAD", "POST", "OPTIONS"], fold_w, widen=tested)
        ctx.ob("R19.1", "no chunked framing for HEAD", bool(matoms) and "HEAD" not in madm and "GET" in madm, f"method atoms {[norm(a.ast) + ':' + l for a, l in matoms]}; admitted methods {madm}", wfi, fnode.ast, "chunk decision excludes HEAD")
        # protocol
        padm, patoms = _admitted(wcfg, rdw, fnode, G, is_proto, ["HTTP/0.9", "HTTP/1.0", "HTTP/1.1"], fold_w, widen=tested)
        ctx.ob("R19.1", "chunked framing only when the server speaks HTTP/1.1", bool(patoms) and padm == ["HTTP/1.1"], f"protocol atoms {[norm(a.ast) + ':' + l for a, l in patoms]}; admitted {padm}", wfi, fnode.ast, "chunk decision requires HTTP/1.1")
        # Content-Length
        cl = []
        flags = []
        for t_, l in G:
            a = t_.ast
            if isinstance(a, ast.Compare) and len(a.ops) == 1 and isinstance(a.ops[0], (ast.In, ast.NotIn)) and (_const_str(a.left) or "").lower() == "content-length":
                if (isinstance(a.ops[0], ast.In) and l == "F") or (isinstance(a.ops[0], ast.NotIn) and l == "T"):
                    cl.append(t_)
            elif isinstance(a, ast.Name) and l == "F":  # `not has_length`: a flag set while the headers are sent
                via = wcfg.nodes[t_.id] if not isinstance(t_, Node) else t_
                fl_ = _content_length_flag(a, via, wfi, wcfg, rdw)
                if fl_ is not None:
                    flags.append((t_, fl_))
        # the same test spelled as a search: `not any(k.lower() == "content-length" for k, v in <the headers sent>)`
        searches = [(t_, s_) for t_, l in G if (s_ := _content_length_search(t_.ast, l, wfi)) is not None]
        ctx.ob("R19.1", "no chunked framing when the application set Content-Length", bool(cl) or bool(searches) or bool(flags), f"dominating guards {gtxt}", wfi, fnode.ast, "chunk decision excludes Content-Length")
        for t_ in cl:
            _content_length_set(ctx, wfi, wcfg, rdw, t_)
        for t_, (okf, factf) in flags:
            ctx.ob("R19.1", "the Content-Length test sees every header name sent, in the case it compares with", okf, factf, wfi, t_.ast, "content-length test case folding")
        for t_, (oks, facts) in searches:
            ctx.ob("R19.1", "the Content-Length test sees every header name sent, in the case it compares with", oks, facts, wfi, t_.ast, "content-length test case folding")
        # Transfer-Encoding header
        ok = len(te_calls) == 1
        fact = f"{len(te_calls)} send_header('Transfer-Encoding', ...) call(s)"
        if ok:
            te = te_calls[0]
            tn = wcfg.node_of(te)
            val = _const_str(te.args[1]) if len(te.args) > 1 else None
            same_g = _gids(wcfg, tn) == _gids(wcfg, fnode)  # type: ignore[arg-type]
            before = tn.id not in after_eh  # type: ignore[union-attr]
            ok = val == "chunked" and same_g and before
            fact = f"`{norm(te)}`: value 'chunked'={val == 'chunked'}; same dominating guard edges as the decision={same_g}; before end_headers={before}"
        ctx.ob("R19.1", "`Transfer-Encoding: chunked` is sent exactly where chunking is decided", ok, fact, wfi, te_calls[0] if te_calls else fnode.ast, "transfer-encoding header with decision")
        decided_with_headers = sr_node is not None and wcfg.node_dominates(sr_node, fnode) and fnode.id not in after_eh
        ctx.ob("R19.1", "the decision is taken while the headers are being sent", decided_with_headers, "decision dominated by send_response and not after end_headers", wfi, fnode.ast, "decision in header block")

    # ---------------- R19.2: status line and headers -------------------
    # start_response: which nonlocal receives which parameter
    carried: dict[str, int] = {}
    for sn in starters:
        sp = [a.arg for a in sn.args.args]
        for s in walk_no_nested(sn):
            if not isinstance(s, ast.Assign):
                continue
            pairs_ = [(tg, s.value) for tg in s.targets if isinstance(tg, ast.Name)]
            for tg in s.targets:
                if isinstance(tg, (ast.Tuple, ast.List)) and isinstance(s.value, (ast.Tuple, ast.List)) and len(tg.elts) == len(s.value.elts):
                    pairs_ += [(e, v) for e, v in zip(tg.elts, s.value.elts) if isinstance(e, ast.Name)]
            for tg, v in pairs_:
                if isinstance(v, ast.Name) and v.id in sp:
                    carried[tg.id] = sp.index(v.id)  # type: ignore[attr-defined]
    ctx.ob("R19.2", "start_response hands back the same writer (write() callable gets the same framing)", len(starters) == 1 and {0, 1} <= set(carried.values()), f"functions returning {wnode.name}: {[n.name for n in starters]}; parameters kept: {carried}", rw, starters[0] if starters else rw.node, "start_response returns writer")

    def origin(node: Node, name: str, depth: int = 0) -> set[str]:
        """names a local was copied from (through plain `a = b` bindings inside the writer)."""
        out: set[str] = set()
        defs = rdw.reaching(node, name)
        if not defs or depth > 4:
            return {name}
        for d in defs:
            if d.kind == "assign" and isinstance(d.value, ast.Name) and d.node is not None:
                out |= origin(d.node, d.value.id, depth + 1)
            else:
                out.add(name if d.kind == "param" else f"<{d.kind}:{norm(d.value) if d.value is not None else ''}>")
        return out

    loops = [n for n in walk_no_nested(wnode) if isinstance(n, ast.For)]
    hdr_loops = []
    for lp in loops:
        parts_ = _pair_parts(lp)
        for c in astq.calls(lp, nested=False):
            # the loop's pair in order, or its two components in some other arrangement (reported below)
            if _self_call(c, "send_header") and (_sends_pair(c, lp) or (parts_ is not None and len(c.args) == 2 and not c.keywords and {norm(a) for a in c.args} <= set(parts_))):
                hdr_loops.append((lp, c))
    if not hdr_loops:
        other = [c for lp in loops for c in astq.calls(lp, nested=False) if _self_call(c, "send_header")]
        if other:
            raise AnalysisError(f"writer: `{norm(other[0])}` inside a loop: how it relates to the loop's items is not followed")
        ctx.ob("R19.2", "every header pair of the application is sent, unfiltered and unchanged", False, "no loop passes its (name, value) pair to send_header", wfi, wfi.node, "header loop unfiltered")
    for lp, c in hdr_loops:
        ln = wcfg.node_of(lp)
        cn = wcfg.node_of(c)
        inner = {id(x) for s in lp.body for x in ast.walk(s)}
        filt = [f"{norm(t_.ast)}:{l}" for t_, l in wcfg.guards(cn) if id(t_.ast) in inner]  # type: ignore[arg-type]
        unchanged = all(all(d.kind == "for" for d in rdw.reaching(cn, x.id)) for a in c.args for x in ast.walk(a) if isinstance(x, ast.Name))  # type: ignore[arg-type]
        src = origin(ln, lp.iter.id) if isinstance(lp.iter, ast.Name) else {norm(lp.iter)}  # type: ignore[arg-type]
        from_app = bool(src) and all(carried.get(s) == 1 for s in src)
        before = cn.id not in after_eh  # type: ignore[union-attr]
        in_order = _sends_pair(c, lp)
        ctx.ob("R19.2", "every header pair of the application is sent, unfiltered and unchanged", not filt and unchanged and in_order and from_app and before,
               f"loop over `{norm(lp.iter)}` (copied from {sorted(src)}; start_response's headers parameter: {from_app}); filters inside the loop: {filt}; pair passed unchanged: {unchanged and in_order}; before end_headers: {before}", wfi, c, "header loop unfiltered")
    # status code: int(first token of the application's status)
    ok = False
    fact = ""
    defs = rdw.reaching(sr_node, code_name)  # type: ignore[arg-type]
    if defs and all(d.kind == "assign" and isinstance(d.value, ast.Call) and dotted(d.value.func) == "int" and len(d.value.args) == 1 and not d.value.keywords for d in defs):
        ok = True
        for d in defs:
            tok_e = d.value.args[0]  # type: ignore[union-attr]
            tok = tok_e.id if isinstance(tok_e, ast.Name) else norm(tok_e)
            def token_src(v: ast.AST | None, at: Node, first: bool, depth: int = 0) -> set[str]:
                """the names whose first token (split / partition at whitespace) or whole value the expression is;
                ``first``: the expression is a sequence and its element 0 is meant."""
                if first and isinstance(v, ast.Call) and isinstance(v.func, ast.Attribute) and v.func.attr in ("split", "partition") and isinstance(v.func.value, ast.Name):
                    return origin(at, v.func.value.id)
                if first and isinstance(v, (ast.Tuple, ast.List)) and v.elts and not isinstance(v.elts[0], ast.Starred):
                    return token_src(v.elts[0], at, False, depth)  # element 0 of a display is that expression itself
                if isinstance(v, ast.Subscript) and not first and isinstance(v.slice, ast.Constant) and v.slice.value == 0:
                    return token_src(v.value, at, True, depth)
                if isinstance(v, ast.Name) and first and depth < 3:  # a local holding the split result
                    ds = rdw.reaching(at, v.id)
                    if ds and all(x.kind == "assign" and x.index is None and x.node is not None for x in ds):
                        out_: set[str] = set()
                        for x in ds:
                            out_ |= token_src(x.value, x.node, True, depth + 1)  # type: ignore[arg-type]
                        return out_
                if isinstance(v, ast.Name) and not first:
                    return origin(at, v.id)
                if isinstance(v, ast.Subscript) and isinstance(v.slice, ast.Constant) and isinstance(v.slice.value, int):
                    return {f"<element {v.slice.value} of {norm(v.value)}>"}  # understood, and not the first token
                if isinstance(v, ast.Constant):
                    return {f"<{norm(v)}>"}
                raise AnalysisError(f"writer: the status code is parsed from `{norm(v) if v is not None else '?'}`, which is not followed (expected the first token of a split / partition of the status)")

            if not isinstance(tok_e, ast.Name):  # int(<expression>): the expression itself is the token
                src = token_src(tok_e, d.node, False)  # type: ignore[arg-type]
                fact += f"`{tok}` <- {sorted(src)}; "
                ok = ok and all(carried.get(s) == 0 for s in src)
                continue
            for dd in rdw.reaching(d.node, tok):  # type: ignore[arg-type]
                v = dd.value
                if dd.kind == "unpack" and dd.index == 0:
                    src = token_src(v, dd.node, True)  # type: ignore[arg-type]
                elif dd.kind == "assign" and dd.index is None:
                    src = token_src(v, dd.node, False)  # type: ignore[arg-type]
                else:
                    src = {f"<{norm(v) if v is not None else dd.kind}>"}
                fact += f"`{tok}` <- {sorted(src)}; "
                ok = ok and all(carried.get(s) == 0 for s in src)
    else:
        fact = f"`{code_name}` defined by {[norm(d.value) for d in defs if d.value is not None]}"
    ctx.ob("R19.2", "the status code sent is int(first token of the application's status)", ok, fact, wfi, sr_calls[0], "status code source")

    # ---------------- R19.2: the header block goes out once ---------------
    _latch_rule(ctx, wfi, wcfg, rdw, sr_node, nonlocals)

    # ---------------- R19.2: wire bytes of write() ----------------------
    _wire_rules(ctx, wfi, wcfg, dataname, flag)

    # ---------------- R19.2: executor -----------------------------------
    _executor_rules(ctx, xfi, wnode.name, flag, nonlocals)


def _latch_rule(ctx: Ctx, wfi: FuncInfo, wcfg: CFG, rdw: ReachingDefs, sr_node: Node | None, nonlocals: set[str]) -> None:
    """write() is called once per body piece; the status line and the header block must go out on the first call only.
    So one of the tests that guard send_response must be a latch: a test of a variable that outlives the call (nonlocal
    or attribute of self), which the guarded block - on every path to the normal exit - assigns a value under which
    the test fails, *independent of application data*: a constant, or a name that a dominating assert / guard
    establishes as non-None (for an `is None` test) or truthy (for a truthiness test).  `if not headers_sent:
    headers_sent = <the application's header list>` is not a latch: an empty list re-opens it."""
    assert sr_node is not None
    assigned_here = {d for n in walk_no_nested(wfi.node) for d in ([tg.id for tg in n.targets if isinstance(tg, ast.Name)] if isinstance(n, ast.Assign) else [n.target.id] if isinstance(n, (ast.AnnAssign, ast.AugAssign)) and isinstance(n.target, ast.Name) else [])}

    def latch_var(x: ast.AST) -> str | None:
        if isinstance(x, ast.Name) and x.id in nonlocals:
            return x.id
        if is_self_attr(x):
            return norm(x)
        return None

    def facts_at(node: Node) -> tuple[set[str], set[str]]:
        """names known non-None / truthy at node (dominating asserts and guard edges; only names this function never rebinds)."""
        nonnull: set[str] = set()
        truthy: set[str] = set()
        items: list[tuple[ast.AST, bool]] = []
        for n in wcfg.nodes:
            if n.kind == "stmt" and isinstance(n.ast, ast.Assert) and n is not node and wcfg.node_dominates(n, node):
                items += [(a, lab == "T") for a, lab in _implied(n.ast.test, True)]
        for t_, l in wcfg.guards(node):
            if t_.kind == "test" and t_.ast is not None:
                items.append((t_.ast, l == "T"))
        for a, truth in items:
            k, pos = G.canon(a)
            val = truth == pos
            if isinstance(a, ast.Name) and truth and a.id not in assigned_here:
                truthy.add(a.id)
                nonnull.add(a.id)
            elif k.endswith(" is None") and not val:
                nm = k[: -len(" is None")]
                if nm.isidentifier() and nm not in assigned_here:
                    nonnull.add(nm)
        return nonnull, truthy

    def closes(atom: ast.AST, label: str, var: str, value: ast.AST, at: Node) -> tuple[bool, str]:
        """after `var = value` the atom no longer takes the edge `label`."""
        is_var = lambda x: latch_var(x) == var  # noqa: E731
        if isinstance(value, ast.Constant):
            try:
                r = bool(H.ev(atom, lambda x: (True, value.value) if is_var(x) else (False, None)))
            except H.Unknown:
                return False, f"`{norm(atom)}` cannot be evaluated for the constant {norm(value)}"
            return r != (label == "T"), f"`{norm(atom)}` is {r} once `{var} = {norm(value)}`"
        if isinstance(value, ast.Name):
            nonnull, truthy = facts_at(at)
            k, pos = G.canon(atom)
            if k == f"{var} is None":
                r = None if value.id not in nonnull else (False == pos)  # noqa: E712
                why = f"`{value.id}` is {'established as non-None' if value.id in nonnull else 'not established as non-None'} there"
            elif isinstance(atom, ast.Name) or (isinstance(atom, ast.Attribute)):
                r = True if value.id in truthy else None
                why = f"`{value.id}` is {'established as truthy' if value.id in truthy else 'not established as truthy (a value supplied by the application may be empty)'} there"
            else:
                r, why = None, "not a None / truthiness test"
            if r is None:
                return False, f"`{norm(atom)}` after `{var} = {value.id}`: {why}"
            return r != (label == "T"), f"`{norm(atom)}` is {r} once `{var} = {value.id}` ({why})"
        return False, f"`{var} = {norm(value)}` is neither a constant nor a checked name"

    tried: list[str] = []
    found = False
    for t_, l in wcfg.guards(sr_node):
        if t_.kind != "test" or t_.ast is None:
            continue
        atoms: list[tuple[ast.AST, str]] = [(t_.ast, l)]
        if isinstance(t_.ast, ast.Name) and t_.ast.id not in nonlocals:
            defs = list(rdw.reaching(t_, t_.ast.id))
            if len(defs) == 1 and defs[0].kind == "assign" and defs[0].node is not None and isinstance(defs[0].value, (ast.BoolOp, ast.Compare, ast.UnaryOp, ast.Name, ast.Attribute)):
                df = defs[0]
                if all(rdw.reaching(df.node, m.id) == rdw.reaching(t_, m.id) for m in ast.walk(df.value) if isinstance(m, ast.Name)):
                    atoms = _implied(df.value, l == "T")
        for atom, lab in atoms:
            vars_ = sorted({v for x in ast.walk(atom) if (v := latch_var(x)) is not None})
            for var in vars_:
                sets = []
                for n in wcfg.nodes:
                    if n.kind == "stmt" and isinstance(n.ast, (ast.Assign, ast.AnnAssign)) and n.ast.value is not None:
                        tgs = n.ast.targets if isinstance(n.ast, ast.Assign) else [n.ast.target]
                        if any(latch_var(tg) == var for tg in tgs) and wcfg.edge_dominates(t_, l, n):
                            sets.append(n)
                if not sets:
                    tried.append(f"`{norm(atom)}`:{lab}: `{var}` is not assigned under the guard")
                    continue
                starts = wcfg.succ(t_, l)
                always = all(wcfg.all_paths_pass(s_, [wcfg.exit], sets) for s_ in starts)
                verdicts = [closes(atom, lab, var, n.ast.value, n) for n in sets]  # type: ignore[union-attr]
                if always and all(v for v, _ in verdicts):
                    found = True
                    tried.append(f"latch `{norm(atom)}`:{lab}: " + "; ".join(w for _, w in verdicts))
                else:
                    tried.append(f"`{norm(atom)}`:{lab}: set on every returning path: {always}; " + "; ".join(w for _, w in verdicts))
    ctx.ob("R19.2", "the status line and header block are written by the first write() only: their guard is a latch closed independently of application data", found, "; ".join(tried) or "send_response is not guarded by any test", wfi, sr_node.ast, "header block latch")


def _ranges(codes: t.Iterable[int]) -> str:
    cs = sorted(codes)
    if not cs:
        return "{}"
    out = []
    a = b = cs[0]
    for c in cs[1:]:
        if c == b + 1:
            b = c
            continue
        out.append(f"{a}-{b}" if a != b else f"{a}")
        a = b = c
    out.append(f"{a}-{b}" if a != b else f"{a}")
    return "{" + ",".join(out) + "}"


def _pair_parts(lp: ast.For) -> tuple[str, str] | None:
    """source text of 'the name' and 'the value' of the pair a loop iterates over: `for k, v in X` -> k, v;
    `for h in X` -> h[0], h[1]."""
    tg = lp.target
    if isinstance(tg, (ast.Tuple, ast.List)) and len(tg.elts) == 2 and all(isinstance(e, ast.Name) for e in tg.elts):
        return tg.elts[0].id, tg.elts[1].id  # type: ignore[attr-defined]
    if isinstance(tg, ast.Name):
        return f"{tg.id}[0]", f"{tg.id}[1]"
    return None


def _sends_pair(c: ast.Call, lp: ast.For) -> bool:
    """send_header(<name of the loop's pair>, <value of the loop's pair>), or send_header(*<pair>)."""
    parts = _pair_parts(lp)
    if parts is None or c.keywords:
        return False
    if len(c.args) == 2:
        return (norm(c.args[0]), norm(c.args[1])) == parts
    return len(c.args) == 1 and isinstance(c.args[0], ast.Starred) and isinstance(lp.target, ast.Name) and norm(c.args[0].value) == lp.target.id


def _strip_methods(e: ast.AST) -> ast.AST:
    """`x.a().b()` -> x (method calls only; subscripts and attributes stay)."""
    while isinstance(e, ast.Call) and isinstance(e.func, ast.Attribute):
        e = e.func.value
    return e


def _content_length_set(ctx: Ctx, wfi: FuncInfo, wcfg: CFG, rdw: ReachingDefs, test: Node) -> None:
    """the constant compared against the collected header names is in the letter case the names were folded to, and the
    names are those of the header pairs that are sent.  The collection: a local filled by add / append in the loop that
    sends the pairs, or a set / list / dict comprehension (bound to a local or written in the test itself) over the
    iterable whose pairs are sent."""
    a = test.ast
    const = _const_str(a.left)  # type: ignore[attr-defined]
    coll = a.comparators[0]  # type: ignore[attr-defined]
    sent = {norm(lp.iter) for lp in walk_no_nested(wfi.node) if isinstance(lp, ast.For) and any(_self_call(c, "send_header") and _sends_pair(c, lp) for c in astq.calls(lp, nested=False))}
    elts: list[tuple[ast.AST, ast.AST, ast.AST | None]] = []  # (element expression, site, comprehension or None)

    def comp_of(v: ast.AST | None) -> ast.AST | None:
        if isinstance(v, (ast.SetComp, ast.ListComp, ast.GeneratorExp, ast.DictComp)):
            return v
        if isinstance(v, ast.Call) and dotted(v.func) in ("set", "frozenset", "list", "tuple", "sorted") and len(v.args) == 1 and not v.keywords:
            return comp_of(v.args[0])
        return None

    def raw_names(v: ast.AST) -> ast.AST | None:
        if isinstance(v, ast.Call) and isinstance(v.func, ast.Attribute) and v.func.attr == "keys" and not v.args:
            v = v.func.value
        if isinstance(v, ast.Call) and dotted(v.func) in ("dict", "collections.OrderedDict", "OrderedDict") and len(v.args) == 1 and not v.keywords and isinstance(v.args[0], ast.Name):
            return v.args[0]
        return None

    def add_comp(cmp_: ast.AST, site: ast.AST) -> None:
        elts.append((cmp_.key if isinstance(cmp_, ast.DictComp) else cmp_.elt, site, cmp_))  # type: ignore[attr-defined]

    what = norm(coll)
    if isinstance(coll, ast.Name):
        for c in astq.calls(wfi.node, nested=False):
            if isinstance(c.func, ast.Attribute) and isinstance(c.func.value, ast.Name) and c.func.value.id == coll.id and c.func.attr in ("add", "append") and len(c.args) == 1:
                elts.append((c.args[0], c, None))
        for s_, v in astq.assigns_to(wfi.node, coll.id):
            cmp_ = comp_of(v)
            if cmp_ is not None:
                add_comp(cmp_, s_)
        for s_ in walk_no_nested(wfi.node):  # <names>[<name>.lower()] = ... in the sending loop (a dict of the headers sent)
            if isinstance(s_, ast.Assign):
                for tg in s_.targets:
                    if isinstance(tg, ast.Subscript) and isinstance(tg.value, ast.Name) and tg.value.id == coll.id:
                        elts.append((tg.slice, s_, None))
    elif comp_of(coll) is not None:
        add_comp(comp_of(coll), coll)  # type: ignore[arg-type]
    elif raw_names(coll) is not None:
        # dict(<pairs>) / dict(<pairs>).keys(): the names exactly as the application spelled them - no case folding at all
        src_ = raw_names(coll)
        ok_iter = norm(src_) in sent
        ctx.ob("R19.1", "the Content-Length test sees every header name sent, in the case it compares with", False,
               f"`{what}`: the header names are compared as the application spelled them (no case folding; header names are case-insensitive); built from the headers that are sent: {ok_iter}", wfi, test.ast, "content-length test case folding")
        return
    else:
        raise AnalysisError(f"writer: the Content-Length test looks in `{what}`, which is not followed (expected a local collection or a comprehension of the header names)")
    ok = bool(elts)
    facts = []
    for e, site, cmp_ in elts:
        chain = [nm for nm, _ in astq.method_chain(e)]
        fold = next((nm for nm in reversed(chain) if nm in ("lower", "upper", "casefold")), None)
        agrees = fold is not None and const is not None and getattr(const, fold)() == const
        root = _strip_methods(e)
        if cmp_ is not None:
            gens = cmp_.generators  # type: ignore[attr-defined]
            g0 = gens[0]
            first = norm(g0.target.elts[0]) if isinstance(g0.target, (ast.Tuple, ast.List)) and len(g0.target.elts) == 2 else (f"{g0.target.id}[0]" if isinstance(g0.target, ast.Name) else None)
            key_ok = len(gens) == 1 and not g0.ifs and first is not None and norm(root) == first and norm(g0.iter) in sent
        else:
            lp = astq.enclosing(site, (ast.For,))
            key_ok = False
            if isinstance(lp, ast.For):
                parts = _pair_parts(lp)
                sends = any(_self_call(c, "send_header") and _sends_pair(c, lp) for c in astq.calls(lp, nested=False))
                key_ok = parts is not None and norm(root) == parts[0] and sends
        facts.append(f"`{norm(e)}`: case folding `{fold}` agrees with constant {const!r}: {agrees}; is the name of every header being sent: {key_ok}")
        ok = ok and agrees and key_ok
    ctx.ob("R19.1", "the Content-Length test sees every header name sent, in the case it compares with", ok, "; ".join(facts) or f"no element of `{what}` found", wfi, test.ast, "content-length test case folding")


def _content_length_flag(name: ast.Name, at: Node, wfi: FuncInfo, wcfg: CFG, rdw: ReachingDefs) -> tuple[bool, str] | None:
    """a boolean local that records whether a Content-Length header was seen: every definition reaching the test is the
    constant False or the constant True, the latter only under `<header name>.lower() == "content-length"` (or the
    like) inside the loop that sends the pairs.  Returns (the recording is right, description), or None when the
    local is no such flag."""
    ds = rdw.reaching(at, name.id)
    if len(ds) < 2 or not all(d.kind == "assign" and d.index is None and isinstance(d.value, ast.Constant) and isinstance(d.value.value, bool) and d.node is not None for d in ds):
        return None
    trues = [d for d in ds if d.value.value is True]  # type: ignore[union-attr]
    if not trues or len(trues) == len(ds):
        return None
    okf, facts = True, []
    for d in trues:
        lp = astq.enclosing(d.stmt, (ast.For,)) if d.stmt is not None else None
        parts = _pair_parts(lp) if isinstance(lp, ast.For) else None
        sends = isinstance(lp, ast.For) and any(_self_call(c, "send_header") and _sends_pair(c, lp) for c in astq.calls(lp, nested=False))
        inner = {id(x) for x in ast.walk(lp)} if lp is not None else set()
        gs = [(t_, l) for t_, l in wcfg.guards(d.node) if t_.kind == "test" and t_.ast is not None and id(t_.ast) in inner]  # type: ignore[arg-type]
        good = False
        why = f"guards {[norm(t_.ast) + ':' + l for t_, l in gs]}"
        if len(gs) == 1 and parts is not None and sends:
            t_, l = gs[0]
            e = t_.ast
            if isinstance(e, ast.Compare) and len(e.ops) == 1 and isinstance(e.ops[0], (ast.Eq, ast.NotEq)) and ((l == "T") == isinstance(e.ops[0], ast.Eq)):
                sides = [e.left, e.comparators[0]]
                const = next((_const_str(x) for x in sides if _const_str(x) is not None), None)
                expr = next((x for x in sides if _const_str(x) is None), None)
                if const is not None and expr is not None and const.lower() == "content-length":
                    chain = [nm for nm, _ in astq.method_chain(expr)]
                    fold = next((nm for nm in reversed(chain) if nm in ("lower", "upper", "casefold")), None)
                    good = fold is not None and getattr(const, fold)() == const and norm(_strip_methods(expr)) == parts[0]
                    why = f"`{norm(e)}`: case folding `{fold}` agrees with the constant and compares the name of the header being sent: {good}"
        okf = okf and good
        facts.append(why)
    return okf, f"flag `{name.id}` set by {'; '.join(facts)}"


def _content_length_search(a: ast.AST | None, label: str, wfi: FuncInfo) -> tuple[bool, str] | None:
    """`any(<name>.lower() == "content-length" for <name>, ... in <headers>)` taken on its false edge; returns
    (case folding agrees and the iterable is the one whose pairs are sent, description) or None when ``a`` is no such test."""
    if not (label == "F" and isinstance(a, ast.Call) and dotted(a.func) == "any" and len(a.args) == 1 and isinstance(a.args[0], (ast.GeneratorExp, ast.ListComp)) and len(a.args[0].generators) == 1):
        return None
    gen = a.args[0].generators[0]
    elt = a.args[0].elt
    if gen.ifs or not (isinstance(elt, ast.Compare) and len(elt.ops) == 1 and isinstance(elt.ops[0], ast.Eq)):
        return None
    sides = [elt.left, elt.comparators[0]]
    const = next((_const_str(x) for x in sides if _const_str(x) is not None), None)
    expr = next((x for x in sides if _const_str(x) is None), None)
    if const is None or expr is None or const.lower() != "content-length":
        return None
    first = gen.target.elts[0] if isinstance(gen.target, (ast.Tuple, ast.List)) and gen.target.elts else None
    chain = [nm for nm, _ in astq.method_chain(expr)]
    fold = next((nm for nm in reversed(chain) if nm in ("lower", "upper", "casefold")), None)
    agrees = fold is not None and getattr(const, fold)() == const
    root = astq.chain_root(expr)
    key_ok = isinstance(first, ast.Name) and isinstance(root, ast.Name) and root.id == first.id
    sent = {norm(lp.iter) for lp in walk_no_nested(wfi.node) if isinstance(lp, ast.For) and any(_self_call(c, "send_header") for c in astq.calls(lp, nested=False))}
    same_iter = norm(gen.iter) in sent
    return agrees and key_ok and same_iter, f"`{norm(a)}`: case folding `{fold}` agrees with constant {const!r}: {agrees}; compares the header name: {key_ok}; searches the headers that are sent ({sorted(sent)}): {same_iter}"


def _data_test(atom: ast.AST, dataname: str) -> str | None:
    """label ('T'/'F') of the edge on which the atom establishes that <dataname> is non-empty, or None when the atom is
    not an emptiness test of it."""

    def mk(v: bytes) -> H.Binder:
        def bind(x: ast.AST) -> tuple[bool, t.Any]:
            if isinstance(x, ast.Name) and x.id == dataname:
                return True, v
            return False, None

        return bind

    if not any(isinstance(x, ast.Name) and x.id == dataname for x in ast.walk(atom)):
        return None
    try:
        e = bool(H.ev(atom, mk(b"")))
        n1 = bool(H.ev(atom, mk(b"x")))
        n2 = bool(H.ev(atom, mk(b"xyz" * 50)))
    except H.Unknown:
        return None
    if n1 == n2 and n1 != e:
        return "T" if n1 else "F"
    return None


def _wire_rules(ctx: Ctx, wfi: FuncInfo, wcfg: CFG, dataname: str, flag: str) -> None:
    emits = [c for c in astq.calls(wfi.node, nested=False) if _is_emit(c)]
    emit_ids = {id(c) for c in emits}
    all_paths = H.paths(wcfg, wcfg.entry, [wcfg.exit, wcfg.raise_exit])
    cases = {
        "chunked": {"ok": True, "n": 0, "fact": ""},
        "identity": {"ok": True, "n": 0, "fact": ""},
        "empty": {"ok": True, "n": 0, "fact": ""},
    }
    want_chunked = [H.SIZE, CRLF, H.DATA, CRLF]
    n_feasible = 0
    for p in all_paths:
        if p[-1][0] is not wcfg.exit:
            continue
        env: dict[str, list] = {dataname: [H.DATA]}
        fl: bool | None = None
        ne: bool | None = None
        wire: list = []
        feasible = True
        for node, label in p[:-1]:
            a = node.ast
            if a is None:
                continue
            if node.kind == "test":
                if label not in ("T", "F"):
                    continue
                took = label == "T"
                if isinstance(a, ast.Name) and a.id == flag:
                    if fl is not None and fl != took:
                        feasible = False
                        break
                    fl = took
                    continue
                for var in sorted({x.id for x in ast.walk(a) if isinstance(x, ast.Name) and x.id in env}):
                    lab = _data_test(a, var)
                    if lab is None:
                        continue
                    cur = env[var]
                    if cur == [H.DATA]:  # the application's piece itself (possibly under another local name)
                        nonempty = label == lab
                        if ne is not None and ne != nonempty:
                            feasible = False
                        ne = nonempty
                    elif (H.always_truthy(cur) and label != lab) or (cur == [] and label == lab):
                        feasible = False  # a value that contains framing bytes is never empty; an empty constant never non-empty
                    break
                if not feasible:
                    break
                continue
            if node.kind != "stmt":
                continue
            if isinstance(a, ast.Assign) and isinstance(a.value, ast.Constant) and isinstance(a.value.value, bool) and any(isinstance(tg, ast.Name) and tg.id == flag for tg in a.targets):
                fl = a.value.value
                continue
            if isinstance(a, (ast.Assign, ast.AnnAssign)) and a.value is not None:
                for tg in a.targets if isinstance(a, ast.Assign) else [a.target]:
                    if isinstance(tg, ast.Name):
                        env[tg.id] = H.wire_val(a.value, env)
                    elif isinstance(tg, (ast.Tuple, ast.List)):
                        for e in ast.walk(tg):
                            if isinstance(e, ast.Name):
                                env[e.id] = [("?", norm(a.value))]
            elif isinstance(a, ast.AugAssign) and isinstance(a.target, ast.Name):
                if isinstance(a.op, ast.Add):
                    cur_, add_ = env.get(a.target.id, [("?", a.target.id)]), H.wire_val(a.value, env)
                    if H.is_seq(cur_) or H.is_seq(add_):
                        env[a.target.id] = [("SEQ", tuple(H.merge(H.unseq(cur_) + H.unseq(add_))))] if H.is_seq(cur_) and H.is_seq(add_) else [("?", norm(a))]
                    else:
                        env[a.target.id] = H.merge(cur_ + add_)
                else:
                    env[a.target.id] = [("?", norm(a))]
            if isinstance(a, ast.Expr) and isinstance(a.value, ast.Call) and isinstance(a.value.func, ast.Attribute) and isinstance(a.value.func.value, ast.Name) and H.is_seq(env.get(a.value.func.value.id, [])):
                # a local list of pieces being built: append / extend / insert(0, ...)
                c_, nm_ = a.value, a.value.func.value.id
                cur_ = H.unseq(env[nm_])
                if c_.func.attr == "append" and len(c_.args) == 1 and not c_.keywords:
                    env[nm_] = [("SEQ", tuple(H.merge(cur_ + H.unseq(H.wire_val(c_.args[0], env)))))]
                elif c_.func.attr == "extend" and len(c_.args) == 1 and not c_.keywords and H.is_seq(H.wire_val(c_.args[0], env)):
                    env[nm_] = [("SEQ", tuple(H.merge(cur_ + H.unseq(H.wire_val(c_.args[0], env)))))]
                elif c_.func.attr == "insert" and len(c_.args) == 2 and isinstance(c_.args[0], ast.Constant) and c_.args[0].value == 0:
                    env[nm_] = [("SEQ", tuple(H.merge(H.unseq(H.wire_val(c_.args[1], env)) + cur_)))]
                else:
                    env[nm_] = [("?", norm(a))]
            for c in ast.walk(a):
                if id(c) in emit_ids:
                    val_ = H.wire_val(c.args[0], env) if len(c.args) == 1 and not c.keywords else [("?", norm(c))]  # type: ignore[attr-defined]
                    if c.func.attr == "writelines":  # type: ignore[attr-defined]
                        wire += H.unseq(val_) if H.is_seq(val_) else [("?", norm(c))]
                    else:
                        wire += val_ if not H.is_seq(val_) else [("?", norm(c))]
        if not feasible:
            continue
        n_feasible += 1
        wire = H.merge(wire)
        unknown = [tk for tk in wire if tk[0] == "?"]
        if unknown:
            raise AnalysisError(f"writer: cannot evaluate the bytes written by `{unknown[0][1]}` (outside the framing expression subset)")
        for c_ne in (True, False):
            if ne is not None and ne != c_ne:
                continue
            for c_fl in (True, False):
                if fl is not None and fl != c_fl:
                    continue
                if c_ne and c_fl:
                    case, good = "chunked", wire == want_chunked
                elif c_ne:
                    case, good = "identity", wire == [H.DATA]
                else:
                    case, good = "empty", wire in ([], [H.DATA])
                cases[case]["n"] += 1  # type: ignore[operator]
                if not good and cases[case]["ok"]:
                    cases[case]["ok"] = False
                    cases[case]["fact"] = f"path with data {'non-empty' if c_ne else 'empty'}, chunking {'on' if c_fl else 'off'} writes {H.fmt_tokens(wire)}: {H.fmt_path([x for x in p if x[0].kind == 'test' or any(id(c) in emit_ids for c in ast.walk(x[0].ast or ast.Pass()))])}"
    ctx.floor("R19.2", "feasible paths through the writer", n_feasible, 4)
    text = {
        "chunked": ("non-empty data under chunking is written as hex(len) CRLF data CRLF", "chunk framing of non-empty data"),
        "identity": ("non-empty data without chunking is written unchanged", "unframed write of non-empty data"),
        "empty": ("an empty piece puts nothing on the wire (no `0 CRLF` chunk before the end)", "empty data writes nothing"),
    }
    for case, (inst, cons) in text.items():
        c = cases[case]
        if not c["n"]:
            raise AnalysisError(f"writer: no path for the case `{case}`")
        ctx.ob("R19.2", inst, bool(c["ok"]), c["fact"] or f"{c['n']} path/case combinations, all as required ({len(all_paths)} paths enumerated)", wfi, wfi.node, cons)


def _executor_rules(ctx: Ctx, xfi: FuncInfo, writer: str, flag: str, writer_nonlocals: set[str]) -> None:
    xcfg = cfg_of(xfi)
    rdx = ReachingDefs(xcfg, xfi.params)
    # the iteration over the application's iterable
    loops = []
    for lp in walk_no_nested(xfi.node):
        if isinstance(lp, ast.For) and isinstance(lp.target, ast.Name):
            for c in astq.calls(lp, nested=False):
                if isinstance(c.func, ast.Name) and c.func.id == writer and len(c.args) == 1 and isinstance(c.args[0], ast.Name) and c.args[0].id == lp.target.id:
                    loops.append((lp, c))
    if len(loops) != 1:
        raise AnalysisError(f"executor: expected one loop that passes each item to {writer}(), found {len(loops)}")
    lp, wc = loops[0]
    ln = xcfg.node_of(lp)
    wn = xcfg.node_of(wc)
    assert ln is not None and wn is not None
    unchanged = all(d.kind == "for" for d in rdx.reaching(wn, lp.target.id))  # type: ignore[union-attr]
    it_ok = False
    it_fact = norm(lp.iter)
    if isinstance(lp.iter, ast.Name):
        ds = rdx.reaching(ln, lp.iter.id)
        it_ok = bool(ds) and all(d.value is not None and isinstance(d.value, ast.Call) and len(d.value.args) == 2 and isinstance(d.value.args[0], ast.Name) for d in ds)
        it_fact = f"`{lp.iter.id}` = {[norm(d.value) for d in ds if d.value is not None]}"
    ctx.ob("R19.2", "every item of the application's iterable is handed to the writer unchanged", unchanged and it_ok, f"{it_fact}; `{norm(wc)}` receives the loop variable unchanged: {unchanged}", xfi, wc, "iteration feeds writer")

    emits = [c for c in astq.calls(xfi.node, nested=False) if _is_emit(c)]
    ctx.ob("R19.2", "the executor writes to the socket once (the last-chunk)", len(emits) == 1, f"{[norm(c) for c in emits]}", xfi, emits[0] if emits else xfi.node, "single terminator write")
    forced = [c for c in astq.calls(xfi.node, nested=False) if isinstance(c.func, ast.Name) and c.func.id == writer and len(c.args) == 1 and isinstance(c.args[0], ast.Constant) and c.args[0].value == b""]
    fn_nodes = [xcfg.node_of(c) for c in forced]
    for c in emits:
        cn = xcfg.node_of(c)
        assert cn is not None
        val = c.args[0].value if len(c.args) == 1 and isinstance(c.args[0], ast.Constant) else None
        if val is None and len(c.args) == 1 and isinstance(c.args[0], (ast.Name, ast.Attribute)):
            try:
                val = _folder_of(ctx, xfi)(c.args[0])  # a module-level constant
            except Exception:
                raise AnalysisError(f"executor: the bytes written by `{norm(c)}` are not a constant this analysis can fold")
        ctx.ob("R19.2", "the last-chunk is exactly `0 CRLF CRLF`", val == b"0\r\n\r\n", f"`{norm(c)}`" + (f" = {val!r}" if not isinstance(c.args[0] if c.args else None, ast.Constant) else ""), xfi, c, "terminator bytes")
        G = xcfg.guards(cn)
        under_flag = any(isinstance(t_.ast, ast.Name) and t_.ast.id == flag and l == "T" for t_, l in G)
        extra = [f"{norm(t_.ast)}:{l}" for t_, l in G if not (isinstance(t_.ast, ast.Name) and t_.ast.id == flag) and t_ is not ln]
        ctx.ob("R19.2", "the last-chunk is written only, and whenever, chunking is on", under_flag and not extra, f"guards {_gtext(xcfg, cn)}; other conditions: {extra}", xfi, c, "terminator under chunk flag")
        again: set[int] = set()
        for s_, _ in cn.succs:
            again |= xcfg.reach(s_)
        in_cycle = cn.id in again
        after = xcfg.edge_dominates(ln, "F", cn) and not in_cycle
        ctx.ob("R19.2", "the last-chunk is written after the iteration completed, never inside it", after, f"dominated by the loop's exit edge: {xcfg.edge_dominates(ln, 'F', cn)}; can execute more than once: {in_cycle}", xfi, c, "terminator after loop")
        # the decision is only known once the headers went out: the forced header write comes first
        flag_tests = [t_ for t_, l in G if isinstance(t_.ast, ast.Name) and t_.ast.id == flag]
        start = flag_tests[0] if flag_tests else cn
        late = [f for f in fn_nodes if f is not None and f.id in xcfg.reach(start)]
        okf = bool(forced) and not late
        if okf:
            for f in fn_nodes:
                assert f is not None
                extra_f = [(t_, l) for t_, l in xcfg.guards(f) if t_ is not ln]
                okf = okf and xcfg.edge_dominates(ln, "F", f) and all(isinstance(t_.ast, ast.Name) and t_.ast.id in writer_nonlocals and l == "F" for t_, l in extra_f)
        ctx.ob("R19.2", "headers are forced out (empty write) after an iteration that wrote nothing, before the last-chunk decision is read", okf, f"{len(forced)} `{writer}(b'')` call(s); after the decision: {len(late)}", xfi, c, "forced header write before terminator")


# =====================================================================
# R19.4


def _is_header_items(e: ast.AST | None) -> bool:
    return isinstance(e, ast.Call) and isinstance(e.func, ast.Attribute) and e.func.attr == "items" and is_self_attr(e.func.value, "headers") and not e.args and not e.keywords


def _unwrap_seq(e: ast.AST) -> ast.AST:
    """list(x) / tuple(x) / iter(x) -> x: iterating the copy is iterating x (the loop does not change the headers)."""
    while isinstance(e, ast.Call) and dotted(e.func) in ("list", "tuple", "iter") and len(e.args) == 1 and not e.keywords:
        e = e.args[0]
    return e


def _normalise_header_loop(me: FuncInfo) -> FuncInfo:
    """`for T in (E for G in self.headers.items() if C)` (generator or list comprehension, possibly inside list() /
    tuple()) is rewritten to `for G in self.headers.items(): if not C: continue; T = E; <body>`, and a list() / tuple() /
    iter() around the items is dropped, so that the loop rules see one iteration with its filter.  Only when the
    comprehension's variables are used nowhere else in the function."""
    def through_local(fn: ast.AST, lp: ast.For) -> ast.AST:
        """`xs = <expr>` ... `for T in xs` with xs bound once and used by the loop only -> <expr>."""
        if isinstance(lp.iter, ast.Name):
            uses = [x for x in ast.walk(fn) if isinstance(x, ast.Name) and x.id == lp.iter.id]
            binds = astq.assigns_to(fn, lp.iter.id)
            if len(binds) == 1 and binds[0][1] is not None and len(uses) == 2 and isinstance(binds[0][0], (ast.Assign, ast.AnnAssign)):
                return binds[0][1]
        return lp.iter

    def shape(lp: ast.AST, fn: ast.AST | None = None) -> str | None:
        if not isinstance(lp, ast.For):
            return None
        src_ = through_local(fn if fn is not None else me.node, lp)
        it = _unwrap_seq(src_)
        if isinstance(it, (ast.GeneratorExp, ast.ListComp)) and len(it.generators) == 1 and not it.generators[0].is_async and _is_header_items(_unwrap_seq(it.generators[0].iter)):
            return "comp"
        if it is not lp.iter and src_ is lp.iter and _is_header_items(it):
            return "wrapped"
        return None

    if not any(shape(n) for n in walk_no_nested(me.node)):
        return me
    new_fn = H.clone(me.node)
    for lp in [n for n in walk_no_nested(new_fn) if shape(n, new_fn)]:
        src_ = through_local(new_fn, lp)
        it = _unwrap_seq(src_)
        if shape(lp, new_fn) == "wrapped":
            lp.iter = it
            continue
        if src_ is not lp.iter:  # the comprehension was bound to a local: that statement goes away
            bst = astq.assigns_to(new_fn, lp.iter.id)[0][0]
            for holder in ast.walk(new_fn):
                for fld in ("body", "orelse", "finalbody"):
                    blk = getattr(holder, fld, None)
                    if isinstance(blk, list) and any(x is bst for x in blk):
                        blk[:] = [ast.copy_location(ast.Pass(), bst) if x is bst else x for x in blk]
        gen = it.generators[0]
        comp_names = {x.id for x in ast.walk(gen.target) if isinstance(x, ast.Name)}
        in_comp = {id(x) for x in ast.walk(it)}
        clash = [x for x in ast.walk(new_fn) if isinstance(x, ast.Name) and x.id in comp_names and id(x) not in in_comp]
        body_names = {x.id for x in ast.walk(lp.target) if isinstance(x, ast.Name)}
        in_lp = {id(x) for x in ast.walk(lp)}
        same_vars = comp_names == body_names and norm(gen.target) == norm(lp.target)
        # the comprehension reuses the loop's own variables (`[(f(k), g(v)) for k, v in ... ]` / `for k, v in <that>`): binding
        # them to the raw pair first and to the element right after is what the two loops did one after the other, as long
        # as nothing outside the loop reads them
        if clash and not (same_vars and (norm(gen.target) == norm(it.elt) or all(id(x) in in_lp for x in clash))):
            return me  # hoisting the comprehension's variables would capture other uses of these names
        pre: list[ast.stmt] = []
        if gen.ifs:
            tst = gen.ifs[0] if len(gen.ifs) == 1 else ast.BoolOp(op=ast.And(), values=list(gen.ifs))
            pre.append(ast.If(test=ast.UnaryOp(op=ast.Not(), operand=tst), body=[ast.Continue()], orelse=[]))
        if norm(it.elt) != norm(lp.target):
            tgt = H.clone(lp.target)
            pre.append(ast.Assign(targets=[tgt], value=it.elt))
        new_target = H.clone(gen.target)
        for x in ast.walk(new_target):
            if isinstance(x, (ast.Name, ast.Tuple, ast.List)):
                x.ctx = ast.Store()
        for st in pre:
            ast.copy_location(st, lp)
            ast.fix_missing_locations(st)
        lp.target = new_target
        lp.iter = _unwrap_seq(gen.iter)
        lp.body = pre + lp.body
    ast.fix_missing_locations(new_fn)
    for n in ast.walk(new_fn):
        for ch in ast.iter_child_nodes(n):
            ch._parent = n  # type: ignore[attr-defined]
    return FuncInfo(me.module, new_fn, me.qualname, me.cls)


def _normalise_keyerror_try(me: FuncInfo) -> FuncInfo:
    """inside a loop over the request headers, `try: S` / `except KeyError: H` (/ `else: E`) where the single statement S
    reads `d[k]` exactly once (d a local name, k a name or a constant) and does nothing else that can raise KeyError - no
    other subscript, no call other than str methods / f-string formatting - is `if k in d: S; E` / `else: H`: the
    exception edge is taken exactly when the key is missing.  The header loop rules evaluate the `if` form."""
    def candidate(st: ast.AST) -> ast.Subscript | None:
        if not isinstance(st, ast.Try) or st.finalbody or len(st.handlers) != 1 or len(st.body) != 1:
            return None
        h = st.handlers[0]
        if h.name is not None or h.type is None or dotted(h.type) not in ("KeyError", "LookupError"):
            return None
        s0 = st.body[0]
        if not isinstance(s0, (ast.Assign, ast.AnnAssign, ast.AugAssign)):
            return None
        subs = [x for x in ast.walk(s0) if isinstance(x, ast.Subscript)]
        loads = [x for x in subs if isinstance(x.ctx, ast.Load)]
        if len(subs) != 1 or len(loads) != 1 or not isinstance(loads[0].value, ast.Name) or not isinstance(loads[0].slice, (ast.Name, ast.Constant)):
            return None
        if any(isinstance(x, (ast.Call, ast.Await, ast.Yield, ast.YieldFrom, ast.NamedExpr, ast.Lambda)) for x in ast.walk(s0)):
            return None
        if any(isinstance(x, (ast.Return, ast.Raise)) for b in (st.orelse,) for y in b for x in ast.walk(y)):
            return None
        return loads[0]

    def in_header_loop(fn: ast.AST) -> list[ast.Try]:
        out = []
        for lp in walk_no_nested(fn):
            if isinstance(lp, ast.For) and any(is_self_attr(x, "headers") for x in ast.walk(lp.iter)):
                out += [x for x in ast.walk(lp) if candidate(x) is not None]
        return out

    if not in_header_loop(me.node):
        return me
    new_fn = H.clone(me.node)
    targets = {id(x) for x in in_header_loop(new_fn)}

    class T(ast.NodeTransformer):
        def visit_Try(self, st: ast.Try) -> ast.AST:  # noqa: N802
            self.generic_visit(st)
            if id(st) not in targets:
                return st
            sub = candidate(st)
            assert sub is not None
            test = ast.Compare(left=H.clone(sub.slice), ops=[ast.In()], comparators=[ast.Name(id=sub.value.id, ctx=ast.Load())])  # type: ignore[attr-defined]
            new = ast.If(test=test, body=list(st.body) + list(st.orelse), orelse=list(st.handlers[0].body))
            return ast.fix_missing_locations(ast.copy_location(new, st))

    new_fn = T().visit(new_fn)
    ast.fix_missing_locations(new_fn)
    for n in ast.walk(new_fn):
        for ch in ast.iter_child_nodes(n):
            ch._parent = n  # type: ignore[attr-defined]
    return FuncInfo(me.module, new_fn, me.qualname, me.cls)


def _environ_rules(ctx: Ctx, me: FuncInfo) -> ClassInfo:
    repo = ctx.repo
    me = _normalise_header_loop(me)
    me = _normalise_keyerror_try(me)
    cfg = cfg_of(me)
    rd = ReachingDefs(cfg, me.params)
    rets = astq.returns_of(me.node)
    if not rets or not all(isinstance(r.value, ast.Name) for r in rets) or len({r.value.id for r in rets}) != 1:  # type: ignore[union-attr]
        raise AnalysisError("make_environ: expected `return <environ name>`")
    env = rets[0].value.id  # type: ignore[union-attr]
    # the literal that lists the fixed entries (a dict display with constant keys; `{**a, **b}` is a merge, not the literal)
    dicts = [(s, v) for s, v in astq.assigns_to(me.node, env) if isinstance(v, ast.Dict) and any(k is not None for k in v.keys) and not any(k is None and isinstance(x, ast.Name) and x.id == env for k, x in zip(v.keys, v.values))]
    if len(dicts) != 1:
        raise AnalysisError("make_environ: expected one dict literal bound to the environ")
    dstmt, dlit = dicts[0]
    dnode = cfg.node_of(dstmt)
    assert dnode is not None and isinstance(dlit, ast.Dict)
    entries = {_const_str(k): v for k, v in zip(dlit.keys, dlit.values) if k is not None and _const_str(k) is not None}
    entry_at: dict[str | None, Node] = {k: dnode for k in entries}
    # the literal continued: `environ |= {...}` / `environ.update({...})` / `environ["K"] = v` as unconditional statements of
    # the function body between the literal and the first loop add fixed entries just as the literal does
    body_ = list(me.node.body)  # type: ignore[attr-defined]
    if any(st is dstmt for st in body_):
        for st in body_[[i for i, x in enumerate(body_) if x is dstmt][0] + 1:]:
            if isinstance(st, (ast.For, ast.While, ast.AsyncFor)):
                break
            more: list[tuple[ast.AST | None, ast.AST]] = []
            if isinstance(st, ast.AugAssign) and isinstance(st.op, ast.BitOr) and isinstance(st.target, ast.Name) and st.target.id == env and isinstance(st.value, ast.Dict):
                more = list(zip(st.value.keys, st.value.values))
            elif isinstance(st, ast.Expr) and isinstance(st.value, ast.Call) and isinstance(st.value.func, ast.Attribute) and st.value.func.attr == "update" and isinstance(st.value.func.value, ast.Name) and st.value.func.value.id == env and len(st.value.args) == 1 and not st.value.keywords and isinstance(st.value.args[0], ast.Dict):
                more = list(zip(st.value.args[0].keys, st.value.args[0].values))
            elif isinstance(st, ast.Assign) and len(st.targets) == 1 and isinstance(st.targets[0], ast.Subscript) and isinstance(st.targets[0].value, ast.Name) and st.targets[0].value.id == env:
                more = [(st.targets[0].slice, st.value)]
            sn_ = cfg.node_of(st)
            for k, v in more:
                if k is not None and _const_str(k) is not None and sn_ is not None:
                    entries[_const_str(k)] = v
                    entry_at[_const_str(k)] = sn_

    def sub_store(st: ast.AST) -> list[tuple[str, ast.AST, ast.AST]]:
        """`<name>[<key>] = <value>` (also pairwise in a tuple assignment) and `<name>.update({<key>: <value>, ...})`
        -> (name, key, value) per entry."""
        out: list[tuple[str, ast.AST, ast.AST]] = []
        if isinstance(st, ast.Assign):
            for tg in st.targets:
                if isinstance(tg, ast.Subscript) and isinstance(tg.value, ast.Name):
                    out.append((tg.value.id, tg.slice, st.value))
                elif isinstance(tg, (ast.Tuple, ast.List)) and isinstance(st.value, (ast.Tuple, ast.List)) and len(tg.elts) == len(st.value.elts):
                    for e, v in zip(tg.elts, st.value.elts):
                        if isinstance(e, ast.Subscript) and isinstance(e.value, ast.Name):
                            out.append((e.value.id, e.slice, v))
        elif isinstance(st, ast.Expr) and isinstance(st.value, ast.Call) and isinstance(st.value.func, ast.Attribute) and st.value.func.attr == "update" and isinstance(st.value.func.value, ast.Name):
            c = st.value
            if len(c.args) == 1 and not c.keywords and isinstance(c.args[0], ast.Dict) and all(k is not None for k in c.args[0].keys):
                out += [(c.func.value.id, k, v) for k, v in zip(c.args[0].keys, c.args[0].values)]  # type: ignore[misc]
        return out

    sub_stores = [(s, *e) for s in walk_no_nested(me.node) for e in sub_store(s)]
    stores = [(s, k, v) for s, b, k, v in sub_stores if b == env]

    # ---- request line -------------------------------------------------
    def callee(c: ast.AST) -> str | None:
        if isinstance(c, ast.Call):
            d = dotted(c.func)
            if d:
                return repo.resolve(me.module, d, me.module.local_imports(me.node))
        return None

    DANCE = "werkzeug._internal._wsgi_encoding_dance"
    UNQ = "urllib.parse.unquote"
    SPLIT = "urllib.parse.urlsplit"

    FIELDS = ["scheme", "netloc", "path", "query", "fragment"]

    def is_split(v: ast.AST | None) -> bool:
        return isinstance(v, ast.Call) and callee(v) == SPLIT and len(v.args) == 1 and not v.keywords and is_self_attr(v.args[0], "path")

    def split_obj(v: ast.AST | None, at: Node | None) -> bool:
        """urlsplit(self.path) itself, or a local that holds nothing else."""
        if is_split(v):
            return True
        if isinstance(v, ast.Name) and at is not None:
            ds = rd.reaching(at, v.id)
            return bool(ds) and all(d.kind == "assign" and d.index is None and is_split(d.value) for d in ds)
        return False

    def role(e: ast.AST, at: Node, depth: int = 0) -> str | None:
        """which component of urlsplit(self.path) an expression is, however it was bound: `<r>.path`, `<r>[2]`, a name
        unpacked from the result, or a local copied from one of these."""
        if isinstance(e, ast.Attribute) and e.attr in FIELDS:
            return e.attr if split_obj(e.value, at) else None
        if isinstance(e, ast.Subscript) and isinstance(e.slice, ast.Constant) and isinstance(e.slice.value, int) and 0 <= e.slice.value < 5:
            return FIELDS[e.slice.value] if split_obj(e.value, at) else None
        if isinstance(e, ast.Name) and depth < 3:
            ds = rd.reaching(at, e.id)
            roles: set[str | None] = set()
            for d in ds:
                if d.kind == "unpack" and d.index is not None and 0 <= d.index < 5 and split_obj(d.value, d.node) and isinstance(d.target, ast.Name) and not (d.stmt is not None and any(isinstance(x, ast.Starred) for x in ast.walk(d.stmt))):
                    roles.add(FIELDS[d.index])
                elif d.kind == "assign" and d.index is None and d.value is not None and d.node is not None and isinstance(d.value, (ast.Attribute, ast.Subscript, ast.Name)):
                    roles.add(role(d.value, d.node, depth + 1))
                else:
                    roles.add(None)
            if len(roles) == 1:
                return roles.pop()
        return None

    def resolve(e: ast.AST, at: Node) -> list[tuple[ast.AST, Node]]:
        """the expressions a name stands for (its reaching plain assignments), or the expression itself."""
        if isinstance(e, ast.Name):
            ds = rd.reaching(at, e.id)
            if ds and all(d.kind == "assign" and d.index is None and d.value is not None and d.node is not None for d in ds):
                return [(d.value, d.node) for d in ds]  # type: ignore[misc]
        return [(e, at)]

    # which function splits the request target
    parsers = [c for c in astq.calls(me.node, nested=False) if len(c.args) >= 1 and is_self_attr(c.args[0], "path") and (callee(c) or "").startswith("urllib.parse.url")]
    wrong_parser = [c for c in parsers if callee(c) != SPLIT or len(c.args) != 1 or c.keywords]
    if not parsers:
        raise AnalysisError("make_environ: no urllib.parse call on self.path found (how the request target is split is not followed)")
    ctx.ob("R19.4", "the request target is split by urllib.parse.urlsplit(self.path) (path parameters stay in the path)", not wrong_parser, f"{[norm(c) + ' -> ' + str(callee(c)) for c in parsers]}", me, (wrong_parser or parsers)[0], "request target splitter")

    def entry(key: str) -> list[tuple[ast.AST, Node]]:
        """the expressions stored under a key of the literal (a local holding the value is followed to its definitions)."""
        e = entries.get(key)
        return resolve(e, entry_at.get(key, dnode)) if e is not None else []

    def shown(vs: list[tuple[ast.AST, Node]]) -> str:
        return ", ".join(f"`{norm(v)}`" for v, _ in vs) or "None"

    m_ = entry("REQUEST_METHOD")
    ctx.ob("R19.4", "REQUEST_METHOD is the parsed request method", bool(m_) and all(is_self_attr(v, "command") for v, _ in m_), shown(m_), me, dstmt, "REQUEST_METHOD source")
    i_ = entry("wsgi.input")
    ctx.ob("R19.4", "wsgi.input starts as the connection's read file", bool(i_) and all(is_self_attr(v, "rfile") for v, _ in i_), shown(i_), me, dstmt, "wsgi.input source")

    q_ = entry("QUERY_STRING")
    ok = bool(q_) and all(callee(v) == DANCE and len(v.args) == 1 and not v.keywords and role(v.args[0], n) == "query" for v, n in q_)  # type: ignore[attr-defined]
    ctx.ob("R19.4", "QUERY_STRING is the raw query of urlsplit(self.path), only re-encoded (never unquoted)", ok, shown(q_), me, entries.get("QUERY_STRING", dstmt), "QUERY_STRING source")

    p_ = entry("PATH_INFO")
    p = entries.get("PATH_INFO")
    okp = bool(p_) and all(callee(v) == DANCE and len(v.args) == 1 and not v.keywords for v, _ in p_)  # type: ignore[attr-defined]
    factp = shown(p_)
    raw_srcs: list[tuple[ast.AST, Node]] = []
    decoded: list[tuple[ast.AST, Node]] = []
    if okp:
        for v, n in p_:
            decoded += resolve(v.args[0], n)  # type: ignore[attr-defined]
        okp = bool(decoded) and all(callee(v) == UNQ and len(v.args) == 1 and not v.keywords for v, _ in decoded)  # type: ignore[attr-defined]
        factp += f"; decoded by {[norm(v) for v, _ in decoded]}"
        if okp:
            for v, n in decoded:
                raw_srcs += resolve(v.args[0], n)  # type: ignore[attr-defined]
    ctx.ob("R19.4", "PATH_INFO is the path percent-decoded once, then re-encoded", okp, factp, me, p if p is not None else dstmt, "PATH_INFO source")
    # the raw path: urlsplit().path, or "/" + netloc + path when there is no scheme but a netloc ('//' prefix).
    # Decided by evaluating every path from the entry to the unquote call on sample URL components (scheme and netloc
    # empty / non-empty); a condition that does not depend on the URL is followed on both edges.
    SAMPLE = {"path": "/a%20b/c", "query": "x=1%2B2", "fragment": "frag"}
    UNK = object()

    def raw_eval() -> tuple[bool, str]:
        results: dict[tuple[str, str], set[str]] = {}
        for v, n in decoded:
            prefix = [p_ for p_ in H.paths(cfg, cfg.entry, [n, cfg.exit, cfg.raise_exit], follow_exc=False) if p_[-1][0] is n]
            for sch in ("", "http"):
                for net in ("", "host:8080"):
                    comp = {"scheme": sch, "netloc": net, **SAMPLE}
                    got = results.setdefault((sch, net), set())
                    for pth in prefix:
                        vals: dict[str, t.Any] = {}
                        cur: list[Node] = [cfg.entry]

                        def bind(x: ast.AST) -> tuple[bool, t.Any]:
                            if isinstance(x, ast.Name) and x.id in vals:
                                if vals[x.id] is UNK:
                                    raise H.Unknown(x.id)
                                return True, vals[x.id]
                            if isinstance(x, (ast.Name, ast.Attribute, ast.Subscript)):
                                r_ = role(x, cur[0])
                                if r_ is not None:
                                    return True, comp[r_]
                            return False, None

                        def url_derived(a: ast.AST) -> bool:
                            return any(is_self_attr(x, "path") or (isinstance(x, ast.Name) and isinstance(vals.get(x.id), str)) or (isinstance(x, (ast.Name, ast.Attribute, ast.Subscript)) and role(x, cur[0]) is not None) for x in ast.walk(a))

                        feasible = True
                        for node, label in pth[:-1]:
                            a = node.ast
                            if a is None:
                                continue
                            cur[0] = node
                            if node.kind == "test":
                                if label not in ("T", "F"):
                                    continue
                                try:
                                    c = bool(H.ev(a, bind))
                                except H.Unknown as e:
                                    if url_derived(a):
                                        raise H.Unknown(f"condition `{norm(a)}`: {e}")
                                    continue  # independent of the URL: both edges
                                if c != (label == "T"):
                                    feasible = False
                                    break
                            elif node.kind == "stmt":
                                if isinstance(a, (ast.Assign, ast.AnnAssign)) and a.value is not None:
                                    for tg in a.targets if isinstance(a, ast.Assign) else [a.target]:
                                        if isinstance(tg, ast.Name):
                                            if split_obj(a.value, node) and not isinstance(a.value, ast.Name):
                                                vals.pop(tg.id, None)  # the split result itself: components come from role()
                                                continue
                                            try:
                                                vals[tg.id] = H.ev(a.value, bind)
                                            except H.Unknown:
                                                vals[tg.id] = UNK
                                        else:
                                            for x in ast.walk(tg):
                                                if isinstance(x, ast.Name):
                                                    vals.pop(x.id, None)  # unpacked names: role() knows them, or nothing does
                                elif isinstance(a, ast.AugAssign) and isinstance(a.target, ast.Name):
                                    try:
                                        vals[a.target.id] = H.ev(ast.BinOp(left=ast.Name(id=a.target.id, ctx=ast.Load()), op=a.op, right=a.value), bind)
                                    except H.Unknown:
                                        vals[a.target.id] = UNK
                                elif isinstance(a, (ast.For, ast.With)):
                                    for x in ast.walk(a.target if isinstance(a, ast.For) else ast.Tuple(elts=[i.optional_vars for i in a.items if i.optional_vars is not None])):
                                        if isinstance(x, ast.Name):
                                            vals[x.id] = UNK
                        if not feasible:
                            continue
                        cur[0] = n
                        r = H.ev(v.args[0], bind)  # type: ignore[attr-defined]
                        if not isinstance(r, str):
                            raise H.Unknown(norm(v))
                        got.add(r)
        okr = True
        facts_ = []
        for (sch, net), got in sorted(results.items()):
            want = f"/{net}{SAMPLE['path']}" if not sch and net else SAMPLE["path"]
            if not got:
                raise H.Unknown(f"no feasible path for scheme {sch!r}, netloc {net!r}")
            if got != {want}:
                okr = False
                facts_.append(f"scheme {sch!r}, netloc {net!r}, path {SAMPLE['path']!r}: decodes {sorted(got)}, expected {want!r}")
        return okr, "; ".join(facts_) or "evaluated for scheme / netloc empty and non-empty: '/' + netloc + path exactly when there is no scheme but a netloc, the path alone otherwise"

    plain = 0
    slashed = 0
    bad = []
    for v, n in raw_srcs:
        g = set()
        for t_, l in cfg.guards(n):
            if t_.kind == "test" and t_.ast is not None:
                r_ = role(t_.ast, t_)
                g.add(f"{r_}:{l}" if r_ else f"{norm(t_.ast)}:{l}")
        rows: list[tuple[ast.AST, set[str]]] = []
        if isinstance(v, ast.IfExp):
            tt, ff = _atoms_of(v.test, lambda x, n=n: role(x, n))
            rows.append((v.body, g | tt))
            rows.append((v.orelse, g | ff))
        else:
            rows.append((v, g))
        for e, gg in rows:
            if role(e, n) == "path":
                plain += 1
            elif isinstance(e, ast.JoinedStr) or isinstance(e, ast.BinOp):
                parts = _concat_parts(e)
                shape = len(parts) == 3 and parts[0] == "/" and isinstance(parts[1], ast.AST) and isinstance(parts[2], ast.AST) and role(parts[1], n) == "netloc" and role(parts[2], n) == "path"
                if shape and "scheme:F" in gg and "netloc:T" in gg:
                    slashed += 1
                else:
                    bad.append(f"`{norm(e)}` under {sorted(gg)}")
            else:
                bad.append(f"`{norm(e)}`")
    ok_struct = plain >= 1 and slashed >= 1 and not bad
    fact_struct = f"plain path sources: {plain}; '/'+netloc+path under (no scheme, netloc): {slashed}; other sources: {bad}"
    ok_raw, fact_raw = ok_struct, fact_struct
    if okp:
        try:
            ok_raw, fact_raw = raw_eval()
        except H.Unknown as e:
            if not ok_struct and not wrong_parser:
                raise AnalysisError(f"make_environ: cannot evaluate how the raw path is built ({e}); structurally: {fact_struct}")
    ctx.ob("R19.4", "the path decoded is urlsplit's path, with a '//' first segment re-attached when there is no scheme", okp and ok_raw, fact_raw, me, dstmt, "raw path sources")

    # ---- header loop ---------------------------------------------------
    def iterates_headers(lp: ast.For) -> bool:
        """`self.headers.items()`, or a local bound (only) to it."""
        if _is_header_items(lp.iter):
            return True
        if isinstance(lp.iter, ast.Name):
            ln_ = cfg.node_of(lp)
            ds = rd.reaching(ln_, lp.iter.id) if ln_ is not None else ()
            return bool(ds) and all(d.kind == "assign" and d.index is None and _is_header_items(_unwrap_seq(d.value)) for d in ds if d.value is not None) and all(d.value is not None for d in ds)
        return False

    hloops = [lp for lp in walk_no_nested(me.node) if isinstance(lp, ast.For) and iterates_headers(lp)]
    if len(hloops) != 1 or not (isinstance(hloops[0].target, ast.Tuple) and len(hloops[0].target.elts) == 2 and all(isinstance(e, ast.Name) for e in hloops[0].target.elts)):
        raise AnalysisError("make_environ: expected one `for <key>, <value> in self.headers.items()` loop")
    lp = hloops[0]
    # the dict the loop fills: the environ itself, or a local dict that is merged into the environ afterwards
    in_loop = {id(x) for x in ast.walk(lp)}
    bases = {b for s, b, k, v in sub_stores if id(s) in in_loop}
    hdict = env
    merge_node: Node | None = None
    if bases and bases != {env}:
        if len(bases) != 1:
            raise AnalysisError(f"make_environ: the header loop stores into several dicts {sorted(bases)} (not modelled)")
        hdict = next(iter(bases))
        merge_node = _header_dict_merge(ctx, me, cfg, lp, env, hdict, dstmt, dlit, stores)
    env_keys: frozenset[str] | None = None
    if hdict != env:
        # what the environ holds while the loop runs: the literal's keys and the constant-key stores that can run before the loop
        ks = [_const_str(k) if k is not None else None for k in dlit.keys] if cfg.node_dominates(dnode, cfg.node_of(lp)) else []  # type: ignore[arg-type]
        ks += [_const_str(k) for s, k, v in stores if (sn_ := cfg.node_of(s)) is not None and cfg.node_of(lp).id in cfg.reach(sn_) and id(s) not in in_loop]  # type: ignore[union-attr]
        env_keys = frozenset(k for k in ks if k is not None) if all(k is not None for k in ks) else None
    _header_loop_rules(ctx, me, cfg, lp, hdict, [(s, k, v) for s, b, k, v in sub_stores if b == hdict], untouched=env if hdict != env else None, untouched_keys=env_keys)

    # ---- absolute-form request target: its authority is the host ---------------------
    if not wrong_parser:  # otherwise the components are not those of urlsplit: reported above, nothing to evaluate here
        _host_authority_rule(ctx, me, cfg, env, lp, role)

    # ---- terminated <=> wrapped ------------------------------------------
    fixed_ = {id(n_.ast) for n_ in entry_at.values() if n_ is not dnode}  # stores that continue the literal: fixed entries, judged there
    term = [(s, v) for s, k, v in stores if _const_str(k) == "wsgi.input_terminated" and id(s) not in fixed_]
    wraps = [(s, v) for s, k, v in stores if _const_str(k) == "wsgi.input" and id(s) not in fixed_]
    dech: ClassInfo | None = None
    wrap_calls: dict[int, list[ast.AST]] = {}
    for s, v in wraps:
        sn = cfg.node_of(s)
        for vv, _ in resolve(v, sn) if sn is not None else [(v, None)]:  # the wrapper may be built in a local first
            fq = callee(vv)
            if fq and fq.startswith("werkzeug."):
                dech = repo.try_cls(fq) or dech
                wrap_calls.setdefault(id(s), []).append(vv)
    if dech is None:
        raise AnalysisError("make_environ: no `environ['wsgi.input'] = <de-chunking class>(...)` store found")
    in_literal = entries.get("wsgi.input_terminated")
    ctx.ob("R19.4", "wsgi.input_terminated is not set unconditionally", in_literal is None or (isinstance(in_literal, ast.Constant) and in_literal.value is False), f"dict literal entry: {norm(in_literal) if in_literal is not None else None}", me, dstmt, "terminated not in literal")
    ctx.ob("R19.4", "one wrap of wsgi.input and one wsgi.input_terminated store", len(term) == 1 and len(wraps) == 1, f"terminated stores: {len(term)}; wsgi.input stores: {len(wraps)}", me, (term or wraps or [(dstmt, None)])[0][0], "single wrap and flag")
    if len(term) == 1 and len(wraps) == 1:
        tn, wn = cfg.node_of(term[0][0]), cfg.node_of(wraps[0][0])
        assert tn is not None and wn is not None

        K_TE = "HTTP_TRANSFER_ENCODING"
        ABSENT = object()  # sample: the request has no Transfer-Encoding header

        class KeyAbsent(Exception):
            pass

        def _raise_absent() -> t.Any:
            raise KeyAbsent()

        def is_dict(x: ast.AST) -> bool:
            return isinstance(x, ast.Name) and x.id in (env, hdict)

        def te_lookup(x: ast.AST) -> tuple[str, t.Callable[[t.Any], t.Any]] | None:
            """a read of the Transfer-Encoding entry of the environ (or of the dict the header loop filled):
            (dict name, sample -> value of the expression)."""
            if isinstance(x, ast.Subscript) and is_dict(x.value) and _const_str(x.slice) == K_TE:
                return x.value.id, lambda s_: s_ if s_ is not ABSENT else _raise_absent()  # type: ignore[attr-defined]
            if isinstance(x, ast.Call) and isinstance(x.func, ast.Attribute) and x.func.attr == "get" and is_dict(x.func.value) and 1 <= len(x.args) <= 2 and not x.keywords and _const_str(x.args[0]) == K_TE:
                dflt = None
                if len(x.args) == 2:
                    if not isinstance(x.args[1], ast.Constant):
                        return None
                    dflt = x.args[1].value
                return x.func.value.id, lambda s_, dflt=dflt: s_ if s_ is not ABSENT else dflt  # type: ignore[attr-defined]
            if isinstance(x, ast.Compare) and len(x.ops) == 1 and isinstance(x.ops[0], (ast.In, ast.NotIn)) and _const_str(x.left) == K_TE:
                c0 = x.comparators[0]
                if isinstance(c0, ast.Call) and isinstance(c0.func, ast.Attribute) and c0.func.attr == "keys" and not c0.args:
                    c0 = c0.func.value
                if is_dict(c0):
                    neg = isinstance(x.ops[0], ast.NotIn)
                    return c0.id, lambda s_, neg=neg: (s_ is not ABSENT) != neg  # type: ignore[attr-defined]
            return None

        def te_nodes(ex: ast.AST, at: Node) -> tuple[dict[int, t.Callable[[t.Any], t.Any]], set[str], list[Node]]:
            """the sub-expressions of a guard that carry the header value: lookups, and locals bound on every path either
            by a lookup or by the constant that stands for an absent header (`try: te = environ[K]` / `except KeyError: te = ""`)."""
            fns: dict[int, t.Callable[[t.Any], t.Any]] = {}
            bases_: set[str] = set()
            nodes_: list[Node] = []
            for x in ast.walk(ex):
                lk = te_lookup(x)
                if lk is not None:
                    fns[id(x)] = lk[1]
                    bases_.add(lk[0])
                elif isinstance(x, ast.Name) and isinstance(x.ctx, ast.Load) and not is_dict(x):
                    ds = rd.reaching(at, x.id)
                    if len(ds) < 2 or not all(d.kind == "assign" and d.index is None and d.value is not None and d.node is not None for d in ds):
                        continue
                    looks = [(d, te_lookup(d.value)) for d in ds if te_lookup(d.value) is not None]  # type: ignore[arg-type]
                    consts = [d for d in ds if isinstance(d.value, ast.Constant)]
                    if looks and len(consts) == 1 and len(looks) + 1 == len(ds):
                        dflt = consts[0].value.value  # type: ignore[union-attr]
                        fns[id(x)] = lambda s_, dflt=dflt: s_ if s_ is not ABSENT and s_ is not None else dflt
                        bases_ |= {lk_[0] for _, lk_ in looks}  # type: ignore[index]
                        nodes_ += [d.node for d, _ in looks]  # type: ignore[misc]
            return fns, bases_, nodes_

        TE_SAMPLES = ["chunked", "Chunked", "", "gzip", "identity", ABSENT]
        fn_locals = _local_names(me.node)

        def profile(node: Node) -> tuple[list[t.Any], list[tuple[t.Any, str]], list[str], list[Node], set[str]]:
            """the dominating guards of a node, hoisted locals expanded: (Transfer-Encoding values admitted from the
            samples, the atoms on the header value, the other conditions, the nodes where the header is looked up,
            the dicts it is looked up in).  A condition over locals that is neither is not understood."""
            atoms_g: list[tuple[t.Any, str]] = []
            fns_all: dict[int, t.Callable[[t.Any], t.Any]] = {}
            others: list[str] = []
            eval_nodes: list[Node] = []
            bases_: set[str] = set()
            for t_, l in cfg.guards(node):
                if t_.kind != "test" or t_.ast is None:
                    continue
                ex, used = _expand_locals(t_.ast, t_, rd, keep=(env, hdict))  # the dicts are containers, not hoisted sub-expressions
                fns, bs, def_nodes = te_nodes(ex, t_)
                if fns:
                    atoms_g.append((_Atom(ex, t_), l))
                    fns_all.update(fns)
                    eval_nodes += [t_] + used + def_nodes
                    bases_ |= bs
                else:
                    loc = sorted({x.id for x in ast.walk(ex) if isinstance(x, ast.Name) and x.id != "self" and isinstance(x.ctx, ast.Load) and x.id in fn_locals})
                    if loc:
                        raise AnalysisError(f"make_environ: the guard `{norm(t_.ast)}` of `{norm(node.ast)[:60]}` tests the local(s) {loc}, whose value is not followed")
                    k_, pos_ = G.canon(ex)
                    others.append(f"{k_}:{'T' if (l == 'T') == pos_ else 'F'}")
            adm_: list[t.Any] = []
            for smp in TE_SAMPLES:
                okk = True
                for at_, l in atoms_g:
                    try:
                        r_ = bool(H.ev(at_.ast, lambda x, smp=smp: (True, fns_all[id(x)](smp)) if id(x) in fns_all else (False, None)))
                    except KeyAbsent:
                        okk = False  # the lookup raises: the guarded statement is not reached
                        break
                    except H.Unknown as e:
                        raise AnalysisError(f"guard atom `{norm(at_.ast)}` is outside the evaluable subset ({e})")
                    except (AttributeError, TypeError):
                        okk = False  # e.g. None.strip(): raises at run time, the guarded statement is not reached
                        break
                    if r_ != (l == "T"):
                        okk = False
                        break
                if okk:
                    adm_.append("<no header>" if smp is ABSENT else smp)
            return adm_, atoms_g, sorted(others), eval_nodes, bases_

        adm, atoms_g, others, eval_nodes, te_bases = profile(wn)
        if _gids(cfg, tn) == _gids(cfg, wn):
            same, how = True, "same dominating guard edges"
        else:  # two separate `if`s: the same by evaluation
            adm_t, atoms_t, others_t, nodes_t, bases_t = profile(tn)
            same = bool(atoms_t) and adm_t == adm and others_t == others
            how = f"flag store admitted for {adm_t} / other conditions {others_t}; wrap admitted for {adm} / other conditions {others}"
            eval_nodes += nodes_t
            te_bases |= bases_t
        ctx.ob("R19.4", "wsgi.input_terminated is set under exactly the guard under which the input is de-chunked", same and isinstance(term[0][1], ast.Constant) and term[0][1].value is True,
               f"flag store guards {_gtext(cfg, tn)}; wrap guards {_gtext(cfg, wn)}; {how}; value `{norm(term[0][1])}`", me, term[0][0], "terminated iff wrapped")
        hl = [cfg.node_of(x) for x in hloops]
        after_headers = all(h is not None and h.id not in cfg.reach(n) and cfg.edge_dominates(h, "F", n) for n in eval_nodes for h in hl)
        if merge_node is not None and env in te_bases:
            # the headers reach the environ only with the merge: a lookup in the environ must come after it
            after_headers = after_headers and all(n is not merge_node and cfg.node_dominates(merge_node, n) for n in eval_nodes)
        okw = bool(atoms_g) and {"chunked", "Chunked"} <= set(adm) and not ({"", "gzip", "identity", "<no header>"} & set(adm)) and not others and after_headers
        ctx.ob("R19.4", "the input is de-chunked when Transfer-Encoding is chunked", okw,
               f"wrap guards on the header value {[norm(a.ast) + ':' + l for a, l in atoms_g]}: admitted from the samples {adm} (required: 'chunked' in any letter case, not '' / 'gzip' / 'identity' / no header); other conditions {others}; header looked up after the header loop: {after_headers}", me, wraps[0][0], "wrap guard is chunked transfer-encoding")

        def is_input(x: ast.AST | None, at: Node, depth: int = 0) -> bool:
            """the stream stored under wsgi.input so far: the connection's read file, the environ entry, or a local holding one of them."""
            if x is None:
                return False
            if is_self_attr(x, "rfile"):
                return True
            if isinstance(x, ast.Subscript) and isinstance(x.value, ast.Name) and x.value.id == env and _const_str(x.slice) == "wsgi.input":
                return True
            if isinstance(x, ast.Name) and depth < 3:
                ds = rd.reaching(at, x.id)
                return bool(ds) and all(d.kind == "assign" and d.index is None and d.node is not None and is_input(d.value, d.node, depth + 1) for d in ds)
            return False

        wcalls = wrap_calls.get(id(wraps[0][0]), [])
        arg_ok = bool(wcalls)
        for wv in wcalls:
            arg = wv.args[0] if isinstance(wv, ast.Call) and len(wv.args) == 1 and not wv.keywords else None
            at_ = cfg.node_of(wv) or wn
            arg_ok = arg_ok and is_input(arg, at_)
        hdr_done = all(cfg.node_of(lp).id not in cfg.reach(wn) for lp in hloops)  # type: ignore[union-attr]
        ctx.ob("R19.4", "the de-chunker wraps the connection's read file, after the headers were copied", arg_ok and hdr_done, f"{[norm(w) for w in wcalls]}; header loop not after the wrap: {hdr_done}", me, wraps[0][0], "wrap argument")
    return dech


HOST_KEY = "HTTP_HOST"
# (scheme, netloc) of the request target; absolute-form = both present
HOST_URL_SAMPLES = [("http", "public.example:8080"), ("https", "tls.example"), ("", ""), ("", "seg.example"), ("http", "")]
DICT_MUTATORS = {"update", "setdefault", "pop", "popitem", "clear", "__setitem__", "__delitem__"}


def _host_authority_rule(ctx: Ctx, me: FuncInfo, cfg: CFG, env: str, lp: ast.For, role: t.Callable[[ast.AST, Node], str | None]) -> None:
    """R19.6.  The function is followed statement by statement from the entry to every `return`, once per sample request
    target (scheme / netloc empty and non-empty; the other components fixed), with the locals that can be evaluated
    (H.ev: constants, the components of urlsplit(self.path), boolean / conditional / f-string / comparison expressions,
    side-effect-free predicate helpers) and, for every local dict, what it holds under HTTP_HOST:
    absent / a value that was evaluated / `client` (whatever the header loop stored: the client's Host header, joined, or
    nothing) / `opaque` (written by something that is not followed).  A condition that can be evaluated takes its edge, any
    other both.  Absolute-form samples must return the netloc sample under HTTP_HOST on every path; the other samples
    must not return a value evaluated from the URL.  `client` / absent on an absolute-form path is a violation
    (setdefault after the header loop, `if "HTTP_HOST" not in environ`, a store before the loop); `opaque`, or a verdict
    that rests on a URL condition that could not be evaluated, is an analysis error."""
    UNK, UNK_URL = object(), object()
    CLIENT_HOST = "<the client's Host header>"
    ABSENT, CLIENT, OPAQUE = ("absent", None, ""), "client", "opaque"
    in_loop = {id(x) for x in ast.walk(lp)}
    handler = me.cls
    helpers: dict[str, ast.AST] = {nm: f.node for nm, f in me.module.functions.items()}
    if handler is not None:
        helpers.update({f"self.{nm}": m.node for nm, m in handler.methods.items()})
    static_helpers: dict[str, ast.AST] = {}
    if handler is not None:
        static_helpers = {nm: m.node for nm, m in handler.methods.items() if any(d.endswith("staticmethod") for d in m.decorators)}
        for nm in static_helpers:
            helpers.pop(f"self.{nm}", None)
    fn_locals = _local_names(me.node)
    # nested functions of make_environ: a call of one that mentions a local dict may change it through the closure
    closures = {f.name: {x.id for x in ast.walk(f) if isinstance(x, ast.Name)} for f in ast.walk(me.node) if isinstance(f, (ast.FunctionDef, ast.AsyncFunctionDef)) and f is not me.node}
    for st_ in ast.walk(me.node):
        if isinstance(st_, ast.Assign) and isinstance(st_.value, ast.Lambda):
            for tg_ in st_.targets:
                if isinstance(tg_, ast.Name):
                    closures[tg_.id] = {x.id for x in ast.walk(st_.value) if isinstance(x, ast.Name)}

    def module_const(name: str) -> tuple[bool, t.Any]:
        if name in fn_locals:
            return False, None
        vs = me.module.assigns.get(name) or []
        if len(vs) == 1 and isinstance(vs[0], ast.Constant):
            return True, vs[0].value
        return False, None

    class State:
        __slots__ = ("vals", "hs", "fuzzy")

        def __init__(self, vals: dict[str, t.Any], hs: dict[str, tuple], fuzzy: str):
            self.vals, self.hs, self.fuzzy = vals, hs, fuzzy

        def key(self) -> tuple:
            return (tuple(sorted(self.vals.items(), key=lambda kv: kv[0])), tuple(sorted(self.hs.items())), self.fuzzy)

        def copy(self) -> "State":
            return State(dict(self.vals), dict(self.hs), self.fuzzy)

    def run_sample(sch: str, net: str) -> list[tuple[tuple, str]]:
        comp = {"scheme": sch, "netloc": net, "path": "/a%20b/c", "query": "x=1%2B2", "fragment": "frag"}

        def mk_bind(st: State, at: Node, client: str | None = None) -> H.Binder:
            """client: how a read of an entry that holds `what the header loop left` is answered - None: not at all
            (Unknown); "absent": the client sent no Host header; "present": it sent one (a marker string)."""
            def client_read(h: tuple, dflt: t.Callable[[], t.Any] | None) -> tuple[bool, t.Any]:
                if h[0] == CLIENT and client == "present":
                    return True, CLIENT_HOST
                if h[0] == CLIENT and client == "absent" and dflt is not None:
                    return True, dflt()
                return False, None

            def bind(x: ast.AST) -> tuple[bool, t.Any]:
                if isinstance(x, ast.Name):
                    if x.id in st.vals:
                        v = st.vals[x.id]
                        if v is UNK or v is UNK_URL:
                            raise H.Unknown(x.id)
                        return True, v
                    if x.id in st.hs:
                        raise H.Unknown(x.id)
                if isinstance(x, ast.NamedExpr):  # the binding itself is made by the node that holds it (see step)
                    return True, H.ev(x.value, bind)
                if isinstance(x, (ast.Name, ast.Attribute, ast.Subscript)):
                    r_ = role(x, at)
                    if r_ is not None:
                        return True, comp[r_]
                if isinstance(x, ast.Name):
                    hit, v = module_const(x.id)
                    if hit:
                        return True, v
                if isinstance(x, ast.Call):
                    if isinstance(x.func, ast.Attribute) and x.func.attr == "get" and isinstance(x.func.value, ast.Name) and x.func.value.id in st.hs and 1 <= len(x.args) <= 2 and not x.keywords:
                        if key_of(x.args[0], st, at) == HOST_KEY:
                            h = st.hs[x.func.value.id]
                            if h[0] == "val":
                                return True, h[1]
                            if h[0] == "absent":
                                return True, (H.ev(x.args[1], bind) if len(x.args) == 2 else None)
                            hit_, v_ = client_read(h, lambda: H.ev(x.args[1], bind) if len(x.args) == 2 else None)
                            if hit_:
                                return True, v_
                        raise H.Unknown(norm(x))
                    inl = _inline_predicate(x, helpers)
                    if inl is None and isinstance(x.func, ast.Attribute) and (is_self_attr(x.func) or (handler is not None and isinstance(x.func.value, ast.Name) and x.func.value.id == handler.name)) and x.func.attr in static_helpers:
                        # a @staticmethod of the handler: no `self` parameter to drop
                        inl = _inline_predicate(ast.Call(func=ast.Name(id=f"<static>{x.func.attr}", ctx=ast.Load()), args=x.args, keywords=x.keywords), {f"<static>{x.func.attr}": static_helpers[x.func.attr]})
                    if inl is not None:
                        return True, H.ev(inl, bind)
                    if dotted(x.func) in ("all", "any") and len(x.args) == 1 and not x.keywords and isinstance(x.args[0], (ast.Tuple, ast.List)):
                        vs_ = [bool(H.ev(e, bind)) for e in x.args[0].elts]
                        return True, (all(vs_) if dotted(x.func) == "all" else any(vs_))
                if isinstance(x, ast.Subscript) and isinstance(x.value, ast.Name) and x.value.id in st.hs:
                    if key_of(x.slice, st, at) == HOST_KEY:
                        if st.hs[x.value.id][0] == "val":
                            return True, st.hs[x.value.id][1]
                        hit_, v_ = client_read(st.hs[x.value.id], None)
                        if hit_:
                            return True, v_
                    raise H.Unknown(norm(x))
                if isinstance(x, ast.Compare) and len(x.ops) == 1 and isinstance(x.ops[0], (ast.In, ast.NotIn)):
                    c0 = x.comparators[0]
                    if isinstance(c0, ast.Call) and isinstance(c0.func, ast.Attribute) and c0.func.attr == "keys" and not c0.args:
                        c0 = c0.func.value
                    if isinstance(c0, ast.Name) and c0.id in st.hs:
                        if key_of(x.left, st, at) == HOST_KEY:
                            h = st.hs[c0.id]
                            if h[0] == "val":
                                return True, isinstance(x.ops[0], ast.In)
                            if h[0] == "absent":
                                return True, isinstance(x.ops[0], ast.NotIn)
                            if h[0] == CLIENT and client is not None:
                                return True, isinstance(x.ops[0], ast.In) == (client == "present")
                        raise H.Unknown(norm(x))
                return False, None

            return bind

        def key_of(k: ast.AST, st: State, at: Node) -> t.Any:
            """the constant a key expression evaluates to, or UNK."""
            try:
                return H.ev(k, mk_bind(st, at))
            except H.Unknown:
                return UNK

        def url_derived(a: ast.AST, st: State, at: Node) -> bool:
            for x in ast.walk(a):
                if is_self_attr(x, "path"):
                    return True
                if isinstance(x, ast.Name) and x.id in st.vals and st.vals[x.id] is not UNK:
                    return True
                if isinstance(x, (ast.Name, ast.Attribute, ast.Subscript)) and role(x, at) is not None:
                    return True
            return False

        def from_headers(a: ast.AST, site: ast.AST) -> bool:
            return id(site) in in_loop or any(is_self_attr(x, "headers") for x in ast.walk(a))

        def where(at: Node) -> str:
            return f"L{at.lineno} `{norm(at.ast)[:60]}`" if at.ast is not None else "?"

        def merge(a: tuple, b: tuple, at: Node) -> tuple:
            """dict a updated with dict b (b wins)."""
            if b[0] == "absent":
                return a
            if b[0] in ("val", OPAQUE):
                return b
            return (CLIENT, None, b[2])  # b may hold the client's header: it wins over whatever a holds

        def stored(st: State, v: ast.AST | None, at: Node, site: ast.AST) -> tuple:
            if v is None:
                return (OPAQUE, None, where(at))
            try:
                val = H.ev(v, mk_bind(st, at))
                return ("val", val, where(at))
            except H.Unknown:
                pass
            except Exception:
                return (OPAQUE, None, where(at))
            if from_headers(v, site):
                return (CLIENT, None, where(at))
            # the value may read the entry the header loop left (`environ.get("HTTP_HOST") or netloc`): evaluated for a
            # client that sent a Host header and for one that sent none; a value that depends on it is the client's
            try:
                got = [H.ev(v, mk_bind(st, at, client=c_)) for c_ in ("present", "absent")]
            except Exception:
                return (OPAQUE, None, where(at))
            if got[0] == got[1]:
                return ("val", got[0], where(at))
            return (CLIENT, None, where(at))

        def put(st: State, d: str, k: ast.AST, v: ast.AST | None, at: Node, site: ast.AST) -> None:
            kk = key_of(k, st, at)
            if kk == HOST_KEY:
                st.hs[d] = stored(st, v, at, site)
            elif kk is UNK or not isinstance(kk, str):
                st.hs[d] = ((CLIENT if from_headers(k, site) else OPAQUE), None, where(at))

        def dstate(e: ast.AST | None, st: State, at: Node) -> tuple | None:
            """what a dict-valued expression holds under HTTP_HOST; None when it is not recognised as a dict."""
            if e is None:
                return None
            if isinstance(e, ast.Name):
                return st.hs.get(e.id)
            if isinstance(e, ast.Dict):
                cur: tuple = ABSENT
                tmp = State(st.vals, {**st.hs, "<lit>": ABSENT}, st.fuzzy)
                for k, v in zip(e.keys, e.values):
                    if k is None:
                        d_ = dstate(v, st, at)
                        tmp.hs["<lit>"] = merge(tmp.hs["<lit>"], d_ if d_ is not None else ((CLIENT if from_headers(v, e) else OPAQUE), None, where(at)), at)
                    else:
                        put(tmp, "<lit>", k, v, at, e)
                cur = tmp.hs["<lit>"]
                return cur
            if isinstance(e, ast.DictComp):
                return ((CLIENT if from_headers(e, e) else OPAQUE), None, where(at))
            if isinstance(e, ast.BinOp) and isinstance(e.op, ast.BitOr):
                a, b = dstate(e.left, st, at), dstate(e.right, st, at)
                if a is not None and b is not None:
                    return merge(a, b, at)
                return None
            if isinstance(e, ast.Call):
                if isinstance(e.func, ast.Attribute) and e.func.attr == "copy" and not e.args and not e.keywords:
                    return dstate(e.func.value, st, at)
                if dotted(e.func) == "dict" and len(e.args) <= 1:
                    cur = ABSENT
                    if e.args:
                        a = dstate(e.args[0], st, at)
                        if a is None:
                            a = ((CLIENT if from_headers(e.args[0], e) else OPAQUE), None, where(at))
                        cur = a
                    for kw in e.keywords:
                        if kw.arg is None:
                            b = dstate(kw.value, st, at)
                            cur = merge(cur, b if b is not None else (OPAQUE, None, where(at)), at)
                        elif kw.arg == HOST_KEY:
                            cur = stored(st, kw.value, at, e)
                    return cur
            return None

        def method_effect(c: ast.Call, st: State, at: Node) -> None:
            d = c.func.value.id  # type: ignore[attr-defined]
            m = c.func.attr  # type: ignore[attr-defined]
            if m in READONLY_DICT_METHODS:
                return
            if m == "update":
                for a in c.args:
                    b = dstate(a, st, at)
                    st.hs[d] = merge(st.hs[d], b if b is not None else ((CLIENT if from_headers(a, c) else OPAQUE), None, where(at)), at)
                for kw in c.keywords:
                    if kw.arg is None:
                        b = dstate(kw.value, st, at)
                        st.hs[d] = merge(st.hs[d], b if b is not None else (OPAQUE, None, where(at)), at)
                    elif kw.arg == HOST_KEY:
                        st.hs[d] = stored(st, kw.value, at, c)
            elif m == "setdefault" and 1 <= len(c.args) <= 2 and not c.keywords:
                kk = key_of(c.args[0], st, at)
                h = st.hs[d]
                if kk == HOST_KEY:
                    if h[0] == "absent":
                        st.hs[d] = stored(st, c.args[1] if len(c.args) == 2 else ast.Constant(value=None), at, c)
                    # present: no effect; `client` (present or not): the client's value stays when there is one
                elif kk is UNK or not isinstance(kk, str):
                    st.hs[d] = ((CLIENT if from_headers(c.args[0], c) else OPAQUE), None, where(at)) if h[0] != CLIENT else h
            elif m == "pop" and 1 <= len(c.args) <= 2 and not c.keywords:
                kk = key_of(c.args[0], st, at)
                if kk == HOST_KEY:
                    st.hs[d] = ("absent", None, where(at))
                elif kk is UNK or not isinstance(kk, str):
                    st.hs[d] = (OPAQUE, None, where(at))
            elif m == "clear" and not c.args:
                st.hs[d] = ("absent", None, where(at))
            else:
                st.hs[d] = (OPAQUE, None, where(at))

        def call_effects(a: ast.AST, st: State, at: Node) -> None:
            """calls inside a statement / condition: a dict method changes the dict; a dict handed to anything else is
            no longer followed."""
            for c in ast.walk(a):
                if not isinstance(c, ast.Call):
                    continue
                if isinstance(c.func, ast.Attribute) and isinstance(c.func.value, ast.Name) and c.func.value.id in st.hs:
                    method_effect(c, st, at)
                    continue
                if dotted(c.func) in ("dict", "len", "bool", "sorted", "list", "tuple", "set", "frozenset", "isinstance", "id", "repr", "str"):
                    continue
                if isinstance(c.func, ast.Name) and c.func.id in closures:
                    for d_ in closures[c.func.id] & set(st.hs):
                        st.hs[d_] = (OPAQUE, None, where(at))
                for x in list(c.args) + [kw.value for kw in c.keywords if kw.arg is not None]:
                    if isinstance(x, ast.Name) and x.id in st.hs:
                        st.hs[x.id] = (OPAQUE, None, where(at))

        def assign_name(st: State, name: str, v: ast.AST | None, at: Node) -> None:
            d_ = dstate(v, st, at) if v is not None and not isinstance(v, ast.Name) else None
            if isinstance(v, ast.Name) and v.id in st.hs:  # a second name for the same dict: not followed
                st.hs[v.id] = (OPAQUE, None, where(at))
                d_ = st.hs[v.id]
            if d_ is not None:
                st.hs[name] = d_
                st.vals.pop(name, None)
                return
            if name in st.hs:
                st.hs[name] = (OPAQUE, None, where(at))
                return
            if v is None:
                st.vals[name] = UNK
                return
            try:
                st.vals[name] = H.ev(v, mk_bind(st, at))
                hash(st.vals[name])
            except H.Unknown:
                st.vals[name] = UNK_URL if url_derived(v, st, at) else UNK
            except Exception:
                st.vals[name] = UNK

        def kill_names(tg: ast.AST, st: State, at: Node) -> None:
            """names bound by unpacking / a loop / a with: their value is not followed (names unpacked from the split
            result are recognised by role())."""
            for x in ast.walk(tg):
                if isinstance(x, ast.Name) and isinstance(x.ctx, ast.Store):
                    if x.id in st.hs:
                        st.hs[x.id] = (OPAQUE, None, where(at))
                    st.vals.pop(x.id, None)

        def target_store(st: State, tg: ast.AST, v: ast.AST | None, at: Node, site: ast.AST) -> None:
            if isinstance(tg, ast.Name):
                assign_name(st, tg.id, v, at)
            elif isinstance(tg, ast.Subscript) and isinstance(tg.value, ast.Name) and tg.value.id in st.hs:
                put(st, tg.value.id, tg.slice, v, at, site)
            elif isinstance(tg, (ast.Tuple, ast.List)):
                if isinstance(v, (ast.Tuple, ast.List)) and len(v.elts) == len(tg.elts) and not any(isinstance(x, ast.Starred) for x in list(v.elts) + list(tg.elts)):
                    pre = st.copy()  # the right-hand sides are evaluated first
                    for e_, v_ in zip(tg.elts, v.elts):
                        if isinstance(e_, ast.Name):
                            tmp = pre.copy()
                            assign_name(tmp, e_.id, v_, at)
                            if e_.id in tmp.hs:
                                st.hs[e_.id] = tmp.hs[e_.id]
                                st.vals.pop(e_.id, None)
                            else:
                                st.vals[e_.id] = tmp.vals[e_.id]
                        else:
                            target_store(st, e_, v_, at, site)
                else:
                    for e_ in tg.elts:
                        if isinstance(e_, ast.Subscript) and isinstance(e_.value, ast.Name) and e_.value.id in st.hs:
                            put(st, e_.value.id, e_.slice, None, at, site)
                    kill_names(tg, st, at)

        def step(n: Node, st: State) -> list[tuple[Node, State]]:
            """the states after node n, per successor."""
            a = n.ast
            out: list[tuple[Node, State]] = []
            if n.kind == "test" and a is not None:
                st = st.copy()
                decided: bool | None = None
                try:
                    decided = bool(H.ev(a, mk_bind(st, n)))
                except H.Unknown:
                    if url_derived(a, st, n) and not st.fuzzy:
                        st.fuzzy = f"L{n.lineno} `{norm(a)[:60]}`"
                except Exception:
                    pass
                call_effects(a, st, n)
                for x in ast.walk(a):
                    if isinstance(x, ast.NamedExpr) and isinstance(x.target, ast.Name):
                        assign_name(st, x.target.id, x.value, n)
                for s, l in n.succs:
                    if decided is not None and l in ("T", "F") and (l == "T") != decided:
                        continue
                    out.append((s, st))
                return out
            st = st.copy()
            if n.kind == "loop" and isinstance(a, (ast.For, ast.AsyncFor)):
                call_effects(a.iter, st, n)
                st_t = st.copy()
                kill_names(a.target, st_t, n)
                for x in ast.walk(a.target):
                    if isinstance(x, ast.Name):
                        st_t.vals[x.id] = UNK
                return [(s, st_t if l == "T" else st) for s, l in n.succs]
            if n.kind == "with" and isinstance(a, (ast.With, ast.AsyncWith)):
                for it in a.items:
                    call_effects(it.context_expr, st, n)
                    if it.optional_vars is not None:
                        kill_names(it.optional_vars, st, n)
                        for x in ast.walk(it.optional_vars):
                            if isinstance(x, ast.Name):
                                st.vals[x.id] = UNK
            elif n.kind == "handler" and isinstance(a, ast.ExceptHandler):
                if a.name:
                    st.vals[a.name] = UNK
            elif n.kind == "stmt" and a is not None:
                if isinstance(a, (ast.FunctionDef, ast.AsyncFunctionDef, ast.ClassDef)):
                    pass
                elif isinstance(a, (ast.Assign, ast.AnnAssign)):
                    if a.value is not None:
                        if dstate(a.value, st, n) is None or not isinstance(a.value, ast.Call):
                            call_effects(a.value, st, n)
                        for tg in a.targets if isinstance(a, ast.Assign) else [a.target]:
                            target_store(st, tg, a.value, n, a)
                elif isinstance(a, ast.AugAssign):
                    call_effects(a.value, st, n)
                    if isinstance(a.target, ast.Name) and a.target.id in st.hs:
                        if isinstance(a.op, ast.BitOr):
                            b = dstate(a.value, st, n)
                            st.hs[a.target.id] = merge(st.hs[a.target.id], b if b is not None else ((CLIENT if from_headers(a.value, a) else OPAQUE), None, where(n)), n)
                        else:
                            st.hs[a.target.id] = (OPAQUE, None, where(n))
                    elif isinstance(a.target, ast.Name):
                        assign_name(st, a.target.id, ast.BinOp(left=ast.Name(id=a.target.id, ctx=ast.Load()), op=a.op, right=a.value), n)
                    elif isinstance(a.target, ast.Subscript) and isinstance(a.target.value, ast.Name) and a.target.value.id in st.hs:
                        put(st, a.target.value.id, a.target.slice, None, n, a)
                elif isinstance(a, ast.Delete):
                    for tg in a.targets:
                        if isinstance(tg, ast.Subscript) and isinstance(tg.value, ast.Name) and tg.value.id in st.hs:
                            kk = key_of(tg.slice, st, n)
                            if kk == HOST_KEY:
                                st.hs[tg.value.id] = ("absent", None, where(n))
                            elif kk is UNK or not isinstance(kk, str):
                                st.hs[tg.value.id] = (OPAQUE, None, where(n))
                        else:
                            kill_names(tg, st, n)
                else:
                    call_effects(a, st, n)
            return [(s, st) for s, l in n.succs]

        finals: list[tuple[tuple, str]] = []
        seen: set[tuple] = set()
        work: list[tuple[Node, State]] = [(cfg.entry, State({}, {}, ""))]
        while work:
            n, st = work.pop()
            if n is cfg.exit:
                finals.append((st.hs.get(env, (OPAQUE, None, "the returned dict is not followed")), st.fuzzy))
                continue
            if n is cfg.raise_exit:
                continue
            k = (n.id, st.key())
            if k in seen:
                continue
            seen.add(k)
            if len(seen) > 60000:
                raise AnalysisError("make_environ: too many states while following HTTP_HOST")
            work.extend(step(n, st))
        return finals

    def show(h: tuple) -> str:
        if h[0] == "val":
            return f"{h[1]!r} (stored at {h[2]})"
        if h[0] == "absent":
            return "nothing" + (f" (removed at {h[2]})" if h[2] else " (no store)")
        if h[0] == CLIENT:
            return f"what the header loop left - the client's Host header, if any (last write that can change it: {h[2]})"
        return f"not followed ({h[2]})"

    n_finals = 0
    bad_abs: list[str] = []
    bad_other: list[str] = []
    undecided: list[str] = []
    n_net_abs = 0
    for sch, net in HOST_URL_SAMPLES:
        finals = run_sample(sch, net)
        if not finals:
            raise AnalysisError(f"make_environ: no path to the return for scheme {sch!r}, netloc {net!r}")
        n_finals += len(finals)
        absolute = bool(sch and net)
        for h, fuzzy in sorted(set(finals), key=repr):
            what = f"scheme {sch!r}, netloc {net!r}: HTTP_HOST on return is {show(h)}"
            if absolute:
                if h[0] == "val" and h[1] == net:
                    n_net_abs += 1
                elif h[0] == OPAQUE or fuzzy:
                    undecided.append(what + (f"; rests on the condition {fuzzy}, which could not be evaluated" if fuzzy else ""))
                else:
                    bad_abs.append(what + ", expected the netloc")
            else:
                url_vals = {v for v in (sch, net, "/a%20b/c", "x=1%2B2", "frag") if v}
                if h[0] == "val" and isinstance(h[1], str) and any(u in h[1] for u in url_vals):
                    if fuzzy:
                        undecided.append(what + f"; rests on the condition {fuzzy}, which could not be evaluated")
                    else:
                        bad_other.append(what + ", expected the client's Host header untouched")
    host_in_loop = [x.value for x in ast.walk(lp) if isinstance(x, ast.Constant) and isinstance(x.value, str) and x.value.upper().replace("-", "_") in ("HOST", HOST_KEY)]
    if bad_abs and host_in_loop:
        # the header loop itself treats the Host header apart (skips it for an absolute-form target, say): which header
        # name a loop store writes is not followed here
        raise AnalysisError(f"make_environ: the header loop names the Host header ({host_in_loop[0]!r}); what it leaves under HTTP_HOST is not followed")
    if undecided and not bad_abs and not bad_other:
        raise AnalysisError("make_environ: what HTTP_HOST holds on return cannot be followed: " + "; ".join(undecided[:3]))
    ctx.floor("R19.6", "sample request targets followed to the return of make_environ", n_finals, len(HOST_URL_SAMPLES))
    ctx.ob("R19.6", "absolute-form request target: HTTP_HOST on return is the authority of the target on every path (the client's Host header does not win)", not bad_abs,
           "; ".join(bad_abs) or f"netloc returned under HTTP_HOST on all {n_net_abs} distinct final states of the absolute-form samples", me, lp, "absolute-form authority is HTTP_HOST")
    ctx.ob("R19.6", "any other request target: no component of the URL is stored over the client's Host header", not bad_other,
           "; ".join(bad_other) or "no URL-derived value under HTTP_HOST on return for targets without scheme or without authority", me, lp, "origin-form keeps Host header")


GENERIC_NAMES = ["Accept", "X-Forwarded-For", "accept-encoding", "Host", "Content-Type", "content-length", "CONTENT-TYPE", "Content-Length", "X_Under", "content_length", "Content_Type", "_", "x-a_b"]
UNPREFIXED = ("CONTENT_TYPE", "CONTENT_LENGTH")


READONLY_DICT_METHODS = {"get", "keys", "items", "values", "copy", "__contains__", "__getitem__"}


def _header_dict_merge(ctx: Ctx, me: FuncInfo, cfg: CFG, lp: ast.For, env: str, hd: str, dstmt: ast.AST, dlit: ast.Dict, env_stores: list) -> Node:
    """the header loop fills the local dict ``hd`` instead of the environ.  That is the same as filling the environ
    when ``hd`` starts empty, is changed by the loop only, and is merged into the environ exactly once after the loop on
    every path to the normal exit (`environ.update(hd)`, `environ |= hd`, `environ = {**environ, **hd}`,
    `environ = environ | hd`, `environ = dict(environ, **hd)`, or `**hd` spliced into the literal) - with the header
    entries winning, or with no earlier environ entry in the header key space (HTTP_* / CONTENT_TYPE / CONTENT_LENGTH).
    Returns the CFG node of the merge."""
    head = cfg.node_of(lp)
    assert head is not None
    inner = {id(x) for x in ast.walk(lp)}

    def empty_dict(v: ast.AST | None) -> bool:
        return (isinstance(v, ast.Dict) and not v.keys) or (isinstance(v, ast.Call) and dotted(v.func) in ("dict", "collections.OrderedDict", "OrderedDict") and not v.args and not v.keywords)

    binds = astq.assigns_to(me.node, hd)
    if len(binds) != 1 or not empty_dict(binds[0][1]) or id(binds[0][0]) in inner:
        raise AnalysisError(f"make_environ: the header loop stores into `{hd}`, which is not a local bound once, before the loop, to an empty dict")
    bnode = cfg.node_of(binds[0][0])
    if bnode is None or not cfg.node_dominates(bnode, head):
        raise AnalysisError(f"make_environ: `{norm(binds[0][0])}` does not dominate the header loop")

    def nm(x: ast.AST | None, name: str) -> bool:
        return isinstance(x, ast.Name) and x.id == name

    def merge_kind(st: ast.AST) -> tuple[str, list[str]] | None:
        """('headers' | 'environ', constant environ keys written after the header entries) - who wins on a common key."""
        if isinstance(st, ast.Expr) and isinstance(st.value, ast.Call):
            c = st.value
            if isinstance(c.func, ast.Attribute) and c.func.attr == "update" and nm(c.func.value, env):
                if (len(c.args) == 1 and not c.keywords and nm(c.args[0], hd)) or (not c.args and len(c.keywords) == 1 and c.keywords[0].arg is None and nm(c.keywords[0].value, hd)):
                    return "headers", []
            return None
        if isinstance(st, ast.AugAssign) and isinstance(st.op, ast.BitOr) and nm(st.target, env) and nm(st.value, hd):
            return "headers", []
        if isinstance(st, (ast.Assign, ast.AnnAssign)) and st.value is not None:
            tgs = st.targets if isinstance(st, ast.Assign) else [st.target]
            if len(tgs) != 1 or not nm(tgs[0], env):
                return None
            v = st.value
            if st is dstmt:
                pos = [i for i, (k, x) in enumerate(zip(dlit.keys, dlit.values)) if k is None and nm(x, hd)]
                if len(pos) != 1:
                    return None
                late = [k for k in dlit.keys[pos[0] + 1 :]]
                if any(k is None or _const_str(k) is None for k in late):
                    raise AnalysisError("make_environ: an entry written after the spliced header dict has no constant key")
                return ("environ" if late else "headers"), [_const_str(k) or "" for k in late]
            if isinstance(v, ast.Dict) and len(v.keys) == 2 and all(k is None for k in v.keys):
                if nm(v.values[0], env) and nm(v.values[1], hd):
                    return "headers", []
                if nm(v.values[0], hd) and nm(v.values[1], env):
                    return "environ", ["*"]
            if isinstance(v, ast.BinOp) and isinstance(v.op, ast.BitOr):
                if nm(v.left, env) and nm(v.right, hd):
                    return "headers", []
                if nm(v.left, hd) and nm(v.right, env):
                    return "environ", ["*"]
            if isinstance(v, ast.Call) and dotted(v.func) == "dict" and len(v.args) == 1 and nm(v.args[0], env) and len(v.keywords) == 1 and v.keywords[0].arg is None and nm(v.keywords[0].value, hd):
                return "headers", []
        return None

    merges = [(st, mk) for st in walk_no_nested(me.node) if id(st) not in inner and isinstance(st, ast.stmt) and (mk := merge_kind(st)) is not None]
    INST = "the headers collected in a separate dict reach the environ: merged once, after the header loop, on every path"
    outside = [n for n in ast.walk(me.node) if isinstance(n, ast.Name) and n.id == hd and isinstance(n.ctx, ast.Load) and id(n) not in inner]
    if not merges:
        if not outside:
            ctx.ob("R19.4", INST, False, f"`{hd}` is filled by the header loop and never used again", me, lp, "header dict merged into environ")
            return head
        raise AnalysisError(f"make_environ: the header loop fills `{hd}`; no recognised merge into `{env}` found (used by `{norm(astq.stmt_of(me, outside[0]) or outside[0])[:80]}`)")
    if len(merges) > 1:
        raise AnalysisError(f"make_environ: `{hd}` is merged into `{env}` {len(merges)} times (not modelled)")
    mst, (direction, late) = merges[0]
    in_merge = {id(x) for x in ast.walk(mst)}
    # every other use of the header dict outside the loop must be a read
    for n in outside:
        if id(n) in in_merge:
            continue
        par = astq.parent(n)
        read_only = (
            (isinstance(par, ast.Attribute) and par.attr in READONLY_DICT_METHODS and isinstance(astq.parent(par), ast.Call))
            or (isinstance(par, ast.Subscript) and par.value is n and isinstance(par.ctx, ast.Load))
            or (isinstance(par, ast.Compare) and any(c is n for c in par.comparators) and all(isinstance(o, (ast.In, ast.NotIn)) for o in par.ops))
        )
        if not read_only:
            raise AnalysisError(f"make_environ: the header dict `{hd}` is used by `{norm(astq.stmt_of(me, n) or n)[:80]}` outside the header loop (not modelled)")
    for st in ast.walk(me.node):
        if isinstance(st, ast.Delete) and any(nm(x, hd) for tg in st.targets for x in ast.walk(tg)):
            raise AnalysisError(f"make_environ: `{norm(st)}` (not modelled)")
        if id(st) not in inner and isinstance(st, (ast.Assign, ast.AugAssign, ast.AnnAssign)):
            tgs = st.targets if isinstance(st, ast.Assign) else [st.target]
            if any(isinstance(x, ast.Subscript) and nm(x.value, hd) for tg in tgs for x in ast.walk(tg)):
                raise AnalysisError(f"make_environ: the header dict is changed outside the header loop by `{norm(st)}` (not modelled)")
    M = cfg.node_of(mst)
    assert M is not None
    again: set[int] = set()
    for s_, _ in M.succs:
        again |= cfg.reach(s_)
    after = cfg.edge_dominates(head, "F", M) and M.id not in again and head.id not in cfg.reach(M)
    always = all(cfg.all_paths_pass(s_, [cfg.exit], [M]) for s_ in cfg.succ(head, "F"))
    ctx.ob("R19.4", INST, after and always, f"`{norm(mst)[:80]}`: after the header loop, executed once: {after}; on every path from the loop to the normal exit: {always}", me, mst, "header dict merged into environ")
    # who wins on a common key
    clash: list[str] = []
    if direction == "environ":
        early: list[str | None] = list(late) if late != ["*"] else [(_const_str(k) if k is not None else None) for k in dlit.keys]
        if late == ["*"]:
            for s, k, v in env_stores:
                n = cfg.node_of(s)
                if n is not None and M.id in cfg.reach(n):
                    early.append(_const_str(k))
        if any(k is None for k in early):
            raise AnalysisError("make_environ: the environ has entries without a constant key when the header dict is merged under it")
        clash = sorted({k for k in early if k is not None and (k.startswith("HTTP_") or k in UNPREFIXED)})
    ctx.ob("R19.4", "a received header is not shadowed by an entry the environ already holds when the header dict is merged", not clash,
           f"`{norm(mst)[:80]}`: on a common key the {'header dict' if direction == 'headers' else 'earlier environ entry'} wins; earlier entries in the header key space: {clash}", me, mst, "header dict merge order")
    return M


def _helper_of(c: ast.Call, me: FuncInfo) -> ast.AST | None:
    """the module-level function / handler method a call in make_environ refers to."""
    if isinstance(c.func, ast.Name):
        return next((n for n in me.module.tree.body if isinstance(n, ast.FunctionDef) and n.name == c.func.id), None)
    if isinstance(c.func, ast.Attribute) and is_self_attr(c.func) and me.cls is not None and c.func.attr in me.cls.methods:
        return me.cls.methods[c.func.attr].node
    return None


def _header_loop_rules(ctx: Ctx, me: FuncInfo, cfg: CFG, lp: ast.For, env: str, stores: list, untouched: str | None = None, untouched_keys: frozenset[str] | None = None) -> None:
    """one iteration of the header loop, evaluated on every path for sample header names (see _c19_helpers.hval): which
    environ key receives which value.  Decided per (name, `an earlier header of that name was stored` yes/no)."""
    kname, vname = lp.target.elts[0].id, lp.target.elts[1].id  # type: ignore[union-attr]
    inner = {id(x) for s in lp.body for x in ast.walk(s)}
    hstores = {id(s) for s, k, v in stores if id(s) in inner}
    ctx.floor("R19.4", "environ stores inside the header loop", len(hstores), 1)
    head = cfg.node_of(lp)
    assert head is not None
    # other ways of changing the environ inside the loop are not modelled
    for c in astq.calls(lp, nested=False):
        if isinstance(c.func, ast.Attribute) and isinstance(c.func.value, ast.Name) and c.func.value.id == env and c.func.attr not in ("get", "keys", "__contains__"):
            raise AnalysisError(f"make_environ: the environ is changed or read by `{norm(c)}` inside the header loop (not modelled)")
        if untouched is not None and isinstance(c.func, ast.Attribute) and isinstance(c.func.value, ast.Name) and c.func.value.id == untouched and c.func.attr not in READONLY_DICT_METHODS:
            raise AnalysisError(f"make_environ: `{norm(c)}` inside the header loop, which fills `{env}` (not modelled)")
    for s in ast.walk(lp):
        if isinstance(s, (ast.AugAssign, ast.Delete)) and any(isinstance(x, ast.Name) and x.id in (env, untouched) for x in ast.walk(s.target if isinstance(s, ast.AugAssign) else ast.Tuple(elts=s.targets))):
            raise AnalysisError(f"make_environ: `{norm(s)}` inside the header loop (not modelled)")
    # sample names: generic ones plus every name a string constant of the loop could be compared with
    samples = list(GENERIC_NAMES)
    called = [fn for c in astq.calls(lp, nested=False) for fn in [_helper_of(c, me)] if fn is not None]
    for x in [y for root in [lp] + called for y in ast.walk(root)]:
        if isinstance(x, ast.Constant) and isinstance(x.value, str) and len(x.value) > 1 and x.value.strip("_-, \r\n"):
            cst = x.value
            for v in (cst, cst.replace("_", "-"), cst.removeprefix("HTTP_"), cst.removeprefix("HTTP_").replace("_", "-")):
                for w in (v, v.lower(), v.upper(), v.title()):
                    if w and w not in samples:
                        samples.append(w)
    it_paths = H.loop_iteration_paths(cfg, head)
    # pure helpers the loop may call (name canonicalisation moved into a function): module-level functions and methods of the handler
    helpers: dict[str, ast.AST] = {n.name: n for n in me.module.tree.body if isinstance(n, ast.FunctionDef)}
    if me.cls is not None:
        helpers.update({f"self.{nm}": fi.node for nm, fi in me.cls.methods.items() if isinstance(fi.node, ast.FunctionDef)})
    # constants the loop refers to: locals bound once, outside the loop, to a constant expression; module-level constants
    consts: dict[str, t.Any] = {}
    fold_m = _folder_of(ctx, me)
    assigned_in_loop = {x.id for x in ast.walk(lp) if isinstance(x, ast.Name) and isinstance(x.ctx, ast.Store)}
    for nm_ in sorted({x.id for x in ast.walk(lp) if isinstance(x, ast.Name) and isinstance(x.ctx, ast.Load)} - assigned_in_loop - {env, "self"}):
        binds_ = astq.assigns_to(me.node, nm_)
        try:
            if len(binds_) == 1 and binds_[0][1] is not None:
                v_ = H.ev(binds_[0][1], lambda x: (False, None))
            elif not binds_ and nm_ not in me.params:
                v_ = fold_m(ast.Name(id=nm_, ctx=ast.Load()))
                v_ = tuple(v_) if isinstance(v_, list) else frozenset(v_) if isinstance(v_, (set, frozenset)) else v_
            else:
                continue
        except Exception:
            continue
        if isinstance(v_, (str, tuple, frozenset)):
            consts[nm_] = v_
    res = {k: {"ok": True, "fact": "", "n": 0} for k in ("skip", "store", "canon", "prefix", "join")}
    not_followed: list[str] = []
    undecided: dict[int, str] = {}
    loop_names = {x.id for x in ast.walk(lp) if isinstance(x, ast.Name) and isinstance(x.ctx, ast.Store)}

    def fail(k: str, fact: str) -> None:
        if res[k]["ok"]:
            res[k]["ok"] = False
            res[k]["fact"] = fact

    def show(v: t.Any) -> str:
        return repr(v) if isinstance(v, str) else "+".join({"V": "<value>", "ENV": "<earlier value of %s>" % (tk[1:] or ("",))[0], "B": repr((tk[1:] or ("",))[0]), "?": "?" + str((tk[1:] or ("",))[0])}[tk[0]] for tk in v) or "''"

    for raw in samples:
        canon = raw.upper().replace("-", "_")
        special = canon in UNPREFIXED
        exp_key = canon if special else "HTTP_" + canon
        for present in ((), (exp_key,)):
            n_feasible = 0
            for p in it_paths:
                if p[-1][0] is cfg.raise_exit:
                    continue
                vals: dict[str, t.Any] = {**consts, kname: raw, vname: [H.HV], "__helpers__": helpers, "__present__": present}
                if untouched is not None and untouched_keys is not None:
                    vals["__other_dicts__"] = {untouched: untouched_keys}
                cond = lambda x, vals=vals, present=present: H.hcond(x, vals, env, present)  # noqa: E731
                done: list[tuple[t.Any, t.Any]] = []
                feasible = True
                for node, label in p[1:-1]:
                    a = node.ast
                    if a is None:
                        continue
                    if node.kind == "test":
                        if label in ("T", "F"):
                            c = cond(a)
                            if c is not None and c != (label == "T"):
                                feasible = False
                                break
                            if c is None and id(a) not in undecided:
                                # followed on both edges.  Deliberately so for the truthiness of an earlier value of the
                                # key; a test of the header's own name / value that cannot be decided is not understood
                                core = a
                                while isinstance(core, ast.UnaryOp) and isinstance(core.op, ast.Not):
                                    core = core.operand
                                v_ = H.hval(core, vals, env, cond) if isinstance(core, (ast.Name, ast.Call, ast.Subscript)) else None
                                earlier = isinstance(v_, list) and len(v_) == 1 and v_[0][0] == "ENV"
                                if not earlier and {x.id for x in ast.walk(a) if isinstance(x, ast.Name)} & loop_names:
                                    undecided[id(a)] = f"`{norm(a)}` for the header name {raw!r}"
                        continue
                    if node.kind != "stmt" or id(a) not in inner:
                        continue
                    if isinstance(a, (ast.Assign, ast.AnnAssign)) and a.value is not None:
                        tgs = a.targets if isinstance(a, ast.Assign) else [a.target]
                        val = H.hval(a.value, vals, env, cond)
                        for tg in tgs:
                            if isinstance(tg, ast.Name):
                                vals[tg.id] = val
                            elif isinstance(tg, (ast.Tuple, ast.List)):
                                if isinstance(a.value, (ast.Tuple, ast.List)) and len(a.value.elts) == len(tg.elts) and all(isinstance(e, ast.Name) for e in tg.elts):
                                    new = [H.hval(e, vals, env, cond) for e in a.value.elts]
                                    for e, nv in zip(tg.elts, new):
                                        vals[e.id] = nv  # type: ignore[attr-defined]
                                else:
                                    for e in ast.walk(tg):
                                        if isinstance(e, ast.Name):
                                            vals[e.id] = [("?", norm(a))]
                            elif isinstance(tg, ast.Subscript) and isinstance(tg.value, ast.Name) and tg.value.id == env:
                                done.append((H.hval(tg.slice, vals, env, cond), val))
                    elif isinstance(a, ast.AugAssign) and isinstance(a.target, ast.Name):
                        cur = vals.get(a.target.id, [("?", a.target.id)])
                        vals[a.target.id] = H._htoks([cur, H.hval(a.value, vals, env, cond)]) if isinstance(a.op, ast.Add) else [("?", norm(a))]
                if not feasible:
                    continue
                n_feasible += 1
                where = f"header name {raw!r}" + (", repeated" if present else "") + f": {H.fmt_path([x for x in p if x[0].kind == 'test'])}"
                if p[-1][0] is not head:
                    fail("store", f"the loop is left before the remaining headers are copied; {where}")
                    continue
                if "_" in raw:
                    res["skip"]["n"] += 1
                    if done:
                        fail("skip", f"stored as {[show(k) for k, _ in done]}; {where}")
                    continue
                # an expression outside the evaluated subset: a transformation of the header's own name / value that is not
                # followed counts as "not stored as received" (below); anything else (a lookup elsewhere, a call) is undecided
                unk = [x for kv in done for x in kv if isinstance(x, list) and any(tk[0] == "?" and not (set(re.findall(r"[A-Za-z_][A-Za-z_0-9]*", str(tk[1]))) & loop_names) for tk in x)]
                if unk:
                    not_followed.append(f"{show(unk[0])}; {where}")
                    continue
                res["store"]["n"] += 1
                if len(done) != 1:
                    fail("store", f"{len(done)} environ stores {[show(k) for k, _ in done]} (expected one); {where}")
                    continue
                key, val = done[0]
                if key != exp_key:
                    strip = lambda k: k.removeprefix("HTTP_") if isinstance(k, str) else k  # noqa: E731
                    if strip(key) == strip(exp_key):
                        fail("prefix", f"stored under {show(key)}, expected {exp_key!r}; {where}")
                    else:
                        fail("canon", f"stored under {show(key)}, expected {exp_key!r}; {where}")
                    continue
                res["canon"]["n"] += 1
                res["prefix"]["n"] += 1
                joined = [("ENV", exp_key), ("B", ","), H.HV]
                good = [[H.HV]] if not present else ([joined] if not special else [[H.HV], joined])
                res["join"]["n"] += 1
                if val not in good:
                    fail("join", f"value stored under {exp_key!r} is {show(val)}, expected {' or '.join(show(g) for g in good)}; {where}")
            if not n_feasible:
                raise AnalysisError(f"make_environ: no feasible path through the header loop for the name {raw!r}")
    text = {
        "skip": ("header names containing '_' are skipped (tested on the name as received)", "underscore names skipped"),
        "store": ("every other header is stored, exactly once (no further filter)", "header store unfiltered"),
        "canon": ("the name is upper-cased with '-' -> '_' before it is stored", "header name canonical form"),
        "prefix": ("CONTENT_TYPE and CONTENT_LENGTH stay unprefixed, every other name gets HTTP_", "HTTP_ prefix rule"),
        "join": ("a first header is stored as received, a repeated header is joined as `<earlier>,<later>`", "repeated header join"),
    }
    if undecided:
        raise AnalysisError(f"make_environ: header loop: cannot decide the condition {next(iter(undecided.values()))}")
    if not_followed and all(x["ok"] for x in res.values()):
        raise AnalysisError(f"make_environ: header loop: cannot evaluate what is stored: {not_followed[0]}")
    for k, (inst, cons) in text.items():
        r = res[k]
        if not r["n"] and all(x["ok"] for x in res.values()):
            raise AnalysisError(f"make_environ: header loop: no path exercises the clause `{cons}`")
        ctx.ob("R19.4", inst, bool(r["ok"]), r["fact"] or f"{r['n']} (sample name, path) combinations over {len(samples)} names and {len(it_paths)} iteration paths, all as required", me, lp, cons)


def _local_names(fn: ast.AST) -> set[str]:
    """names bound in a function (parameters, assignment / loop / with / walrus targets)."""
    out = {a.arg for a in fn.args.posonlyargs + fn.args.args + fn.args.kwonlyargs} if isinstance(fn, (ast.FunctionDef, ast.AsyncFunctionDef)) else set()
    for n in walk_no_nested(fn):
        if isinstance(n, ast.Name) and isinstance(n.ctx, (ast.Store, ast.Del)):
            out.add(n.id)
    return out


def _expand_locals(e: ast.AST, at: Node, rd: ReachingDefs, depth: int = 3, only_if: t.Callable[[ast.AST], bool] | None = None, keep: t.Collection[str] = ()) -> tuple[ast.AST, list[Node]]:
    """copy of ``e`` in which every local with a single plain assignment reaching ``at`` is replaced by the assigned
    expression (hoisted sub-expression), provided no name used in that expression is rebound in between.  Also returns
    the CFG nodes of the definitions used."""
    used: list[Node] = []

    def sub(x: ast.AST, at_: Node, d: int) -> ast.AST:
        class T(ast.NodeTransformer):
            def visit_Name(self, n: ast.Name) -> ast.AST:  # noqa: N802
                if not isinstance(n.ctx, ast.Load) or d <= 0 or n.id in keep:
                    return n
                defs = list(rd.reaching(at_, n.id))
                if len(defs) != 1:
                    return n
                df = defs[0]
                if df.kind != "assign" or df.index is not None or df.value is None or df.node is None or isinstance(df.value, (ast.Lambda, ast.Dict, ast.ListComp, ast.SetComp, ast.DictComp, ast.GeneratorExp)):
                    return n
                if not all(rd.reaching(df.node, m.id) == rd.reaching(at_, m.id) for m in ast.walk(df.value) if isinstance(m, ast.Name) and m.id != n.id):
                    return n
                if only_if is not None and not only_if(df.value):
                    return n
                used.append(df.node)
                return sub(df.value, df.node, d - 1)

        return T().visit(ast.parse(ast.unparse(x), mode="eval").body)

    return ast.fix_missing_locations(sub(e, at, depth)), used


def _atoms_of(test: ast.AST, name_of: t.Callable[[ast.AST], str | None] = lambda x: None) -> tuple[set[str], set[str]]:
    """guard texts implied by an expression being true / false (conjunctions and negations of atoms only); an atom is
    named by ``name_of`` (its role) when that gives one, else by its source text."""
    if isinstance(test, ast.UnaryOp) and isinstance(test.op, ast.Not):
        a, b = _atoms_of(test.operand, name_of)
        return b, a
    if isinstance(test, ast.BoolOp) and isinstance(test.op, ast.And):
        tt: set[str] = set()
        for v in test.values:
            tt |= _atoms_of(v, name_of)[0]
        return tt, set()
    if isinstance(test, ast.BoolOp) and isinstance(test.op, ast.Or):
        ff: set[str] = set()
        for v in test.values:
            ff |= _atoms_of(v, name_of)[1]
        return set(), ff
    nm = name_of(test) or norm(test)
    return {f"{nm}:T"}, {f"{nm}:F"}


def _concat_parts(e: ast.AST) -> list[t.Any]:
    """f-string / `+` concatenation -> list of str constants and expression nodes."""
    if isinstance(e, ast.JoinedStr):
        out: list[t.Any] = []
        for v in e.values:
            if isinstance(v, ast.Constant):
                out.append(v.value)
            elif isinstance(v, ast.FormattedValue) and v.format_spec is None and v.conversion in (-1, None):
                out.append(v.value)
            else:
                out.append(None)
        return out
    if isinstance(e, ast.BinOp) and isinstance(e.op, ast.Add):
        return _concat_parts(e.left) + _concat_parts(e.right)
    if isinstance(e, ast.Constant) and isinstance(e.value, str):
        return [e.value]
    return [e]


# =====================================================================
# R19.3


def _inline_stream_alias(ri: FuncInfo, under_attr: str) -> FuncInfo:
    """`rfile = self.<stream>` (the only binding of that local; the attribute is not assigned in the function) and
    `rfile.read(n)` / `rfile.readline()` afterwards is `self.<stream>.read(n)` / `.readline()`: the local is replaced by
    the attribute and the binding dropped."""
    if any(is_self_attr(x, under_attr) and isinstance(x.ctx, (ast.Store, ast.Del)) for x in ast.walk(ri.node)):
        return ri

    def aliases(fn: ast.AST) -> dict[str, list[ast.Assign]]:
        out: dict[str, list[ast.Assign]] = {}
        for st in walk_no_nested(fn):
            if isinstance(st, ast.Assign) and len(st.targets) == 1 and isinstance(st.targets[0], ast.Name) and is_self_attr(st.value, under_attr):
                out.setdefault(st.targets[0].id, []).append(st)
        for nm in list(out):
            stores = [x for x in ast.walk(fn) if isinstance(x, ast.Name) and x.id == nm and isinstance(x.ctx, (ast.Store, ast.Del))]
            if len(stores) != len(out[nm]) or len(out[nm]) != 1 or nm in ri.params or out[nm][0] not in list(fn.body):  # type: ignore[attr-defined]
                del out[nm]
        return out

    if not aliases(ri.node):
        return ri
    new_fn = H.clone(ri.node)
    al = aliases(new_fn)
    drop = {id(sts[0]) for sts in al.values()}
    # the binding must come before every use: it is a statement of the function body and no use precedes it
    for nm, sts in al.items():
        idx = list(new_fn.body).index(sts[0])
        if any(isinstance(x, ast.Name) and x.id == nm for st in new_fn.body[:idx] for x in ast.walk(st)):
            return ri

    class T(ast.NodeTransformer):
        def visit_Name(self, n: ast.Name) -> ast.AST:  # noqa: N802
            if n.id in al and isinstance(n.ctx, ast.Load):
                return ast.copy_location(ast.Attribute(value=ast.Name(id="self", ctx=ast.Load()), attr=under_attr, ctx=ast.Load()), n)
            return n

    new_fn.body = [st for st in new_fn.body if id(st) not in drop]
    new_fn = T().visit(new_fn)
    ast.fix_missing_locations(new_fn)
    for n in ast.walk(new_fn):
        for ch in ast.iter_child_nodes(n):
            ch._parent = n  # type: ignore[attr-defined]
    return FuncInfo(ri.module, new_fn, ri.qualname, ri.cls)


def _counter_before_early_returns(ri: FuncInfo) -> FuncInfo:
    """`if G: return 0` guard clauses in front of `count = 0` (G a call-free test that does not mention the counter; the
    same integer constant) are `count = 0` followed by `if G: return count`: binding a local to a constant first changes
    nothing.  The count rules then see one returned expression."""
    body = list(ri.node.body)  # type: ignore[attr-defined]
    returned = {r.value.id for r in astq.returns_of(ri.node) if isinstance(r.value, ast.Name)}
    start = 1 if body and isinstance(body[0], ast.Expr) and isinstance(body[0].value, ast.Constant) else 0
    j = next((i for i, st in enumerate(body) if i >= start and isinstance(st, ast.Assign) and len(st.targets) == 1 and isinstance(st.targets[0], ast.Name) and st.targets[0].id in returned
              and isinstance(st.value, ast.Constant) and isinstance(st.value.value, int) and not isinstance(st.value.value, bool)), None)
    if j is None or j == start:
        return ri
    name, c = body[j].targets[0].id, body[j].value.value
    for st in body[start:j]:
        ok = (isinstance(st, ast.If) and not st.orelse and len(st.body) == 1 and isinstance(st.body[0], ast.Return) and isinstance(st.body[0].value, ast.Constant)
              and type(st.body[0].value.value) is int and st.body[0].value.value == c
              and not any(isinstance(x, (ast.Call, ast.NamedExpr, ast.Await)) or (isinstance(x, ast.Name) and x.id == name) for x in ast.walk(st.test)))
        if not ok:
            return ri
    new_fn = H.clone(ri.node)
    nb = list(new_fn.body)
    guards_ = nb[start:j]
    for g in guards_:
        g.body[0].value = ast.copy_location(ast.Name(id=name, ctx=ast.Load()), g.body[0].value)
    new_fn.body = nb[:start] + [nb[j]] + guards_ + nb[j + 1:]
    ast.fix_missing_locations(new_fn)
    for n in ast.walk(new_fn):
        for ch in ast.iter_child_nodes(n):
            ch._parent = n  # type: ignore[attr-defined]
    return FuncInfo(ri.module, new_fn, ri.qualname, ri.cls)


def _dechunker_rules(ctx: Ctx, cls: ClassInfo) -> None:
    ri = cls.methods.get("readinto")
    init = cls.methods.get("__init__")
    if ri is None or init is None:
        raise AnalysisError(f"{cls.name}.readinto / __init__ missing")
    ctx.saw(ri, init)
    over = [m for m in ("read", "readline", "readlines", "readall", "__next__", "__iter__", "read1") if m in cls.methods]
    bases = [k.fq for k in ctx.repo.mro(cls)[1:]]
    ctx.ob("R19.3", "every read of the de-chunked stream goes through readinto (io.RawIOBase readers not overridden)", not over and any(b.endswith("RawIOBase") for b in bases), f"overridden: {over}; bases {bases}", cls.fq, None, "derived readers are RawIOBase's")
    # slots
    ip = [p for p in init.params[1:]]
    inits = _attr_bindings(init.node)
    under = [a for a, v in inits.items() if isinstance(v, ast.Name) and v.id in ip]
    if len(under) != 1:
        raise AnalysisError(f"{cls.name}.__init__: expected one attribute holding the underlying stream, found {under}")
    under_attr = under[0]
    # the chunk-size reader: the method in which the size line is parsed - int() is called there, or in a helper whose
    # result it hands on (a method of the class / a function of the module whose `return`s all end a path): the helper
    # is expanded into the reader, which is then judged as if the parsing were written there; the reader hands the size back
    meth_nodes = {nm: fi.node for nm, fi in cls.methods.items() if "." not in nm}
    func_nodes = {nm: fi.node for nm, fi in cls.module.functions.items() if "." not in nm}
    expanded: dict[str, tuple[ast.AST, set[str]]] = {}
    for nm, fi in cls.methods.items():
        if nm in ("readinto", "__init__") or "." in nm:
            continue
        expanded[nm] = H.inline_value_helpers(fi.node, meth_nodes, func_nodes, exclude={"readinto", "__init__", nm})
    cands = [nm for nm, (node_, _) in expanded.items() if any(dotted(c.func) == "int" for c in astq.calls(node_)) and any(r.value is not None for r in astq.returns_of(node_))]
    absorbed_ = {h for nm in cands for h in expanded[nm][1]}
    readers = [cls.methods[nm] for nm in cands if nm not in absorbed_]
    if len(readers) != 1:
        raise AnalysisError(f"{cls.name}: expected one chunk-size reader (a method calling int(), directly or through a helper that returns the parsed value), found {[f.name for f in readers]}")
    lr = readers[0]
    ctx.saw(lr)
    if expanded[lr.name][1]:
        ctx.saw(*[cls.methods[h] if h in cls.methods else cls.module.functions[h] for h in sorted(expanded[lr.name][1]) if h in cls.methods or h in cls.module.functions])
        lr = FuncInfo(lr.module, expanded[lr.name][0], lr.qualname, lr.cls)
    # one level of helper inlining: statement calls `self._h(...)` and single-expression predicates `self._p()`
    ri_src = ri
    xnode, inlined = H.inline_methods(ri.node, {nm: fi.node for nm, fi in cls.methods.items()}, exclude={lr.name, "readinto", "__init__"})
    if inlined:
        ri = FuncInfo(ri.module, xnode, ri.qualname, ri.cls)
        ctx.saw(*[cls.methods[nm] for nm in sorted(inlined)])
    ri = _inline_stream_alias(ri, under_attr)
    res = [tg.attr for s in walk_no_nested(ri.node) if isinstance(s, ast.Assign) and _self_call(s.value, lr.name) for tg in s.targets if is_self_attr(tg)]
    if not res:
        # the size read is kept in a local until it is stored (`size = self.read_chunk_len()` ... `self._len = size`)
        xnode2, pending_attr = H.fold_pending_header(ri.node, lr.name)
        if pending_attr is not None:
            ri = FuncInfo(ri.module, xnode2, ri.qualname, ri.cls)
            res = [pending_attr]
    if len(set(res)) != 1:
        raise AnalysisError(f"readinto: expected `self.<residual> = self.{lr.name}()`, found targets {res}")
    residual = res[0]
    # the end-of-body flag: the attribute readinto assigns (besides the residual length) that a fresh stream has as False
    ri_binds = _attr_bindings(ri.node)
    done = sorted(a for a in ri_binds if a != residual and isinstance(inits.get(a), ast.Constant) and inits[a].value is False)  # type: ignore[attr-defined]
    if len(done) != 1:
        raise AnalysisError(f"readinto: expected one end-of-body flag (False on a fresh stream, assigned in readinto), found {done}")
    done_attr = done[0]
    if len(ri.params) < 2:
        raise AnalysisError("readinto has no buffer parameter")
    buf = ri.params[1]
    ri = _counter_before_early_returns(ri)
    rets = astq.returns_of(ri.node)
    # the count returned: one expression on every return - a local, or arithmetic over locals / len(<buffer>) / integers
    def countable(e: ast.AST | None) -> bool:
        if isinstance(e, ast.Name):
            return True
        if isinstance(e, ast.Constant):
            return isinstance(e.value, int) and not isinstance(e.value, bool)
        if isinstance(e, ast.BinOp) and isinstance(e.op, (ast.Add, ast.Sub)):
            return countable(e.left) and countable(e.right)
        return isinstance(e, ast.Call) and dotted(e.func) == "len" and len(e.args) == 1 and isinstance(e.args[0], ast.Name) and not e.keywords

    if not rets or len({norm(r.value) if r.value is not None else None for r in rets}) != 1 or not countable(rets[0].value) or isinstance(rets[0].value, ast.Constant):
        raise AnalysisError(f"readinto: no single returned count expression (returns {sorted({norm(r) for r in rets})})")
    counter_expr = rets[0].value
    assert counter_expr is not None
    counter = norm(counter_expr)
    whiles = [n for n in walk_no_nested(ri.node) if isinstance(n, (ast.While, ast.For))]
    if len(whiles) != 1 or not isinstance(whiles[0], ast.While):
        raise AnalysisError("readinto: expected exactly one while loop")
    loop = whiles[0]
    cfg = cfg_of(ri)
    sym = H.LoopSym(buf, counter_expr, residual, under_attr, lr.name)

    # attribute initial values
    ok = isinstance(inits.get(residual), ast.Constant) and inits[residual].value == 0 and isinstance(inits.get(done_attr), ast.Constant) and inits[done_attr].value is False  # type: ignore[attr-defined]
    ctx.ob("R19.3", "a fresh stream has no residual chunk and is not finished", ok, f"{residual} = {norm(inits[residual]) if residual in inits else None}; {done_attr} = {norm(inits[done_attr]) if done_attr in inits else None}", init, init.node, "initial state")
    # other writers of the state
    for nm, fi in cls.methods.items():
        if fi is ri_src or fi is init or nm in inlined:
            continue
        w = [s for s in ast.walk(fi.node) if isinstance(s, (ast.Assign, ast.AugAssign)) and any(is_self_attr(tg, residual) or is_self_attr(tg, done_attr) for tg in (s.targets if isinstance(s, ast.Assign) else [s.target]))]
        if w and any(_self_call(c, nm) for c in astq.calls(ri.node)):
            raise AnalysisError(f"readinto calls {fi.qualname}, which writes the chunk state (`{norm(w[0])}`) and cannot be inlined")
        if w:
            ctx.ob("R19.3", "residual length and end flag are written only by readinto", False, f"{fi.qualname}: {[norm(x) for x in w]}", fi, w[0], f"state written in {nm}")

    _size_reader_rules(ctx, lr, under_attr, ri, sym)

    # ---- explicit raises of readinto ------------------------------------
    for r in astq.raises_of(ri.node):
        nm = astq.raised_name(r)
        ctx.ob("R19.3", "readinto reports malformed framing as OSError", nm in OSERRORS, f"`{norm(r)}`", ri, r, f"raise {nm}")

    # ---- protocol typestate ------------------------------------------------
    ztests: dict[int, str] = {}
    unrefined: list[Node] = []  # tests of the residual length that are not followed: a failing protocol check is then undecided
    rdri = ReachingDefs(cfg, ri.params)
    res_writers = [n for n in cfg.nodes if n.kind == "stmt" and isinstance(n.ast, (ast.Assign, ast.AugAssign, ast.AnnAssign)) and any(sym.is_res(x) and isinstance(x.ctx, ast.Store) for x in ast.walk(n.ast))]

    def res_copy(name: ast.Name, at: Node) -> bool:
        """the local holds the residual length as it is now: bound by `<name> = self.<residual>` (all reaching
        definitions), with no write of the residual between that binding and this use."""
        ds = rdri.reaching(at, name.id)
        if not ds or not all(d.kind in ("assign", "walrus") and d.index is None and d.node is not None and d.value is not None and sym.is_res(d.value) for d in ds):
            return False
        for d in ds:
            for w in res_writers:
                after_def = any(w.id in cfg.reach(s_, avoid_nodes=[d.node]) for s_, _ in d.node.succs) or w is d.node  # type: ignore[union-attr]
                if after_def and w is not d.node and any(at.id in cfg.reach(s_, avoid_nodes=[d.node]) for s_, _ in w.succs):
                    return False
        return True

    for n in cfg.nodes:
        if n.kind != "test" or n.ast is None:
            continue
        copies = {id(x) for x in ast.walk(n.ast) if isinstance(x, ast.Name) and isinstance(x.ctx, ast.Load) and res_copy(x, n)}
        is_r = lambda x, copies=copies: sym.is_res(x) or id(x) in copies  # noqa: E731
        if not H.mentions(n.ast, is_r):
            # a local computed from the residual length at some earlier point (not a current copy) tested against a constant
            stale = [x.id for x in ast.walk(n.ast) if isinstance(x, ast.Name) and isinstance(x.ctx, ast.Load) and any(d.value is not None and sym.is_res(d.value) for d in rdri.reaching(n, x.id))]
            if stale:
                unrefined.append(n)
            continue
        try:
            vals = [bool(H.ev(n.ast, lambda x, v=v, is_r=is_r: (True, v) if is_r(x) else (False, None))) for v in (0, 1, 7)]
        except H.Unknown:
            unrefined.append(n)
            continue
        if vals[1] == vals[2] != vals[0]:
            ztests[n.id] = "T" if vals[0] else "F"
    ctx.floor("R19.3", "tests of the residual length against zero", len(ztests), 2)

    def has_call(n: Node, pred: t.Callable[[ast.AST], bool]) -> bool:
        return n.ast is not None and n.kind in ("stmt", "test") and any(pred(x) for x in ast.walk(n.ast))

    h_nodes = [n for n in cfg.nodes if n.kind == "stmt" and isinstance(n.ast, ast.Assign) and sym.is_header_read(n.ast.value) and any(sym.is_res(tg) for tg in n.ast.targets)]
    stray_hdr = [n for n in cfg.nodes if has_call(n, sym.is_header_read) and n not in h_nodes]
    # private helpers that read the terminator (extracted from readinto): followed one level
    term_helpers: dict[str, FuncInfo] = {}
    for nm, fi in cls.methods.items():
        if fi is ri_src or fi is init or fi.name == lr.name:
            continue
        if any(sym.under_call(x) or is_self_attr(x, under_attr) for x in ast.walk(fi.node)):
            called = [c for c in astq.calls(ri.node) if _self_call(c, nm)]
            if not called:
                continue  # not part of readinto's behaviour
            if any(c.args or c.keywords for c in called):
                raise AnalysisError(f"readinto: helper call `{norm(called[0])}` passes arguments (cannot be summarised)")
            _terminator_helper(ctx, fi, sym, cls)
            term_helpers[nm] = fi
    handed = [c for c in astq.calls(ri.node) if any(is_self_attr(a, under_attr) for a in list(c.args) + [k.value for k in c.keywords])]
    if handed:
        raise AnalysisError(f"readinto: the underlying stream is handed to `{norm(handed[0])}` (reads through it cannot be followed)")
    is_term_read = lambda x: sym.under_call(x, "readline") or any(_self_call(x, nm) for nm in term_helpers)  # noqa: E731
    t_nodes = [n for n in cfg.nodes if has_call(n, is_term_read)]
    helper_calls = {n.id for n in t_nodes if has_call(n, lambda x: any(_self_call(x, nm) for nm in term_helpers))}
    # assignments of the end flag: `= True`, or a boolean expression of the residual length (`= self._len == 0`)
    d_truth: dict[int, dict[str, bool]] = {}  # node id -> value assigned when the residual is zero / non-zero
    d_nodes = []
    for n in cfg.nodes:
        if n.kind != "stmt" or not isinstance(n.ast, (ast.Assign, ast.AnnAssign)) or n.ast.value is None:
            continue
        tgs = n.ast.targets if isinstance(n.ast, ast.Assign) else [n.ast.target]
        if not any(is_self_attr(x, done_attr) and isinstance(x.ctx, ast.Store) for tg in tgs for x in ast.walk(tg)):
            continue
        if not any(is_self_attr(tg, done_attr) for tg in tgs):
            raise AnalysisError(f"readinto: the end flag is assigned by `{norm(n.ast)}` (tuple assignment: not modelled)")
        v_ = n.ast.value
        try:
            tv = [bool(H.ev(v_, lambda x, k=k: (True, k) if sym.is_res(x) else (False, None))) for k in (0, 1, 7)]
        except H.Unknown:
            raise AnalysisError(f"readinto: the end flag is assigned `{norm(v_)}`, which is not a constant or a test of the residual length")
        if tv[1] != tv[2]:
            raise AnalysisError(f"readinto: the end flag is assigned `{norm(v_)}`, which distinguishes non-zero residual lengths")
        d_truth[n.id] = {"Z": tv[0], "NZ": tv[1]}
        d_nodes.append(n)
    if not any(tv_["Z"] or tv_["NZ"] for tv_ in d_truth.values()):
        raise AnalysisError("readinto: the end flag is never set")
    ctx.floor("R19.3", "chunk header reads in readinto", len(h_nodes), 1)
    if stray_hdr:
        discarded = stray_hdr[0].kind == "test" or isinstance(stray_hdr[0].ast, ast.Expr)
        if not discarded:  # kept somewhere this analysis does not follow (a local that is not stored once on every path, a tuple, ...)
            raise AnalysisError(f"readinto: the chunk size read by `{stray_hdr[0].text()[:70]}` is not stored directly as the residual length (not followed)")
        ctx.ob("R19.3", "the chunk size read is stored as the residual length", False, f"`{stray_hdr[0].text()}`", ri, stray_hdr[0].ast, "header read not stored")
    h_ids, t_ids = {n.id for n in h_nodes}, {n.id for n in t_nodes}
    w_ids = {n.id for n in res_writers}
    # the end flag as a latch (fourth state component).  It is followed when every read of the flag in readinto is a
    # condition atom that can be evaluated for both values of the flag (`self._done`, `not self._done`, `self._done is
    # True`, ...); any other use (copied to a local, handed on, mixed with other state in one atom) leaves the latch
    # clause undecided: the component then stays False and nothing is claimed about it.
    dtests: dict[int, str] = {}  # test node -> the edge taken when the flag is set
    latch_followed = True
    followed_loads: set[int] = set()
    for n in cfg.nodes:
        if n.kind != "test" or n.ast is None:
            continue
        loads = [x for x in ast.walk(n.ast) if is_self_attr(x, done_attr)]
        if not loads:
            continue
        try:
            dv = [bool(H.ev(n.ast, lambda x, v=v: (True, v) if is_self_attr(x, done_attr) else (False, None))) for v in (False, True)]
        except H.Unknown:
            latch_followed = False
            continue
        if dv[0] == dv[1]:
            latch_followed = False
            continue
        dtests[n.id] = "T" if dv[1] else "F"
        followed_loads |= {id(x) for x in loads}
    if any(is_self_attr(x, done_attr) and isinstance(x.ctx, ast.Load) and id(x) not in followed_loads for x in ast.walk(ri.node)):  # type: ignore[attr-defined]
        latch_followed = False
    if not dtests:
        # readinto never reads the flag.  Unless something it uses does (a method / property of the class that was not
        # expanded into it), the flag has no influence: every statement is reachable with the flag set
        flag_readers = {nm.split(".")[0] for nm, fi in cls.methods.items() if fi is not init and fi is not ri_src and any(is_self_attr(x, done_attr) and isinstance(x.ctx, ast.Load) for x in ast.walk(fi.node))}
        if any(is_self_attr(x) and x.attr in flag_readers for x in ast.walk(ri.node)):  # type: ignore[attr-defined]
            latch_followed = False

    def effect(n: Node, s: tuple) -> list[tuple]:
        z, owed, fresh, done_ = s
        a = n.ast
        if n.id in h_ids:
            return [("Z", True, True, done_), ("NZ", True, True, done_)]
        if n.id in w_ids:  # any other write of the residual (plain, augmented, annotated, inside a tuple assignment)
            if isinstance(a, ast.Assign) and any(sym.is_res(tg) for tg in a.targets) and isinstance(a.value, ast.Constant) and a.value.value == 0:
                return [("Z", owed, False, done_)]
            return [("Z", owed, False, done_), ("NZ", owed, False, done_)]
        if n.id in t_ids:
            return [(z, False, fresh, done_)]
        if latch_followed and n.id in d_truth:
            return [(z, owed, fresh, d_truth[n.id][z])]
        return [s]

    def edge_ok(n: Node, l: str | None, post: tuple) -> bool:
        if n.id in ztests and l in ("T", "F"):
            return (l == ztests[n.id]) == (post[0] == "Z")
        if latch_followed and n.id in dtests and l in ("T", "F"):
            return (l == dtests[n.id]) == post[3]
        return True

    # entry states: no residual and no terminator owed / inside a chunk; and, when the latch is followed, a call after the
    # final chunk was seen (flag set, nothing left, terminator consumed)
    at, parent = H.typestate(cfg, [("Z", False, False, False), ("NZ", True, False, False)] + ([("Z", False, False, True)] if latch_followed else []), effect, edge_ok)

    def check(nodes: list[Node], pred: t.Callable[..., bool], inst: str, cons: str, need: str, with_node: bool = False) -> None:
        for n in nodes:
            badstates = sorted(s for s in at[n.id] if not (pred(s, n) if with_node else pred(s)))
            if badstates and unrefined:
                raise AnalysisError(f"readinto: `{n.text()[:60]}`: {cons} cannot be decided: the test `{unrefined[0].text()[:60]}` of the residual length is not followed")
            fact = f"`{n.text()[:60]}`: reachable abstract states (residual zero?, terminator owed, size fresh from header, end flag set) {sorted(at[n.id])}; required: {need}"
            if badstates:
                fact += f"; counterexample path: {H.witness(cfg, parent, n, badstates[0])}"
            ctx.ob("R19.3", inst, not badstates and bool(at[n.id]) if n is not cfg.exit else not badstates, fact, ri, n.ast if n.ast is not None else ri.node, cons)

    check(h_nodes, lambda s: s[0] == "Z" and not s[1], "a chunk header is read only when the previous chunk is consumed and its terminator was read", "header read state", "residual zero and no terminator owed")
    check(t_nodes, lambda s: s[0] == "Z" and s[1], "the chunk terminator is read exactly when the residual length has reached zero (never while chunk bytes remain)", "terminator read state", "residual zero and a terminator owed")
    check([cfg.exit], lambda s: s[1] == (s[0] == "NZ"), "when readinto returns, a terminator is still owed exactly if chunk bytes remain", "exit state", "terminator owed <=> residual non-zero")
    check(d_nodes, lambda s, n: not d_truth[n.id][s[0]] or (s[0] == "Z" and s[2]), "the end flag is set only on a zero chunk size freshly read from a header", "end flag state", "residual zero, fresh from a header", with_node=True)
    if latch_followed:
        # the flag is a latch: once it is set - in this call or an earlier one - nothing but the terminator of the zero chunk is read
        body_reads = [n for n in cfg.nodes if n.id not in t_ids and has_call(n, lambda x: sym.is_header_read(x) or (sym.under_call(x) and not is_term_read(x)))]
        check(body_reads, lambda s: not s[3], "once the end flag is set no further chunk header or chunk data is read from the stream (in this call or in a later one)", "no read after the end flag", "end flag not set")

    # terminator validation (in readinto itself, or inside the helper that reads the terminator)
    for tn in t_nodes:
        if tn.id in helper_calls:
            continue  # validated where the line is read: see _terminator_helper
        okt, factt, site = _terminator_validated(cfg, tn, sym, in_loop=True, fold=_folder_of(ctx, ri))
        ctx.ob("R19.3", "a missing or wrong chunk terminator raises OSError", okt, factt, ri, site, "terminator validated")

    # ---- per-iteration arithmetic ---------------------------------------
    head = [n for n in cfg.nodes if n.kind == "join" and n.ast is loop]
    if len(head) != 1:
        raise AnalysisError("readinto: loop head not found in the CFG")
    sym.seed_invariants(ri.node, loop, cfg, head[0])
    it_paths = H.paths(cfg, head[0], [head[0], cfg.exit, cfg.raise_exit])
    lb = H.Lin.atom(f"len({buf})")
    per_store: dict[str, dict[str, t.Any]] = {}
    exact_ok = True
    exact_fact: list[str] = []
    idle_ok = True
    idle_fact = ""
    n_store_paths = 0
    for p in it_paths:
        r = sym.run(p, cfg)
        if r.end == "raise":
            continue
        if r.other_res_writes:
            raise AnalysisError(f"readinto: residual length written by `{norm(r.other_res_writes[0])}` (neither a header read nor a decrement)")
        if not r.stores:
            good = r.res_end == r.res_base and r.read_delta.is_zero() and r.requested_since_base.is_zero()
            if not good and idle_ok:
                idle_ok = False
                idle_fact = f"path without a buffer store: residual {r.res_base} -> {r.res_end}, count +({r.read_delta}), bytes requested {r.requested_since_base}: {H.fmt_path(p)}"
            continue
        n_store_paths += 1
        assert r.res_base is not None and r.res_end is not None
        dec = r.res_base - r.res_end
        for s in r.stores:
            key = norm(s.stmt)
            rec = per_store.setdefault(key, {"stmt": s.stmt, "acc": True, "acc_fact": "", "bnd": True, "bnd_fact": "", "n": 0})
            rec["n"] += 1
            problems = []
            if s.lo != s.read_at:
                problems.append(f"store starts at {s.lo} but the fill position is {s.read_at}")
            measured = all(x.src_len is not None and x.src_len == x.width for x in r.stores)  # slots sized by len(<bytes read>)
            if s.requested is None:
                problems.append("stored bytes do not come from the underlying stream")
            elif s.requested != s.width and not (s.src_len is not None and s.src_len == s.width):
                problems.append(f"{s.requested} bytes requested for a slot of {s.width}")
            if dec != r.copied_since_base:
                problems.append(f"residual length decreases by {dec} but {r.copied_since_base} bytes are stored")
            if r.requested_since_base != r.copied_since_base and not (measured and len(r.reads) == len(r.stores)):
                problems.append(f"{r.requested_since_base} bytes requested from the stream but {r.copied_since_base} stored")
            if r.read_delta != r.copied_total:
                problems.append(f"count grows by {r.read_delta} but {r.copied_total} bytes are stored")
            if problems and rec["acc"]:
                rec["acc"] = False
                rec["acc_fact"] = "; ".join(problems) + f" on path {H.fmt_path(p)}"
            bproblems = []
            if not H.prove_nonneg(lb - s.hi, s.facts):
                bproblems.append(f"cannot show store end {s.hi} <= len({buf})")
            if not H.prove_nonneg(s.lo, list(s.facts) + [sym.pos0()]):
                bproblems.append(f"cannot show store start {s.lo} >= 0")
            if s.requested is not None and not H.prove_nonneg(s.res_at - s.requested, s.facts):
                bproblems.append(f"cannot show requested {s.requested} <= residual {s.res_at}")
            if bproblems and rec["bnd"]:
                rec["bnd"] = False
                rec["bnd_fact"] = "; ".join(bproblems) + f" on path {H.fmt_path(p)}"
            # length-exactness of the source
            if s.direct:
                exact_ok = False
                msg = f"`{key}` splices the result of the underlying read unchecked (fewer bytes than the slot resize a bytearray / raise ValueError on a memoryview)"
                if msg not in exact_fact:
                    exact_fact.append(msg)
            elif s.src_len is not None:
                if not (s.src_len == s.width or H.prove_nonneg(s.src_len - s.width, s.facts)):
                    exact_ok = False
                    msg = f"`{key}`: the length of the stored source is not shown to equal the slot"
                    if msg not in exact_fact:
                        exact_fact.append(msg)
    ctx.floor("R19.3", "buffer slice stores in readinto", len(per_store), 1)
    ctx.floor("R19.3", "loop iteration paths with a store", n_store_paths, 2)
    for key, rec in sorted(per_store.items()):
        ctx.ob("R19.3", "per iteration: residual decrement == bytes requested == bytes stored at the fill position == count increment", rec["acc"], rec["acc_fact"] or f"`{key}`: holds on all {rec['n']} iteration paths through it", ri, rec["stmt"], f"accounting {key}")
        ctx.ob("R19.3", "the read stays inside the chunk and the store inside the buffer", rec["bnd"], rec["bnd_fact"] or f"`{key}`: request <= residual and store end <= len({buf}) proved on all {rec['n']} paths", ri, rec["stmt"], f"bounds {key}")
    ctx.ob("R19.3", "an iteration that stores nothing leaves residual length and count unchanged and requests no chunk bytes", idle_ok, idle_fact or f"{len(it_paths)} iteration paths", ri, loop, "idle iteration")
    ctx.ob("R19.3", "every slice store into the caller's buffer is length-exact (a short read of a truncated chunk must raise OSError, not splice)", exact_ok, "; ".join(exact_fact) or "every stored source has a checked length", ri, ri.node, "buffer stores length-exact")
    # counter starts at zero
    entry = sym.pos_entry()
    ctx.ob("R19.3", "the returned count starts at zero", entry.is_zero(), f"`{counter}` on entering the loop: {entry} (locals bound before the loop: { {k: str(v) for k, v in {**sym.pre_env, **sym.entry_env}.items()} })", ri, ri.node, "count starts at zero")


def _tuple_part(stmt: ast.AST, value: ast.AST | None, name: str) -> ast.AST | None:
    """the value a name receives in `a, b = x, y` (astq.assigns_to reports None for tuple targets)."""
    if value is None and isinstance(stmt, ast.Assign) and isinstance(stmt.value, (ast.Tuple, ast.List)):
        for tg in stmt.targets:
            if isinstance(tg, (ast.Tuple, ast.List)) and len(tg.elts) == len(stmt.value.elts):
                for e, x in zip(tg.elts, stmt.value.elts):
                    if isinstance(e, ast.Name) and e.id == name and not isinstance(x, ast.Starred):
                        return x
    return value


def _attr_bindings(fn: ast.AST) -> dict[str, ast.AST]:
    """`self.<attr> = <value>` bindings of a function: plain, annotated, chained and pairwise tuple assignments
    (an attribute bound twice, or by unpacking a non-tuple, maps to a node that is no constant)."""
    out: dict[str, ast.AST] = {}

    def bind(tg: ast.AST, v: ast.AST) -> None:
        if is_self_attr(tg):
            out[tg.attr] = v if tg.attr not in out else ast.Tuple(elts=[], ctx=ast.Load())  # type: ignore[attr-defined]
        elif isinstance(tg, (ast.Tuple, ast.List)):
            if isinstance(v, (ast.Tuple, ast.List)) and len(v.elts) == len(tg.elts) and not any(isinstance(x, ast.Starred) for x in list(tg.elts) + list(v.elts)):
                for e, x in zip(tg.elts, v.elts):
                    bind(e, x)
            else:
                for e in tg.elts:
                    bind(e, ast.Tuple(elts=[], ctx=ast.Load()))

    for s_ in walk_no_nested(fn):
        if isinstance(s_, ast.Assign):
            for tg in s_.targets:
                bind(tg, s_.value)
        elif isinstance(s_, ast.AnnAssign) and s_.value is not None:
            bind(s_.target, s_.value)
    return out


def _folder_of(ctx: Ctx, fi: FuncInfo) -> t.Callable[[ast.AST], t.Any]:
    """constant folding of module-level names as seen from the function's module."""
    from ..fold import Folder

    f = Folder(ctx.repo)
    return lambda x: f.expr(fi.module, x)


TERM_SAMPLES = [b"\r\n", b"\n", b"\r", b"", b"x", b"x\r\n", b"\r\n\r\n", b" \r\n", b"\n\r", b"0", b"\r\nx"]


def _terminator_validated(cfg: CFG, tn: Node, sym: "H.LoopSym", in_loop: bool, fold: t.Callable[[ast.AST], t.Any] | None = None) -> tuple[bool, str, ast.AST | None]:
    """the line read at node ``tn`` is checked: decided by following the CFG from the read for sample line values
    (tests that mention the line are evaluated, any other test is followed on both edges): CRLF and LF must reach the
    normal continuation (the exit or, inside the copy loop, the next iteration) without a raise, a bare CR may do either,
    and every other value - the empty line of a truncated stream included - must end in `raise OSError` on every
    path.  A test of the line outside the evaluable subset -> AnalysisError."""
    tcalls = [x for x in ast.walk(tn.ast) if sym.under_call(x, "readline")]  # type: ignore[arg-type]
    site = tcalls[0] if tcalls else tn.ast
    var: str | None = None
    a0 = tn.ast
    if tn.kind == "stmt" and isinstance(a0, (ast.Assign, ast.AnnAssign)) and a0.value is not None:
        tgs = a0.targets if isinstance(a0, ast.Assign) else [a0.target]
        if len(tgs) == 1 and isinstance(tgs[0], ast.Name):
            var = tgs[0].id
    for x in ast.walk(a0):  # type: ignore[arg-type]
        if isinstance(x, ast.NamedExpr) and sym.under_call(x.value, "readline") and isinstance(x.target, ast.Name):
            var = x.target.id
    if tn.kind == "stmt" and var is None and not isinstance(a0, ast.Expr):
        raise AnalysisError(f"readinto: the chunk terminator is read by `{tn.text()[:60]}`, which does not keep the line in a local")

    def outcomes(line: bytes) -> set[str]:
        def bind_at(n: Node) -> H.Binder:
            def bind(x: ast.AST) -> tuple[bool, t.Any]:
                if isinstance(x, ast.Name) and x.id == var:
                    return True, line
                if n is tn and (sym.under_call(x, "readline") or (isinstance(x, ast.NamedExpr) and sym.under_call(x.value, "readline"))):
                    return True, line
                if fold is not None and isinstance(x, (ast.Name, ast.Attribute)) and not (isinstance(x, ast.Name) and x.id == "self"):
                    try:
                        return True, fold(x)
                    except Exception:
                        return False, None
                return False, None

            return bind

        out: set[str] = set()
        seen: set[int] = set()
        stack: list[Node] = [tn]
        while stack:
            n = stack.pop()
            if n.id in seen:
                continue
            seen.add(n.id)
            if n is not tn:
                if n is cfg.exit:
                    out.add("continues")
                    continue
                if n is cfg.raise_exit:
                    continue
                if n.kind == "join" and in_loop and isinstance(n.ast, (ast.While, ast.For)):
                    out.add("continues")
                    continue
                if isinstance(n.ast, ast.Raise) and n.kind == "stmt":
                    out.add(f"raise {astq.raised_name(n.ast)}")
                    continue
                if var is not None and n.kind == "stmt" and n.ast is not None and any(isinstance(x, ast.Name) and x.id == var and isinstance(x.ctx, ast.Store) for x in ast.walk(n.ast)):
                    raise AnalysisError(f"readinto: the terminator line `{var}` is rebound by `{n.text()[:60]}` before it is checked on every path")
            mentions = n.kind == "test" and n.ast is not None and (any(isinstance(x, ast.Name) and x.id == var for x in ast.walk(n.ast)) or (n is tn))
            if mentions:
                try:
                    c = bool(H.ev(n.ast, bind_at(n)))  # type: ignore[arg-type]
                except H.Unknown as e:
                    raise AnalysisError(f"readinto: the test `{n.text()[:60]}` of the chunk terminator is outside the evaluable subset ({e})")
                stack += [s_ for s_, l in n.succs if l == ("T" if c else "F")]
            else:
                stack += [s_ for s_, l in n.succs if l != "exc"]
        return out

    accepted, refused, wrong = [], [], []
    for line in TERM_SAMPLES:
        o = outcomes(line)
        raises = {x for x in o if x.startswith("raise ")}
        if "continues" in o and not raises:
            accepted.append(line)
        elif raises and "continues" not in o and all(x[len("raise "):] in OSERRORS for x in raises):
            refused.append(line)
        else:
            wrong.append((line, sorted(o)))
    only_nl = set(accepted) <= LINE_TERMINATORS and {b"\r\n", b"\n"} <= set(accepted)
    factt = f"accepted terminators {sorted(accepted)} (CRLF and LF accepted, nothing but line terminators: {only_nl}); anything else raises OSError: {not wrong}" + (f"; {wrong[0][0]!r} -> {wrong[0][1]}" if wrong else "")
    return only_nl and not wrong, factt, site


def _terminator_helper(ctx: Ctx, fi: FuncInfo, sym: "H.LoopSym", cls: ClassInfo) -> None:
    """summary of a private method of the de-chunker that touches the underlying stream (helper extracted from
    readinto): it must read exactly one line on every normally returning path, nothing else, and validate it as the
    chunk terminator; its raises are OSError.  Anything else it does with the stream cannot be followed -> exit 2."""
    hcfg = cfg_of(fi)
    ctx.saw(fi)
    other = [x for x in ast.walk(fi.node) if sym.under_call(x) and not sym.under_call(x, "readline")]
    if other:
        raise AnalysisError(f"{fi.qualname}: helper uses the underlying stream by `{norm(other[0])}` (only a terminator-reading helper can be followed)")
    nested_self = [c for c in astq.calls(fi.node) if isinstance(c.func, ast.Attribute) and is_self_attr(c.func) and c.func.attr in cls.methods]
    if nested_self:
        raise AnalysisError(f"{fi.qualname}: helper calls `{norm(nested_self[0])}` (helpers are followed one level only)")
    rl = [n for n in hcfg.nodes if n.ast is not None and n.kind in ("stmt", "test") and any(sym.under_call(x, "readline") for x in ast.walk(n.ast))]
    rl_ids = {n.id for n in rl}
    for p in H.paths(hcfg, hcfg.entry, [hcfg.exit, hcfg.raise_exit]):
        if p[-1][0] is not hcfg.exit:
            continue
        k = sum(1 for n, _ in p if n.id in rl_ids for x in ast.walk(n.ast) if sym.under_call(x, "readline"))  # type: ignore[arg-type]
        if k != 1:
            raise AnalysisError(f"{fi.qualname}: a returning path reads {k} lines from the underlying stream (expected exactly one: the chunk terminator)")
    for n in rl:
        again: set[int] = set()
        for s_, _ in n.succs:
            again |= hcfg.reach(s_)
        if n.id in again:
            raise AnalysisError(f"{fi.qualname}: the line read can execute more than once per call")
    for tn in rl:
        okt, factt, site = _terminator_validated(hcfg, tn, sym, in_loop=False, fold=_folder_of(ctx, fi))
        ctx.ob("R19.3", "a missing or wrong chunk terminator raises OSError", okt, factt, fi, site, "terminator validated")
    for r in astq.raises_of(fi.node):
        nm = astq.raised_name(r)
        ctx.ob("R19.3", "readinto reports malformed framing as OSError", nm in OSERRORS, f"`{norm(r)}` in {fi.name}", fi, r, f"raise {nm}")


SIZE_SAMPLES = [b"5", b"a", b"A", b"1f", b"1F", b"0", b"00c", b"10"]


def _size_lines_accepted(ctx: Ctx, lr: FuncInfo, under_attr: str) -> None:
    """sibling agreement between the two line readers of the de-chunker: a chunk-size line that ends in a terminator
    the terminator check accepts - CRLF and LF, the framings the property lists - must be accepted by the size reader
    as well, with the size parsed from its hex digits (upper and lower case, leading zeros).  Decided by following the
    reader statement by statement on sample lines; a check in the reader that refuses a well-formed size line (a
    stricter idea of the line end than the terminator check has, a digit class that is too narrow, a length limit) makes
    a sample raise.  What the reader does with malformed lines is the business of the clauses above."""
    assert lr.cls is not None
    by_node = {id(fi.node): fi for fi in list(lr.cls.methods.values()) + list(lr.module.functions.values())}
    by_node[id(lr.node)] = lr
    runner = H.LineRun(under_attr, {nm: fi.node for nm, fi in lr.cls.methods.items()}, {nm: fi.node for nm, fi in lr.module.functions.items()}, _folder_of(ctx, lr), lambda node: cfg_of(by_node[id(node)]))
    n = 0
    for tname, term in (("CRLF", b"\r\n"), ("LF", b"\n")):
        bad: list[str] = []
        for h in SIZE_SAMPLES:
            how, val = runner.run(lr.node, {}, h + term)
            n += 1
            want = int(h, 16)
            if how != "return" or type(val) is not int or val != want:
                bad.append(f"{h + term!r} -> {'raises ' + str(val) if how == 'raise' else 'returns ' + repr(val)} (expected {want})")
        try:
            how_cr, val_cr = runner.run(lr.node, {}, b"5\r")
            cr = f"{'raises ' + str(val_cr) if how_cr == 'raise' else 'returns ' + repr(val_cr)}"
        except AnalysisError:
            cr = "not followed"
        fact = (f"all {len(SIZE_SAMPLES)} sample size lines ending in {tname} return the size their hex digits denote" if not bad else
                f"{bad[0]}" + (f" and {len(bad) - 1} more" if len(bad) > 1 else "") + f": a well-formed size line framed with {tname}, which the terminator check accepts after chunk data, is refused or misread") + f" (a line cut off after a bare CR, b'5\\r': {cr} - not judged)"
        ctx.ob("R19.3", f"a well-formed chunk-size line ending in {tname} is accepted like the chunk terminator {tname} and yields the size written", not bad, fact, lr, lr.node, f"size line ending in {tname} accepted")
    ctx.floor("R19.3", "sample size lines the chunk-size reader was followed on", n, 2 * len(SIZE_SAMPLES))


def _size_reader_rules(ctx: Ctx, lr: FuncInfo, under_attr: str, caller: FuncInfo, sym: "H.LoopSym") -> None:
    cfg = cfg_of(lr)
    rd = ReachingDefs(cfg, lr.params)

    def covered_in(cfg_: CFG, c: ast.AST) -> tuple[bool | None, str]:
        """(True / False: a handler that covers ValueError exists and does / does not always raise OSError; None: no such handler)."""
        tr = astq.enclosing(c, (ast.Try,))
        seen_handlers: list[list[str]] = []
        while isinstance(tr, ast.Try):
            if any(c is x for s in tr.body for x in ast.walk(s)):
                for h in tr.handlers:
                    names = _handler_names(h)
                    if not set(names) & COVERS_VALUEERROR:
                        seen_handlers.append(names)
                        continue
                    hn = cfg_.node_of(h)
                    r = cfg_.reach(hn) if hn is not None else set()
                    raises = [n for n in cfg_.nodes if n.id in r and isinstance(n.ast, ast.Raise)]
                    if hn is not None and cfg_.exit.id not in r and not any(n.id in r for n in cfg_.nodes if n.kind == "join") and raises and all(astq.raised_name(n.ast) in OSERRORS for n in raises):  # type: ignore[arg-type]
                        return True, f"handler {names} re-raises as OSError"
                    return False, f"handler {names} does not always raise OSError"
            tr = astq.enclosing(tr, (ast.Try,))
        return None, (f"handlers {seen_handlers} do not cover ValueError" if seen_handlers else "not inside a try")

    def covered(c: ast.AST) -> tuple[bool, str]:
        ok_, why_ = covered_in(cfg, c)
        if ok_ is not None:
            return ok_, why_
        # not converted where it is raised: then every call of the reader must be converted by the caller
        sites = [x for x in astq.calls(caller.node) if sym.is_header_read(x)]
        ccfg = cfg_of(caller)
        res_ = [covered_in(ccfg, x) for x in sites]
        if sites and all(r_[0] is True for r_ in res_):
            return True, f"{why_} in {lr.name}; around every call in {caller.name}: {res_[0][1]}"
        return False, why_ + (f"; around the call in {caller.name}: {[r_[1] for r_ in res_ if r_[0] is not True][0]}" if sites else "")

    def refused_by_caller() -> tuple[bool, str]:
        """the size is checked where it arrives: followed from every `<target> = self.<reader>()` in the caller for sample
        sizes - a negative size must end in `raise OSError` before the target is used, a size >= 0 must get through."""
        ccfg = cfg_of(caller)
        sites = [n for n in ccfg.nodes if n.kind == "stmt" and isinstance(n.ast, ast.Assign) and len(n.ast.targets) == 1 and sym.is_header_read(n.ast.value)]
        if not sites:
            return False, f"no `<target> = self.{lr.name}()` in {caller.name}"
        for hn in sites:
            tgt = norm(hn.ast.targets[0])  # type: ignore[union-attr]
            is_t = lambda x, tgt=tgt: isinstance(x, (ast.Name, ast.Attribute)) and norm(x) == tgt  # noqa: E731
            for size in (-255, -1, 0, 1, 255):
                out: set[str] = set()
                seen: set[int] = set()
                stack = [s_ for s_, l in hn.succs if l != "exc"]
                while stack:
                    n = stack.pop()
                    if n.id in seen:
                        continue
                    seen.add(n.id)
                    if n is ccfg.exit or n.kind == "join" or n is hn:
                        out.add("used")
                        continue
                    if n is ccfg.raise_exit:
                        continue
                    if isinstance(n.ast, ast.Raise) and n.kind == "stmt":
                        out.add(f"raise {astq.raised_name(n.ast)}")
                        continue
                    if n.ast is not None and H.mentions(n.ast, is_t):
                        if n.kind == "test":
                            try:
                                c = bool(H.ev(n.ast, lambda x, size=size: (True, size) if is_t(x) else (False, None)))
                                stack += [s_ for s_, l in n.succs if l == ("T" if c else "F")]
                                continue
                            except H.Unknown:
                                pass
                        out.add("used")
                        continue
                    stack += [s_ for s_, l in n.succs if l != "exc"]
                raises = {x for x in out if x.startswith("raise ")}
                if size < 0 and not (raises and out == raises and all(x[len("raise "):] in OSERRORS for x in raises)):
                    return False, f"in {caller.name} a size of {size} stored in `{tgt}` reaches {sorted(out)}"
                if size >= 0 and "used" not in out:
                    return False, f"in {caller.name} a size of {size} stored in `{tgt}` is refused: {sorted(out)}"
        return True, f"checked in {caller.name}: negative sizes raise OSError before `{tgt}` is used"

    ints = [c for c in astq.calls(lr.node) if dotted(c.func) == "int"]
    ctx.floor("R19.3", "int() parses in the chunk-size reader", len(ints), 1)
    for c in ints:
        base = astq.arg_or_kw(c, 1, "base")
        ctx.ob("R19.3", "the chunk size is parsed as hexadecimal", isinstance(base, ast.Constant) and base.value == 16, f"`{norm(c)}`", lr, c, "hex base")
        ok, why = covered(c)
        ctx.ob("R19.3", "a non-hex chunk size is reported as OSError", ok, f"`{norm(c)}`: {why}", lr, c, "int() ValueError -> OSError")
    for c in astq.method_calls(lr.node, "decode"):
        enc = astq.arg_or_kw(c, 0, "encoding")
        total = isinstance(enc, ast.Constant) and str(enc.value).lower().replace("-", "").replace("_", "") in ("latin1", "iso88591", "l1", "cp819")
        ok, why = covered(c)
        ctx.ob("R19.3", "decoding the size line cannot leak UnicodeDecodeError", total or ok, f"`{norm(c)}`: total codec: {total}; {why}", lr, c, "decode error -> OSError")
    for r in astq.raises_of(lr.node):
        nm = astq.raised_name(r)
        ctx.ob("R19.3", "the chunk-size reader raises only OSError", nm in OSERRORS, f"`{norm(r)}`", lr, r, f"size reader raise {nm}")
    lines = [c for c in astq.calls(lr.node) if isinstance(c.func, ast.Attribute) and is_self_attr(c.func.value, under_attr)]
    ctx.ob("R19.3", "the size line is one readline() of the underlying stream", len(lines) == 1 and lines[0].func.attr == "readline" and not lines[0].args, f"{[norm(c) for c in lines]}", lr, lines[0] if lines else lr.node, "size line read")  # type: ignore[attr-defined]
    _size_lines_accepted(ctx, lr, under_attr)
    # negative sizes
    rets = astq.returns_of(lr.node)
    ctx.floor("R19.3", "returns of the chunk-size reader", len(rets), 1)
    for r in rets:
        rn = cfg.node_of(r)
        assert rn is not None
        if not isinstance(r.value, ast.Name):
            okc, whyc = refused_by_caller() if isinstance(r.value, ast.Call) and dotted(r.value.func) == "int" else (False, "")
            ctx.ob("R19.3", "a negative chunk size raises OSError; zero and positive sizes are returned as parsed", okc, f"`{norm(r)}` returns an unchecked expression; {whyc}", lr, r, "negative size refused")
            continue
        v = r.value.id
        is_v = lambda x, v=v: isinstance(x, ast.Name) and x.id == v  # noqa: E731
        adm, atoms = H.admitted(cfg.guards(rn), is_v, [-255, -1, 0, 1, 255, 1 << 40])
        if not atoms and all(d.value is not None and isinstance(d.value, ast.Call) and dotted(d.value.func) == "int" for d in rd.reaching(rn, v)):
            # unchecked in the reader: the check may have moved to where the size arrives
            okc, whyc = refused_by_caller()
            ctx.ob("R19.3", "a negative chunk size raises OSError; zero and positive sizes are returned as parsed", okc, f"`{v}` is returned unchecked by {lr.name}; {whyc}", lr, r, "negative size refused")
            continue
        refusing = []
        for t_, l in atoms:
            other = "F" if l == "T" else "T"
            rr: set[int] = set()
            for s in cfg.succ(t_, other):
                rr |= cfg.reach(s)
            raises = [n for n in cfg.nodes if n.id in rr and isinstance(n.ast, ast.Raise)]
            if cfg.exit.id not in rr and raises and all(astq.raised_name(n.ast) in OSERRORS for n in raises):  # type: ignore[arg-type]
                refusing.append(t_)
        ok = adm == [0, 1, 255, 1 << 40] and len(refusing) == len(atoms) and bool(atoms)
        defs = rd.reaching(rn, v)
        from_int = bool(defs) and all(d.value is not None and isinstance(d.value, ast.Call) and dotted(d.value.func) == "int" for d in defs)
        ctx.ob("R19.3", "a negative chunk size raises OSError; zero and positive sizes are returned as parsed", ok and from_int, f"tests on `{v}`: {[norm(a.ast) + ':' + l for a, l in atoms]}; sizes admitted from the sample: {adm}; refused edge raises OSError: {len(refusing) == len(atoms)}; `{v}` is the int() result: {from_int}", lr, r, "negative size refused")
